"""Known findings C02 WF: the state-preparation / state-map workflows have
no single-qudit retarget stage, so the result can contain non-native
single-qudit gates.  (Starts a runtime; takes about a minute.)
Run: cd /repo && /venv/bin/python /verif/findings/C02_stateprep_native.py
"""
import sys

from bqskit import compile
from bqskit import MachineModel
from bqskit.compiler import Compiler
from bqskit.ir.gates import CNOTGate
from bqskit.ir.gates import U3Gate
from bqskit.qis.state.state import StateVector

if __name__ == '__main__':
    m = MachineModel(2, gate_set={CNOTGate(), U3Gate()})
    with Compiler(num_workers=4) as comp:
        out = compile(StateVector.random(2), m, optimization_level=1,
                      compiler=comp, seed=3)
    native = all(g in m.gate_set for g in out.gate_set)
    print('gate set of the result:', out.gate_set, 'native:', native)
    if not native:
        print('FAIL: non-native gates in the compiled state preparation')
        sys.exit(1)
    print('PASS')
