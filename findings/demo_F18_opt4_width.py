from bqskit import compile, Circuit, MachineModel
from bqskit.ir.gates import HGate, TGate
from bqskit.compiler import Compiler
if __name__ == '__main__':
    c = Circuit(1); c.append_gate(HGate(), 0); c.append_gate(TGate(), 0)
    m = MachineModel(3, [(0,1),(1,2)])
    with Compiler(num_workers=2) as comp:
        for lvl in (1,4):
            out = compile(c, m, optimization_level=lvl, compiler=comp)
            print("level", lvl, "out width", out.num_qudits, "model width", m.num_qudits, "compatible", m.is_compatible(out), out.gate_counts)
