"""Known finding C07 ATOM: the worker's wake protocol is not atomic.

Drives the real Worker with a hand-made schedule: the incoming thread's
_handle_result runs between `box.dest_addr = ...` and `if box.ready:` of
the main thread's _process_await.  The awaiting task is enqueued twice for a
single await.  Exit 1 when the defect manifests, 0 otherwise.
Run: cd /repo && /venv/bin/python /verif/findings/C07_double_wake.py
"""
import linecache
import sys

from _fake import make_worker

from bqskit.runtime.address import RuntimeAddress
from bqskit.runtime.future import RuntimeFuture
from bqskit.runtime.result import RuntimeResult
from bqskit.runtime.task import RuntimeTask
from bqskit.runtime.worker import WorkerMailbox


def noop():
    return 1


w, c = make_worker()
parent = RuntimeTask((noop, (), {}), RuntimeAddress(7, 99, 0), 0, ())
w._tasks[parent.return_address] = parent
w._mailboxes[1] = WorkerMailbox.new_mailbox()
parent.owned_mailboxes.append(1)
res = RuntimeResult(RuntimeAddress(7, 1, 0), 'value', 7)
fired = []


def tracer(frame, event, arg):
    if frame.f_code.co_name == '_process_await' and event == 'line':
        line = linecache.getline(frame.f_code.co_filename, frame.f_lineno)
        if line.strip().startswith('if box.ready') and not fired:
            fired.append(1)
            w._handle_result(res)   # what recv_incoming does at this instant
    return tracer


sys.settrace(tracer)
w._process_await(parent, RuntimeFuture(1))
sys.settrace(None)
n = 0
while not w._ready_task_ids.empty():
    w._ready_task_ids.get_nowait()
    n += 1
print(f'parent task enqueued {n} time(s) for one await')
if n != 1:
    print('FAIL: double wake (C07 known finding manifests)')
    sys.exit(1)
print('PASS')
