from bqskit import compile, MachineModel
from bqskit.ir.gates import CNOTGate, U3Gate
from bqskit.qis.state.state import StateVector
from bqskit.compiler import Compiler
if __name__ == '__main__':
    m = MachineModel(2, gate_set={CNOTGate(), U3Gate()})
    with Compiler(num_workers=4) as comp:
        out = compile(StateVector.random(2), m, optimization_level=1, compiler=comp, seed=3)
        print("gate set of result:", out.gate_set, "native:", all(g in m.gate_set for g in out.gate_set))
