#!/usr/bin/env python3
"""F39 (fixed by a4be128): U8Gate.calc_params was singular on degenerate
single-qutrit unitaries.   exit 1 = the defect manifests."""
import sys
import warnings

import numpy as np

from bqskit.ir.gates import U8Gate
from bqskit.qis.unitary.unitarymatrix import UnitaryMatrix

warnings.simplefilter('ignore')
g = U8Gate()
bad = []
p = g.identity_as_params([3])
if np.any(np.isnan(p)):
    bad.append(f'identity_as_params([3]) = {[float(x) for x in p]}')
rng = np.random.default_rng(0)
nan = wrong = 0
for _ in range(200):
    ph = np.exp(1j * rng.uniform(-3, 3, 3))
    u = UnitaryMatrix(np.eye(3)[[1, 0, 2]] * ph[None, :], [3], False)
    q = np.array(g.calc_params(u))
    if np.any(np.isnan(q)):
        nan += 1
    elif g.get_unitary(q).get_distance_from(u) > 1e-6:
        wrong += 1
if nan or wrong:
    bad.append(f'phased 0<->1 swaps: {nan} NaN, {wrong} wrong of 200')
if bad:
    print('FAIL:', '; '.join(bad))
    sys.exit(1)
print('PASS')
