import sys
from bqskit.ir.circuit import Circuit
from bqskit.ir.gates import CNOTGate, HGate, BarrierPlaceholder, CircuitGate, SqrtTGate, U3Gate
from bqskit.compiler.passdata import PassData
from bqskit.passes import ScanPartitioner, ClusteringPartitioner, GreedyPartitioner, QuickPartitioner
from bqskit.passes.partitioning.gtqcp import GTQCPartitioner
from bqskit.passes.partitioning.tdag import TDAGPartitioner

def drive(p, c):
    d = PassData(c)
    co = p.run(c, d)
    try:
        co.send(None)
    except StopIteration:
        pass

def mk():
    c = Circuit(3)
    c.append_gate(CNOTGate(), (0, 1)); c.append_gate(HGate(), 2)
    c.append_gate(BarrierPlaceholder(3), (0, 1, 2))
    c.append_gate(CNOTGate(), (1, 2)); c.append_gate(HGate(), 0)
    return c

for P in (QuickPartitioner, ScanPartitioner, ClusteringPartitioner, GreedyPartitioner, GTQCPartitioner, TDAGPartitioner):
    c = mk()
    try:
        p = P(3)
        drive(p, c)
        absorbed = any(isinstance(op.gate, CircuitGate) and any(isinstance(g, BarrierPlaceholder) for g in op.gate._circuit.gate_set) for op in c)
        top = [type(op.gate).__name__ for op in c]
        print(f'{P.__name__:24s} barrier absorbed into a block: {absorbed}; top-level ops: {top}')
    except Exception as e:
        print(f'{P.__name__:24s} ERR {type(e).__name__}: {e}')

# F10: library gate whose own QASM cannot be read back
c = Circuit(1); c.append_gate(SqrtTGate(), 0)
q = c.to('qasm'); print(q.strip().splitlines()[-1])
try:
    from bqskit.ir.lang.qasm2 import OPENQASM2Language
    OPENQASM2Language().decode(q); print('decoded ok')
except Exception as e:
    print('F10 decode failed:', type(e).__name__, str(e)[:80])
# F9
for fn in ('sqrt(4)', 'exp(0)'):
    src = f'OPENQASM 2.0;\ninclude "qelib1.inc";\nqreg q[1];\nrz({fn}) q[0];\n'
    try:
        OPENQASM2Language().decode(src); print(fn, 'ok')
    except Exception as e:
        print('F9', fn, 'failed:', type(e).__name__, str(e)[:60].replace('\n',' '))
