"""Known findings C08 SIB: five partitioners absorb a barrier into a block.
Exit 1 when any listed partitioner absorbs the barrier.
Run: cd /repo && /venv/bin/python /verif/findings/C08_barrier_absorbed.py
"""
import sys

from bqskit.compiler.passdata import PassData
from bqskit.ir.circuit import Circuit
from bqskit.ir.gates import BarrierPlaceholder
from bqskit.ir.gates import CircuitGate
from bqskit.ir.gates import CNOTGate
from bqskit.ir.gates import HGate
from bqskit.passes import ClusteringPartitioner
from bqskit.passes import GreedyPartitioner
from bqskit.passes import QuickPartitioner
from bqskit.passes import ScanPartitioner
from bqskit.passes.partitioning.gtqcp import GTQCPartitioner
from bqskit.passes.partitioning.tdag import TDAGPartitioner


def drive(p, c):
    co = p.run(c, PassData(c))
    try:
        co.send(None)
    except StopIteration:
        pass


def mk():
    c = Circuit(3)
    c.append_gate(CNOTGate(), (0, 1))
    c.append_gate(HGate(), 2)
    c.append_gate(BarrierPlaceholder(3), (0, 1, 2))
    c.append_gate(CNOTGate(), (1, 2))
    c.append_gate(HGate(), 0)
    return c


bad = []
for P in (QuickPartitioner, ScanPartitioner, ClusteringPartitioner,
          GreedyPartitioner, GTQCPartitioner, TDAGPartitioner):
    c = mk()
    try:
        drive(P(3), c)
        absorbed = any(
            isinstance(op.gate, CircuitGate) and any(
                isinstance(g, BarrierPlaceholder)
                for g in op.gate._circuit.gate_set) for op in c)
    except Exception as e:   # noqa
        absorbed = f'error {type(e).__name__}'
    print(f'{P.__name__:24s} barrier absorbed: {absorbed}')
    if absorbed:
        bad.append(P.__name__)
# ClusteringPartitioner needs a narrow barrier (found by random search)
c = Circuit(4)
c.append_gate(BarrierPlaceholder(2), (1, 2))
c.append_gate(BarrierPlaceholder(1), (2,))
c.append_gate(CNOTGate(), (3, 1))
c.append_gate(CNOTGate(), (3, 1))
c.append_gate(CNOTGate(), (0, 1))
c.append_gate(HGate(), 3)
c.append_gate(HGate(), 0)
c.append_gate(HGate(), 1)
c.append_gate(CNOTGate(), (0, 2))
found = False
for bs, npts in ((2, 2), (2, 3), (2, 4), (2, 8), (3, 2), (3, 3), (3, 4),
                 (3, 8)):
    cc = c.copy()
    try:
        drive(ClusteringPartitioner(bs, npts), cc)
    except Exception:   # noqa
        continue
    if any(isinstance(op.gate, CircuitGate) and any(
            isinstance(g, BarrierPlaceholder)
            for g in op.gate._circuit.gate_set) for op in cc):
        found = True
        print(f'ClusteringPartitioner({bs}, {npts}) narrow barrier '
              'absorbed: True')
        break
if found and 'ClusteringPartitioner' not in bad:
    bad.append('ClusteringPartitioner')
if bad:
    print('FAIL:', bad)
    sys.exit(1)
print('PASS')
