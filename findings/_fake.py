"""Shared helpers for the replay scripts (real Worker with a fake pipe)."""
import logging
import queue


class FakeConn:
    def __init__(self):
        self.inq = queue.Queue()
        self.sent = []
        self.closed = False

    def recv(self):
        return self.inq.get()

    def send(self, m):
        self.sent.append(m)

    def poll(self, *a):
        return False

    def close(self):
        self.closed = True


def make_worker(wid=7):
    from bqskit.runtime.worker import Worker
    old = logging.getLogRecordFactory()
    c = FakeConn()
    w = Worker(wid, c)
    logging.setLogRecordFactory(old)
    return w, c
