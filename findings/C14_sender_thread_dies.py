#!/usr/bin/env python3
"""F31: the server's sender thread caught only EOFError and
ConnectionResetError; sending to a peer that is gone usually raises
BrokenPipeError, which ended the thread - the server stayed up but never
sent another message (every other client hangs).

Drives the real ServerBase.send_outgoing on a real multiprocessing pipe whose
other end was closed.   exit 1 = the defect manifests, 0 = handled.
"""
import sys
import threading
import time
from multiprocessing import Pipe
from queue import Queue

from bqskit.runtime.message import RuntimeMessage
from bqskit.runtime.base import ServerBase


class Probe(ServerBase):
    def __init__(self) -> None:  # no sockets, no workers
        self.outgoing = Queue()
        self.running = True
        self.disconnected = []

    def handle_disconnect(self, conn) -> None:
        self.disconnected.append(conn)

    def get_to_string(self, conn) -> str:
        return 'probe'


s = Probe()
t = threading.Thread(target=s.send_outgoing, daemon=True)
errors = []
threading.excepthook = lambda a: errors.append(a.exc_type.__name__)
t.start()
dead, peer = Pipe()
peer.close()                      # the peer process is gone
alive, other = Pipe()
s.outgoing.put((dead, RuntimeMessage.LOG, b'x' * 10))
s.outgoing.put((alive, RuntimeMessage.LOG, b'hello'))
time.sleep(1.0)
ok = t.is_alive() and other.poll(1.0)
s.running = False
s.outgoing.put((alive, RuntimeMessage.LOG, b''))
if not ok:
    print(f'FAIL: sender thread alive={t.is_alive()}, uncaught={errors}, '
          f'message to the healthy peer delivered={other.poll(0)}')
    sys.exit(1)
print(f'PASS: dead peer reported to handle_disconnect '
      f'({len(s.disconnected)}), healthy peer still served')
