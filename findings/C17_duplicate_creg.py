#!/usr/bin/env python3
"""F27 (fixed by 62b3b73): the QASM writer declared a classical register
once per measurement gate.   exit 1 = the defect manifests."""
import sys

from bqskit.ir.lang.qasm2 import OPENQASM2Language

L = OPENQASM2Language()
c = L.decode('''OPENQASM 2.0;
include "qelib1.inc";
qreg q[2];
creg c[2];
measure q[0] -> c[0];
measure q[1] -> c[1];
''')
out = L.encode(c)
n = out.count('creg c[2];')
try:
    L.decode(out)
    err = None
except Exception as e:  # noqa
    err = f'{type(e).__name__}: {e}'
if n != 1 or err:
    print(f'FAIL: `creg c[2];` written {n} times; reading it back: {err}')
    sys.exit(1)
print('PASS')
