"""Known finding C12 LEAK: a task whose SUBMIT arrives after the CANCEL of
an ancestor (or of itself) is discarded from the ready queue but stays in
Worker._tasks.  Exit 1 when the residue is observed.
Run: cd /repo && /venv/bin/python /verif/findings/C12_overtaken_submit.py
"""
import sys
import threading

from _fake import make_worker

from bqskit.runtime.address import RuntimeAddress
from bqskit.runtime.task import RuntimeTask


def noop():
    return 1


bad = 0
for which in ('breadcrumbs', 'address'):
    w, c = make_worker()
    root = RuntimeAddress(-1, 0, 0)
    own = RuntimeAddress(3, 5, 0)
    w._handle_cancel(root if which == 'breadcrumbs' else own)
    crumbs = (root,) if which == 'breadcrumbs' else ()
    child = RuntimeTask((noop, (), {}), own, 0, crumbs)
    w.read_receipt_mutex.acquire()
    w._add_task(child)
    w.read_receipt_mutex.release()
    t = threading.Thread(target=w._get_next_ready_task, daemon=True)
    t.start()
    t.join(1.0)
    left = list(w._tasks.keys())
    print(f'{which}: ready queue empty={w._ready_task_ids.empty()} '
          f'residue in _tasks={left}')
    bad += bool(left)
if bad:
    print('FAIL: cancelled task left in Worker._tasks (C12 known finding)')
    sys.exit(1)
print('PASS')
