"""Known finding C08 PARAMLIVE: Circuit.surround ignores bounding_region.
Run: cd /repo && /venv/bin/python /verif/findings/C08_surround_bound.py
"""
import sys

from bqskit.ir.circuit import Circuit
from bqskit.ir.gates import CNOTGate

c = Circuit(2)
for _ in range(4):
    c.append_gate(CNOTGate(), (0, 1))
r = c.surround((1, 0), 2, bounding_region={0: (1, 2), 1: (1, 2)})
print('bounded to cycles 1..2, got:', r)
if any(iv.lower < 1 or iv.upper > 2 for iv in r.values()):
    print('FAIL: the returned region exceeds the bounding region')
    sys.exit(1)
print('PASS')
