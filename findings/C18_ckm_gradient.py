#!/usr/bin/env python3
"""F36 (fixed by 2d6aa41): CKMGate / CKMdgGate get_grad was not the derivative
of get_unitary.   exit 1 = the defect manifests."""
import sys

import numpy as np

from bqskit.ir.gates import CKMdgGate
from bqskit.ir.gates import CKMGate

bad = []
for g in (CKMGate(), CKMdgGate()):
    p = np.array([0.7, -1.1, 0.4, 1.9])
    grad = g.get_grad(p)
    h = 1e-6
    for i in range(4):
        d = np.zeros(4)
        d[i] = h
        fd = (g.get_unitary(p + d).numpy - g.get_unitary(p - d).numpy) / (2 * h)
        err = np.abs(fd - grad[i]).max()
        if err > 1e-6:
            bad.append(f'{g.name} d/dparams[{i}] off by {err:.3f}')
if bad:
    print('FAIL:', '; '.join(bad))
    sys.exit(1)
print('PASS')
