#!/usr/bin/env python3
"""F28 / F29 (fixed by c77a737, 2672cf8): equality that stops at the shorter
operand.   exit 1 = the defect manifests, exit 0 = correct."""
import sys

from bqskit.ir import Circuit
from bqskit.ir.gates import CircuitGate
from bqskit.ir.gates import CNOTGate
from bqskit.ir.gates import HGate
from bqskit.ir.gates import XGate

bad = []
c1 = Circuit(2)
c1.append_gate(HGate(), 0)
c2 = c1.copy()
c2.append_gate(CNOTGate(), [0, 1])
c2.append_gate(XGate(), 1)
g1, g2 = CircuitGate(c1), CircuitGate(c2)
if g1 == g2:
    bad.append(f'CircuitGate(H) == CircuitGate(H;CNOT;X); hashes equal: '
               f'{hash(g1) == hash(g2)}')
a = Circuit(2)
a.append_gate(HGate(), 0)
b = Circuit(3)
b.append_gate(HGate(), 0)
if a == b:
    bad.append('Circuit(2) == Circuit(3) holding the same operation')
if Circuit(1) == Circuit(4):
    bad.append('Circuit(1) == Circuit(4)')
for x in bad:
    print('FAIL:', x)
print('PASS' if not bad else f'{len(bad)} defect(s) manifest')
sys.exit(1 if bad else 0)
