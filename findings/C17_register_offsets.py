#!/usr/bin/env python3
"""F25 / F26 (fixed by e8623df, ce2ddf7): the OpenQASM reader ignored the
register offset in two places.

  PYTHONPATH=<repo root> python findings/C17_register_offsets.py
  exit 1 = the defect manifests, exit 0 = the tree behaves correctly.
"""
import sys

from bqskit.ir.lang.qasm2 import OPENQASM2Language

bad = []
c = OPENQASM2Language().decode('''OPENQASM 2.0;
qreg q[2];
qreg r[2];
creg c[2];
measure r[1] -> c[0];
''')
for op in c:
    keys = sorted(op.gate.measurements)
    if list(op.location) != keys:
        bad.append(f'measure r[1]: operation on {tuple(op.location)} but '
                   f'measurement map names qudits {keys}')
c = OPENQASM2Language().decode('''OPENQASM 2.0;
qreg q[1];
qreg r[3];
reset r;
''')
got = sorted(op.location[0] for op in c)
if got != [1, 2, 3]:
    bad.append(f'reset r (r = qudits 1..3) reset qudits {got}')
for b in bad:
    print('FAIL:', b)
print('PASS' if not bad else f'{len(bad)} defect(s) manifest')
sys.exit(1 if bad else 0)
