"""TreeScanningGateRemovalPass(start_from_left=False) raises IndexError: the
left-to-right cycle shift is applied in get_tree_circs even when scanning from
the right. (A synchronous stand-in replaces the runtime so no Compiler/port is
needed; the same IndexError is raised under a real Compiler.)"""
import asyncio, sys, warnings
import bqskit.passes.processing.treescan as ts
from bqskit.compiler.passdata import PassData
from bqskit.ir.circuit import Circuit
from bqskit.ir.gates import RZGate
warnings.filterwarnings('ignore')


class SyncRuntime:
    async def map(self, fn, items, **kw):
        return [fn(i, **kw) for i in items]


ts.get_runtime = lambda: SyncRuntime()
circuit = Circuit(1)
for a in (0.1, 0.2, 0.3, 0.4):
    circuit.append_gate(RZGate(), 0, [a])   # 4 RZ in a row: 3 are removable
target = circuit.get_unitary()
rc = 0
for left in (True, False):
    c = circuit.copy()
    try:
        p = ts.TreeScanningGateRemovalPass(start_from_left=left, tree_depth=1)
        asyncio.run(p.run(c, PassData(c)))
        print('start_from_left =', left, 'ok', c.num_operations, 'ops, dist',
              c.get_unitary().get_distance_from(target))
    except IndexError as e:
        print('start_from_left =', left, 'RAISED IndexError:', e)
        rc = 1
sys.exit(rc)
