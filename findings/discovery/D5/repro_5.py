"""TreeScanningGateRemovalPass accepts and documents collection_filter but never
consults it: operations the filter excludes are removed anyway."""
import asyncio, sys, warnings, io, contextlib
import bqskit.passes.processing.treescan as ts
from bqskit.compiler.passdata import PassData
from bqskit.ir.circuit import Circuit
from bqskit.ir.gates import RZGate, CNOTGate
warnings.filterwarnings('ignore')


class SyncRuntime:          # synchronous stand-in for the runtime (no port)
    async def map(self, fn, items, **kw):
        return [fn(i, **kw) for i in items]


ts.get_runtime = lambda: SyncRuntime()
c = Circuit(2)
c.append_gate(RZGate(), 0, [0.1])
c.append_gate(RZGate(), 0, [0.2])      # removable, but filter says: keep 1q
c.append_gate(CNOTGate(), (0, 1))
p = ts.TreeScanningGateRemovalPass(
    tree_depth=1, collection_filter=lambda op: op.num_qudits == 2,
)
with contextlib.redirect_stdout(io.StringIO()):
    asyncio.run(p.run(c, PassData(c)))
print('RZ gates left:', c.count(RZGate()), '(2 expected: filter excludes them)')
sys.exit(0 if c.count(RZGate()) == 2 else 1)
