"""Root cause of 'ExtractDiagonalPass cannot run with >= 2 blocks' (and of
FullBlockZXZPass() defaults / FullQSDPass(perform_scan=True) failing):
expression-backed gates (CNOTGate, RZGate, ...) are no longer ConstantGate /
LocallyOptimizableUnitary, so QFactor.is_capable() rejects every circuit with a
CNOT, although the native QFactor handles constant gates fine."""
import asyncio, sys, warnings
import numpy as np
from scipy.stats import unitary_group
from bqskit.compiler.passdata import PassData
from bqskit.ir.circuit import Circuit
from bqskit.ir.gates import CNOTGate, VariableUnitaryGate
from bqskit.ir.opt.instantiaters.qfactor import QFactor
from bqskit.passes.processing.extract_diagonal import ExtractDiagonalPass
from bqskit.qis import UnitaryMatrix
warnings.filterwarnings('ignore')

a = Circuit(2)
a.append_gate(VariableUnitaryGate(1), 0)
a.append_gate(CNOTGate(), (0, 1))
print('QFactor.is_capable(VU+CNOT) =', QFactor.is_capable(a))
t = UnitaryMatrix(CNOTGate().get_unitary().numpy
                  @ np.kron(unitary_group.rvs(2, random_state=0), np.eye(2)))
a.set_params(QFactor().instantiate(a, t, a.params))   # native code copes
print('native QFactor distance:', a.get_unitary().get_distance_from(t))

c = Circuit(2)
for s in (1, 2):
    u = UnitaryMatrix(unitary_group.rvs(4, random_state=s))
    c.append_gate(VariableUnitaryGate(2), (0, 1), VariableUnitaryGate.get_params(u))
try:
    asyncio.run(ExtractDiagonalPass().run(c, PassData(c)))
    print('ExtractDiagonalPass ok'); sys.exit(0)
except ValueError as e:
    print('ExtractDiagonalPass RAISED:', str(e).splitlines()[-1]); sys.exit(1)
