"""ExhaustiveGateRemovalPass raises 'Unable to map 0 tasks.' whenever every
gate can be removed (circuit implements the identity), because it keeps
expanding a frontier that only holds the empty circuit.
Starts a Compiler (binds localhost:7472): run inside
  unshare -rn bash -c 'ip link set lo up; python repro_3.py'"""
import sys, warnings
from bqskit.compiler import Compiler
from bqskit.ir.circuit import Circuit
from bqskit.ir.gates import U3Gate
from bqskit.passes import ExhaustiveGateRemovalPass
warnings.filterwarnings('ignore')

if __name__ == '__main__':
    circuit = Circuit(1)
    circuit.append_gate(U3Gate(), 0, [0.0, 0.0, 0.0])   # identity
    rc = 0
    with Compiler(num_workers=2) as compiler:
        try:
            out = compiler.compile(circuit, [ExhaustiveGateRemovalPass()])
            print('ok:', out.num_operations, 'operations left')
        except RuntimeError as e:
            print('RAISED:', str(e.__cause__ or e).strip().splitlines()[-1])
            rc = 1
    sys.exit(rc)
