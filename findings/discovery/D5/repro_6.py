"""Rule passes (CNOTToCZPass etc.) collect the source gates *before* calling
circuit.unfold_all(): source gates inside a CircuitGate block are flattened into
the output un-rewritten, so the advertised post-condition 'no CNOT' fails."""
import asyncio, sys
from bqskit.compiler.passdata import PassData
from bqskit.ir.circuit import Circuit
from bqskit.ir.gates import CNOTGate, HGate
from bqskit.passes import CNOTToCZPass

sub = Circuit(2)
sub.append_gate(HGate(), 0)
sub.append_gate(CNOTGate(), (0, 1))
c = Circuit(3)
c.append_gate(CNOTGate(), (0, 1))
c.append_circuit(sub, (1, 2), as_circuit_gate=True)   # a partitioned block
u = c.get_unitary()
asyncio.run(CNOTToCZPass().run(c, PassData(c)))
print('gates after CNOTToCZPass:', dict(c.gate_counts))
print('unitary preserved:', c.get_unitary().get_distance_from(u) < 1e-9)
sys.exit(1 if CNOTGate() in c.gate_set else 0)
