"""BlockZXZPass.demultiplex uses scipy.linalg.eig, whose eigenvectors are not
orthonormal inside a degenerate eigenspace -> UnitaryMatrix(V) raises
'Input failed unitary condition' for valid unitaries (Toffoli, H^3, I(x)U...)."""
import sys
import numpy as np
from scipy.stats import unitary_group
from bqskit.passes.synthesis.bzxz import BlockZXZPass
from bqskit.qis.unitary.unitarymatrix import UnitaryMatrix

tof = np.eye(8, dtype=complex)
tof[6:, 6:] = [[0, 1], [1, 0]]
H = np.array([[1, 1], [1, -1]]) / np.sqrt(2)
cases = {
    'toffoli': tof,
    'H(x)H(x)H': np.kron(np.kron(H, H), H).astype(complex),
    'I(x)haar(2q)': np.kron(np.eye(2), unitary_group.rvs(4, random_state=1)),
}
bad = 0
for name, U in cases.items():
    try:
        c = BlockZXZPass.zxz(UnitaryMatrix(U))
        d = c.get_unitary().get_distance_from(U)
        print(name, 'ok, distance', d)
        bad += d > 1e-6
    except Exception as e:
        print(name, 'RAISED', type(e).__name__, e)
        bad += 1
sys.exit(1 if bad else 0)
