"""BlockConversionPass('variable'): the CircuitGate->Variable branch is guarded
by convert_constant instead of convert_circuitgates, so convert_circuitgates is
ignored (both ways)."""
import asyncio, sys
from bqskit.compiler.passdata import PassData
from bqskit.ir.circuit import Circuit
from bqskit.ir.gates import CircuitGate, CNOTGate, ConstantUnitaryGate, HGate
from bqskit.passes import BlockConversionPass


def build():
    sub = Circuit(2)
    sub.append_gate(HGate(), 0)
    sub.append_gate(CNOTGate(), (0, 1))
    c = Circuit(2)
    c.append_circuit(sub, (0, 1), as_circuit_gate=True)
    c.append_gate(ConstantUnitaryGate(sub.get_unitary()), (0, 1))
    return c


def kinds(c):
    return [type(op.gate).__name__ for op in c]


rc = 0
for kw, expect in [
    (dict(convert_circuitgates=False), ['CircuitGate', 'VariableUnitaryGate']),
    (dict(convert_constant=False), ['VariableUnitaryGate', 'ConstantUnitaryGate']),
]:
    c = build()
    asyncio.run(BlockConversionPass('variable', **kw).run(c, PassData(c)))
    ok = kinds(c) == expect
    print(kw, '->', kinds(c), 'expected', expect, 'OK' if ok else 'WRONG')
    rc |= not ok
sys.exit(int(rc))
