"""ExtractDiagonalPass merges the extracted diagonal into the previous
VariableUnitaryGate as if both blocks acted on the same qudits in the same
order (and as if everything in between commuted with it). With blocks on
different locations the output unitary is silently wrong. LATENT: today the
pass raises first (repro_7); the is_capable fix proposed there is applied below
in-process to expose the second defect."""
import asyncio, sys, warnings
from scipy.stats import unitary_group
from bqskit.compiler.passdata import PassData
from bqskit.ir.circuit import Circuit
from bqskit.ir.gates import VariableUnitaryGate
from bqskit.passes.processing.extract_diagonal import ExtractDiagonalPass
from bqskit.qis import UnitaryMatrix
from bqskit.qis.unitary.optimizable import LocallyOptimizableUnitary as LOU
from bqskit.ir.opt.instantiaters.qfactor import QFactor
QFactor.is_capable = staticmethod(lambda c: all(
    g.num_params == 0 or isinstance(g, LOU) for g in c.gate_set))
warnings.filterwarnings('ignore')

rc = 0
for name, locs in [('same location', [(0, 1), (0, 1)]),
                   ('reversed', [(0, 1), (1, 0)]),
                   ('overlapping', [(0, 1), (1, 2)])]:
    c = Circuit(3)
    for s, loc in enumerate(locs):
        u = UnitaryMatrix(unitary_group.rvs(4, random_state=s + 1))
        c.append_gate(VariableUnitaryGate(2), loc, VariableUnitaryGate.get_params(u))
    before = c.get_unitary()
    p = ExtractDiagonalPass()
    asyncio.run(p.run(c, PassData(c)))
    d = c.get_unitary().get_distance_from(before)
    print(f'{name:15s} distance after pass = {d:.2e}', dict(c.gate_counts))
    rc |= d > 1e-3
sys.exit(int(rc))
