"""UnitaryBuilder.calc_env_matrix hard-codes radix 2: fails for any non-qubit builder."""
import sys
import numpy as np
from bqskit.qis.unitary.unitarybuilder import UnitaryBuilder
from bqskit.qis.unitary.unitarymatrix import UnitaryMatrix

radixes = (3, 2)
b = UnitaryBuilder(2, radixes)
U = UnitaryMatrix.random(2, radixes)
b.apply_right(U, [0, 1])
# Reference: env[a, b] = sum_k B[(a,k), (b,k)]  (partial trace over qudit 1)
B = np.asarray(b.get_unitary()).reshape(3, 2, 3, 2)
want = np.einsum('akbk->ab', B)
try:
    env = b.calc_env_matrix([0])
except ValueError as e:
    print('DEFECT: calc_env_matrix raised on a (3,2) builder:', e)
    sys.exit(1)
if not np.allclose(env, want):
    print('DEFECT: wrong environment matrix')
    sys.exit(1)
print('ok')
sys.exit(0)
