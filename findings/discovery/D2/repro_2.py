"""Circuit.get_statevector ignores the circuit's radixes when given a raw vector."""
import sys
import numpy as np
from bqskit.ir.circuit import Circuit
from bqskit.ir.gates import XGate

c = Circuit(2, [4, 2])          # one ququart (MSB) and one qubit (LSB)
c.append_gate(XGate(), 1)       # flip the qubit
v = np.zeros(8)
v[0] = 1.0                      # |0>_4 |0>_2
want = np.asarray(c.get_unitary()) @ v      # -> basis state 1 = |0>_4 |1>_2
try:
    got = np.asarray(c.get_statevector(v))  # documented: in_state is StateLike
except Exception as e:
    print('DEFECT: raised', type(e).__name__, e)
    sys.exit(1)
if not np.allclose(got, want):
    print('DEFECT: get_statevector != get_unitary @ v')
    print('  got  index', np.nonzero(got)[0], ' want index', np.nonzero(want)[0])
    sys.exit(1)
print('ok')
sys.exit(0)
