"""insert_circuit / replace_with_circuit / unfold reverse the sub-circuit's
operation order when the target cycle is (or becomes) the end of the circuit."""
import sys
import numpy as np
from bqskit.ir.circuit import Circuit
from bqskit.ir.gates import HGate, CNOTGate, TGate

sub = Circuit(2)
sub.append_gate(CNOTGate(), [0, 1])
sub.append_gate(HGate(), 1)      # H(1) comes AFTER the CNOT

c = Circuit(2)
c.append_gate(TGate(), 0)        # cycle 0, qudit 1 is idle there
c.append_circuit(sub, [0, 1], as_circuit_gate=True)   # block in cycle 1
before = c.get_unitary()
c.unfold((1, 0))                 # must not change the unitary
after = c.get_unitary()
print([str(op) for op in c])
if before.get_distance_from(after) > 1e-8 or not np.allclose(before, after):
    print('DEFECT: unfold changed the circuit unitary (H(1) now precedes CNOT)')
    sys.exit(1)
print('ok')
sys.exit(0)
