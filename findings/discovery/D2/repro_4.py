"""ArbitraryCPhaseGate.get_unitary drops the gate's radixes."""
import sys
from bqskit.ir.circuit import Circuit
from bqskit.ir.gates import ArbitraryCPhaseGate

rc = 0
for radixes in [(4, 4), (2, 3)]:
    g = ArbitraryCPhaseGate(radixes)
    try:
        u = g.get_unitary([0.3])
        if tuple(u.radixes) != radixes:
            print('DEFECT: gate radixes', radixes, 'unitary radixes', u.radixes)
            rc = 1
        c = Circuit(2, radixes)
        c.append_gate(g, [0, 1], [0.3])
        c.get_unitary()
    except Exception as e:
        print('DEFECT:', radixes, type(e).__name__, e)
        rc = 1
print('ok' if rc == 0 else 'defect present')
sys.exit(rc)
