"""qelib1.inc's `u0(gamma) q;` is rejected (built in with 0 parameters)."""
import sys
from bqskit.ir.lang.qasm2 import OPENQASM2Language
src = ('OPENQASM 2.0;\ninclude "qelib1.inc";\nqreg q[1];\nu0(1) q[0];\n')
try:
    c = OPENQASM2Language().decode(src)
    print([str(op.gate) for op in c])
    sys.exit(0)
except Exception as e:
    print(type(e).__name__, e)
    sys.exit(1)
