"""A `gate` definition whose name equals a BQSKit built-in name is ignored."""
import sys
import numpy as np
from bqskit.ir.lang.qasm2 import OPENQASM2Language
L = OPENQASM2Language()
bad = 0
# (a) silent mis-read: the program defines its own one-qubit gate `v` (= Z);
# BQSKit applies its built-in `v` (= sqrt(X)) instead.
src = 'OPENQASM 2.0;\nqreg q[1];\ngate v a { U(0,0,pi) a; }\nv q[0];\n'
U = L.decode(src).get_unitary()
Z = np.diag([1, -1])
d = U.get_distance_from(Z)
print('(a) distance of decoded `v` from its definition (Z):', d)
bad |= d > 1e-6
# (b) this is what pytket writes for OpType.CV (taken verbatim from
# pytket.qasm.circuit_to_qasm_str); the definition is controlled-Rx(pi/2),
# BQSKit substitutes controlled-sqrt(X), which differs by a relative phase.
body = ('u3(0.25*pi,1.5*pi,0.5*pi) t; u3(0.5*pi,0.0*pi,1.0*pi) t; cx c,t;'
        'u3(0.5*pi,0.0*pi,1.0*pi) t; u3(3.75*pi,1.5*pi,0.5*pi) t;'
        'u3(0.5*pi,0.0*pi,1.0*pi) t; cx c,t; u3(0.5*pi,0.0*pi,1.0*pi) t;')
hdr = 'OPENQASM 2.0;\ninclude "qelib1.inc";\nqreg q[2];\n'
as_cv = L.decode(hdr + 'gate cv c,t {' + body + '}\ncv q[0],q[1];\n')
as_xy = L.decode(hdr + 'gate xy c,t {' + body + '}\nxy q[0],q[1];\n')
d = as_cv.get_unitary().get_distance_from(as_xy.get_unitary())
print('(b) same body named `cv` vs `xy`: distance', d)
bad |= d > 1e-6
# (c) hard failure: pytket's parameterised `gate iswap(param0) a,b {...}`
try:
    L.decode(hdr + 'gate iswap(t) a,b { rxx(-t/2) a,b; ryy(-t/2) a,b; }\n'
             'iswap(0.3) q[0],q[1];\n')
except Exception as e:
    print('(c)', type(e).__name__, e)
    bad = 1
sys.exit(1 if bad else 0)
