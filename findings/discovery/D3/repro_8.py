"""A FrozenParameterGate nested in a CircuitGate or a ControlledGate is
written with too few arguments; the decoder then rejects the text."""
import sys
from bqskit.ir.circuit import Circuit
from bqskit.ir.gates import CircuitGate, ControlledGate, CXGate, U3Gate
from bqskit.ir.lang.qasm2 import OPENQASM2Language
L = OPENQASM2Language()
frozen = U3Gate().with_frozen_params({1: 0.5})
sub = Circuit(2)
sub.append_gate(frozen, 0, [0.1, 0.3])
sub.append_gate(CXGate(), (1, 0))
c1 = Circuit(2)
c1.append_gate(CircuitGate(sub), (0, 1), sub.params)
c2 = Circuit(2)
c2.append_gate(ControlledGate(frozen), (0, 1), [0.1, 0.3])
bad = 0
for c in (c1, c2):
    src = L.encode(c)
    try:
        d = L.decode(src).get_unitary().get_distance_from(c.get_unitary())
        print('round trip distance', d)
        bad |= d > 1e-6
    except Exception as e:
        print(src.split('qreg')[1], '->', type(e).__name__, e)
        bad = 1
sys.exit(1 if bad else 0)
