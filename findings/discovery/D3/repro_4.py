"""Register-wide gate application (broadcast) is rejected or crashes."""
import sys
from bqskit.ir.lang.qasm2 import OPENQASM2Language
L = OPENQASM2Language()
hdr = 'OPENQASM 2.0;\ninclude "qelib1.inc";\nqreg a[2];\nqreg b[2];\n'
want = {
    'h a;': [('H', (0,)), ('H', (1,))],
    'cx a,b;': [('CNOTGate', (0, 2)), ('CNOTGate', (1, 3))],
    'cx a[1],b;': [('CNOTGate', (1, 2)), ('CNOTGate', (1, 3))],
    'U(0,0,pi) b;': [('U3Gate', (2,)), ('U3Gate', (3,))],
    'CX a,b;': [('CNOTGate', (0, 2)), ('CNOTGate', (1, 3))],
}
bad = 0
for stmt, expected in want.items():
    try:
        c = L.decode(hdr + stmt + '\n')
        got = [(str(op.gate), tuple(op.location)) for op in c]
        ok = sorted(got) == sorted(expected)
        print(f'{stmt:14s} -> {got}')
    except Exception as e:
        ok = False
        print(f'{stmt:14s} -> {type(e).__name__}: {e}')
    bad |= not ok
sys.exit(1 if bad else 0)
