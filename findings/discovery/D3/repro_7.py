"""ControlledGate with non-default control levels is written as the plain
cu1 / c3x, so the text means a different unitary."""
import sys
from bqskit.ir.circuit import Circuit
from bqskit.ir.gates import ControlledGate, U1Gate, XGate
from bqskit.ir.lang.qasm2 import OPENQASM2Language
L = OPENQASM2Language()
bad = 0
for g, p in [(ControlledGate(U1Gate(), 1, 2, 0), [0.7]),
             (ControlledGate(XGate(), 3, 2, [0, 1, 0]), [])]:
    c = Circuit(g.num_qudits)
    c.append_gate(g, list(range(g.num_qudits)), p)
    try:
        src = L.encode(c)
    except Exception as e:
        print('encoder refuses (fine):', e)
        continue
    d = L.decode(src).get_unitary().get_distance_from(c.get_unitary())
    print(src.splitlines()[-1], ' round-trip distance', d)
    bad |= d > 1e-6
sys.exit(1 if bad else 0)
