"""`if(c==n) qop;` is read as an unconditional qop (condition dropped)."""
import sys
from bqskit.ir.lang.qasm2 import OPENQASM2Language
from bqskit.ir.lang.language import LangException
src = ('OPENQASM 2.0;\ninclude "qelib1.inc";\nqreg q[2];\ncreg c[1];\n'
       'h q[0];\nmeasure q[0] -> c[0];\nif(c==1) x q[1];\n')
try:
    c = OPENQASM2Language().decode(src)
except LangException as e:
    print('rejected (fine):', e)
    sys.exit(0)
ops = [(str(op.gate), tuple(op.location)) for op in c]
print(ops)
# X on q[1] with no trace of the classical condition => silently mis-read
sys.exit(1 if ('X', (1,)) in ops else 0)
