"""Integer literals are evaluated with Python big-int arithmetic: a small,
valid expression such as 1/9^9^9 (= 0 in floating point, Qiskit reads 0.0)
makes decode() try to build an integer with ~3.7e8 digits: it runs for
minutes and allocates gigabytes; tan(100^10) raises a numpy TypeError."""
import signal
import sys
from bqskit.ir.lang.qasm2 import OPENQASM2Language
hdr = 'OPENQASM 2.0;\ninclude "qelib1.inc";\nqreg q[1];\n'
bad = 0


class Timeout(BaseException):
    pass


def handler(*args):
    raise Timeout()


signal.signal(signal.SIGALRM, handler)
for stmt in ('rx(1/9^9^9) q[0];', 'rx(tan(100^10)) q[0];'):
    signal.alarm(10)
    try:
        c = OPENQASM2Language().decode(hdr + stmt)
        print(stmt, '->', list(c.params))
    except Timeout:
        print(stmt, '-> still running after 10 s')
        bad = 1
    except Exception as e:
        print(stmt, '->', type(e).__name__, str(e)[:70])
        bad |= type(e).__name__ != 'LangException'
    finally:
        signal.alarm(0)
sys.exit(1 if bad else 0)
