"""The encoder writes calls to gates that qelib1.inc does not define and
emits no `gate` definition for them; no other OpenQASM 2 reader accepts it
(bqskit_to_qiskit fails)."""
import sys
from bqskit.ir.circuit import Circuit
from bqskit.ir.gates import (BGate, CCPGate, CSGate, CTGate, FSIMGate,
    IToffoliGate, PhasedXZGate, RYYGate, SqrtISwapGate, SycamoreGate, U1qGate)
try:
    from bqskit.ext import bqskit_to_qiskit
except ImportError:
    sys.exit(0)
bad = []
for g in (BGate(), CCPGate(), CSGate(), CTGate(), FSIMGate(), IToffoliGate(),
          PhasedXZGate(), RYYGate(), SqrtISwapGate(), SycamoreGate(), U1qGate()):
    c = Circuit(g.num_qudits)
    c.append_gate(g, list(range(g.num_qudits)), [0.3] * g.num_params)
    try:
        bqskit_to_qiskit(c)
    except Exception as e:
        bad.append(g.qasm_name)
        print(f'{g.qasm_name:6s}', str(e)[:75])
sys.exit(1 if bad else 0)
