"""`sxdg` and `c3sqrtx` are read into gates the encoder cannot write:
load-then-save fails."""
import sys
from bqskit.ir.lang.qasm2 import OPENQASM2Language
L = OPENQASM2Language()
bad = 0
for stmt in ('sxdg q[0];', 'c3sqrtx q[0],q[1],q[2],q[3];'):
    c = L.decode('OPENQASM 2.0;\ninclude "qelib1.inc";\nqreg q[4];\n' + stmt)
    try:
        L.encode(c)
    except Exception as e:
        print(stmt, '->', type(e).__name__, str(e)[:80])
        bad = 1
sys.exit(1 if bad else 0)
