"""`barrier a,b;` over two or more whole registers crashes the reader."""
import sys
from bqskit.ir.lang.qasm2 import OPENQASM2Language
src = ('OPENQASM 2.0;\ninclude "qelib1.inc";\n'
       'qreg a[2];\nqreg b[2];\nh a[0];\nbarrier a,b;\nh b[1];\n')
try:
    c = OPENQASM2Language().decode(src)
except Exception as e:
    print('decode failed:', type(e).__name__, e)
    sys.exit(1)
ops = [(str(op.gate), tuple(op.location)) for op in c]
print(ops)
sys.exit(0 if ('barrier', (0, 1, 2, 3)) in ops else 1)
