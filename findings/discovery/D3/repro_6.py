"""barrier inside a gate body: rejected when first, silently dropped later;
the encoder itself writes such barriers for a CircuitGate."""
import sys
from bqskit.ir.circuit import Circuit
from bqskit.ir.gates import BarrierPlaceholder, CircuitGate, HGate
from bqskit.ir.lang.qasm2 import OPENQASM2Language
L = OPENQASM2Language()
hdr = 'OPENQASM 2.0;\ninclude "qelib1.inc";\nqreg q[2];\n'
bad = 0
try:
    L.decode(hdr + 'gate g a,b { barrier a,b; h a; }\ng q[0],q[1];\n')
except Exception as e:
    print('(a) barrier first in body:', type(e).__name__, e)
    bad = 1
c = L.decode(hdr + 'gate g a,b { h a; barrier a,b; h b; }\ng q[0],q[1];\n')
inner = [str(op.gate) for op in c[0, 0].gate._circuit]
print('(b) body read as', inner)
bad |= 'barrier' not in inner
sub = Circuit(2)
sub.append_gate(BarrierPlaceholder(2), (0, 1))
sub.append_gate(HGate(), 0)
c = Circuit(2)
c.append_gate(CircuitGate(sub), (0, 1))
try:
    L.decode(L.encode(c))
except Exception as e:
    print('(c) own output not readable:', type(e).__name__, e)
    bad = 1
sys.exit(1 if bad else 0)
