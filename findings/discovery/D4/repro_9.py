"""is_linear() is True for a path plus a disjoint cycle (only degrees are checked)."""
import sys
from bqskit.ir.circuit import Circuit  # noqa
from bqskit.qis.graph import CouplingGraph

g = CouplingGraph([(0, 1), (2, 3), (3, 4), (2, 4)])   # path 0-1 and triangle 2-3-4
print('is_fully_connected', g.is_fully_connected(), 'is_linear', g.is_linear())
sys.exit(1 if g.is_linear() else 0)
