"""unitary_log_no_i on a real-dtype unitary uses the real Schur form: NaN / wrong H."""
import sys, warnings
from bqskit.ir.circuit import Circuit  # noqa
from bqskit.utils.math import unitary_log_no_i
import numpy as np, scipy.linalg as la
warnings.simplefilter('ignore')

bad = False
for U in (-np.eye(2), np.array([[0., -1.], [1., 0.]])):
    H = unitary_log_no_i(U)
    ok = np.all(np.isfinite(H)) and np.allclose(la.expm(1j * H), U)
    print(U.tolist(), '->', H.tolist(), 'ok' if ok else 'WRONG'); bad |= not ok
sys.exit(1 if bad else 0)
