"""CouplingGraph constructor rejects a remote edge / weight override given in the
opposite orientation to the one used in a plain edge list (edges are undirected)."""
import sys
from bqskit.ir.circuit import Circuit  # noqa
from bqskit.qis.graph import CouplingGraph

bad = False
for kw in ({'remote_edges': [(1, 0)]}, {'edge_weights_overrides': {(1, 0): 5.0}}):
    try:
        CouplingGraph([(0, 1), (1, 2)], **kw)
    except ValueError as ex:
        print(kw, '->', ex); bad = True
# the same call succeeds when `graph` is a CouplingGraph-free list in the other order
CouplingGraph([(1, 0), (1, 2)], remote_edges=[(1, 0)])
sys.exit(1 if bad else 0)
