"""UnitaryBuilder.calc_env_matrix hard-codes radix 2 and fails for any qudit builder."""
import sys
from bqskit.ir.circuit import Circuit  # noqa
from bqskit.qis.unitary.unitarybuilder import UnitaryBuilder
from bqskit.qis.unitary.unitarymatrix import UnitaryMatrix
import numpy as np

b = UnitaryBuilder(2, [3, 3])
U = UnitaryMatrix.random(2, [3, 3]); b.apply_right(U, (0, 1))
try:
    env = b.calc_env_matrix([0])
except ValueError as ex:
    print('calc_env_matrix raised:', ex); sys.exit(1)
exp = np.einsum('arbr->ab', U.numpy.reshape(3, 3, 3, 3))   # trace out qudit 1
sys.exit(0 if np.allclose(env, exp) else 1)
