"""MachineModel has no __eq__, so a pickled/copied model - and every PassData, whose
Mapping.__eq__ compares the 'model' value - is unequal to the original."""
import sys, pickle, copy
from bqskit.ir.circuit import Circuit
from bqskit.compiler.machine import MachineModel
from bqskit.compiler.passdata import PassData

m = MachineModel(2)
pd = PassData(Circuit(2))
res = [pickle.loads(pickle.dumps(m)) == m, copy.deepcopy(m) == m,
       pickle.loads(pickle.dumps(pd)) == pd, pd.copy() == pd]
print(res)
sys.exit(0 if all(res) else 1)
