"""The same gate built with an explicit default / keyword argument is a different,
unequal object: CachedClass keys on the literal call arguments and the constant
gates have no structural __eq__."""
import sys
from bqskit.ir.circuit import Circuit
from bqskit.ir.gates import HGate, CSUMGate
from bqskit.compiler.gateset import GateSet

c1 = Circuit(1); c1.append_gate(HGate(), 0)
c2 = Circuit(1); c2.append_gate(HGate(2), 0)
res = {
    'HGate() == HGate(2)': HGate() == HGate(2),
    'HGate(3) == HGate(radix=3)': HGate(3) == HGate(radix=3),
    'CSUMGate() == CSUMGate(3)': CSUMGate() == CSUMGate(3),
    'identical circuits equal': c1 == c2,
    'HGate(2) in GateSet([HGate()])': HGate(2) in GateSet([HGate()]),
}
for k, v in res.items():
    print(k, '->', v)
sys.exit(0 if all(res.values()) else 1)
