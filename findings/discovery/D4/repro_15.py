"""relabel_subgraph (deprecated) default relabeling is documented as least-to-greatest
but follows set iteration order."""
import sys, warnings
from bqskit.ir.circuit import Circuit  # noqa
from bqskit.qis.graph import CouplingGraph
warnings.simplefilter('ignore')

edges = [(19, 8), (4, 22), (19, 22)]          # sorted vertices 4,8,19,22 -> 0,1,2,3
g = CouplingGraph.relabel_subgraph(edges)
exp = {(1, 2), (0, 3), (2, 3)}
print(set(g), 'expected', exp)
sys.exit(0 if {(min(e), max(e)) for e in g} == exp else 1)
