"""all_pairs_shortest_path: D[i][i] is 2*weight (or inf for an isolated qudit), not 0."""
import sys
from bqskit.ir.circuit import Circuit  # noqa
from bqskit.qis.graph import CouplingGraph

D = CouplingGraph([(0, 1)], 3).all_pairs_shortest_path()
print(D)   # [[2.0, 1.0, inf], [1.0, 2.0, inf], [inf, inf, inf]]
sys.exit(0 if all(D[i][i] == 0 for i in range(3)) else 1)
