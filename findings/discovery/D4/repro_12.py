"""get_subgraph (and so get_individual_qpu_graphs) drops edge weights, defaults and
remote-edge marks of the parent graph."""
import sys
from bqskit.ir.circuit import Circuit  # noqa
from bqskit.qis.graph import CouplingGraph

g = CouplingGraph([(0, 1), (1, 2), (2, 3)], remote_edges=[(1, 2)],
                  default_weight=2.0, edge_weights_overrides={(0, 1): 7.0})
sg = g.get_subgraph((0, 1, 2))
print('parent D[0][2] =', g.all_pairs_shortest_path()[0][2],
      ' subgraph D[0][2] =', sg.all_pairs_shortest_path()[0][2],
      ' subgraph distributed:', sg.is_distributed())
qpu0 = g.get_individual_qpu_graphs()[0]           # qudits {0, 1}
print('QPU0 weight of edge 0-1:', qpu0._mat[0][1], '(parent: 7.0)')
bad = sg.all_pairs_shortest_path()[0][2] != 107.0 or not sg.is_distributed() or qpu0._mat[0][1] != 7.0
sys.exit(1 if bad else 0)
