"""UnitaryMatrix.is_special() is True for every unitary (it tests |det| == 1)."""
import sys
from bqskit.ir.circuit import Circuit  # noqa
from bqskit.qis.unitary.unitarymatrix import UnitaryMatrix
import numpy as np

Z = UnitaryMatrix([[1, 0], [0, -1]])
print('det(Z) =', np.linalg.det(Z.numpy), ' is_special ->', Z.is_special())
sys.exit(1 if Z.is_special() else 0)
