"""Element-wise product of two UnitaryMatrix objects is returned as a UnitaryMatrix
although it is not unitary; the same product of two StateVectors raises."""
import sys
from bqskit.ir.circuit import Circuit  # noqa
from bqskit.qis.unitary.unitarymatrix import UnitaryMatrix
from bqskit.qis.state.state import StateVector
import numpy as np

H = UnitaryMatrix(np.array([[1, 1], [1, -1]]) / np.sqrt(2))
P = H * H
P_arr = np.asarray(P)
print(type(P).__name__, P_arr.tolist(), "is_unitary:", UnitaryMatrix.is_unitary(P_arr))
bad = isinstance(P, UnitaryMatrix) and not UnitaryMatrix.is_unitary(P_arr)
s = StateVector(np.array([1, 1]) / np.sqrt(2))
try:
    s * s
except ValueError as ex:
    print('StateVector * StateVector raised:', ex); bad = True
sys.exit(1 if bad else 0)
