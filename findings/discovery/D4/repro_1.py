"""CouplingGraph.get_subgraphs_of_size returns the same qudit set more than once
(in different orders) and returns unsorted locations."""
import sys
from bqskit.ir.circuit import Circuit  # noqa (avoids circular import)
from bqskit.qis.graph import CouplingGraph

g = CouplingGraph([(0, 8)])          # 9 qudits, a single edge 0-8
locs = g.get_subgraphs_of_size(2)
print('size-2 connected subgraphs:', locs)            # [(0, 8), (8, 0)]
k10 = CouplingGraph.all_to_all(10).get_subgraphs_of_size(2)
print('K10 pairs:', len(k10), 'distinct sets:', len({frozenset(l) for l in k10}))  # 47 vs 45
bad = len(locs) != len({frozenset(l) for l in locs}) or len(k10) != 45
sys.exit(1 if bad else 0)
