"""canonical_unitary is not invariant under global phase when U[0,0] == 0: the
'largest first-row element' is computed with a vector norm (a scalar), so index 0
is always used."""
import sys
from bqskit.ir.circuit import Circuit  # noqa
from bqskit.utils.math import canonical_unitary
import numpy as np

X = np.array([[0, 1], [1, 0]], dtype=np.complex128)
a, b = canonical_unitary(X), canonical_unitary(1j * X)
print(a, b, sep='\n')
sys.exit(0 if np.allclose(a, b) else 1)
