"""CouplingGraph.get_qudit_to_qpu_map is not indexed by qudit; get_qpu_connectivity
(which indexes it by qudit) therefore reports wrong QPU links."""
import sys
from bqskit.ir.circuit import Circuit  # noqa
from bqskit.qis.graph import CouplingGraph

# QPU A = {0, 2}, QPU B = {1, 3}; remote links 0-1 and 2-3
g = CouplingGraph([(0, 2), (1, 3), (0, 1), (2, 3)], remote_edges=[(0, 1), (2, 3)])
q2q = g.get_qpu_to_qudit_map()
m = g.get_qudit_to_qpu_map()
conn = g.get_qpu_connectivity()
print('qpu->qudits', q2q, ' qudit->qpu', m, ' qpu adjacency', conn)
exp = [next(i for i, qpu in enumerate(q2q) if q in qpu) for q in range(4)]
bad = list(m) != exp or conn != [{1}, {0}]
print('expected qudit->qpu', exp, 'expected adjacency [{1}, {0}]')
sys.exit(1 if bad else 0)
