"""Empty locations: get_subgraph([]) and is_location(CircuitLocation([]), n) raise
ValueError from min()/max() of an empty sequence."""
import sys
from bqskit.ir.circuit import Circuit  # noqa
from bqskit.qis.graph import CouplingGraph
from bqskit.ir.location import CircuitLocation

bad = False
try:
    print(CircuitLocation.is_location(CircuitLocation([]), 3))
except ValueError as ex:
    print('is_location raised', ex); bad = True
try:
    sg = CouplingGraph.linear(3).get_subgraph([])
    print(sg.num_qudits, list(sg))
except ValueError as ex:
    print('get_subgraph([]) raised', ex); bad = True
sys.exit(1 if bad else 0)
