"""eq/hash contract: CircuitLocation([3]) == 3 but the hashes differ."""
import sys
from bqskit.ir.circuit import Circuit  # noqa
from bqskit.ir.location import CircuitLocation

loc = CircuitLocation([3])
print(loc == 3, hash(loc) == hash(3), loc in {3})
sys.exit(1 if (loc == 3 and hash(loc) != hash(3)) else 0)
