"""batch_unfold() of two CircuitGates that sit in the same cycle fails with
IndexError and leaves the circuit half unfolded."""
import sys
from bqskit.ir import Circuit
from bqskit.ir.gates import HGate, XGate, TGate, ZGate

a = Circuit(1); a.append_gate(XGate(), 0); a.append_gate(TGate(), 0)
b = Circuit(1); b.append_gate(HGate(), 0); b.append_gate(ZGate(), 0)
c = Circuit(2)
c.append_circuit(a, [0], as_circuit_gate=True)     # (0, 0)
c.append_circuit(b, [1], as_circuit_gate=True)     # (0, 1)
try:
    c.batch_unfold([(0, 0), (0, 1)])
except IndexError as e:
    print('IndexError:', e)
    print('circuit now:', list(c))
    sys.exit(1)
ok = [str(o.gate) for o in c.operations(qudits_or_region=[0])] == ['X', 'T']
sys.exit(0 if ok and c.num_operations == 4 else 1)
