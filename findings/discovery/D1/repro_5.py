"""Operations are stored by reference and qudit edits mutate them in place.
An Operation object that was appended twice (as in the docstring example of
Circuit.count), or that is shared with another circuit, is renumbered twice /
behind the other circuit's back."""
import sys
from bqskit.ir import Circuit, Operation
from bqskit.ir.gates import HGate, CNOTGate

bad = False
c = Circuit(3)
op = Operation(HGate(), [1])
c.append(op); c.append(op)           # documented usage: count(op) == 2
c.insert_qudit(0)                    # H's should now sit on qudit 2
print('locations:', [o.location for o in c], 'grid column 2:',
      [cyc[2] is not None for cyc in c._circuit])
bad |= any(tuple(o.location) != (2,) for o in c)

c1 = Circuit(2)
c1.append_gate(CNOTGate(), [0, 1])
c2 = Circuit(2)
for o in c1:                          # common idiom to copy operations
    c2.append(o)
c2.renumber_qudits([1, 0])
print('c1 after renumbering c2:', list(c1))
bad |= tuple(c1[0, 0].location) != (0, 1)
d = Circuit(3)
op = Operation(HGate(), [1])
d.append(op); d.append(op)
try:
    d.pop_qudit(0)                   # both H's should move to qudit 0
    print(list(d))
    bad |= any(tuple(o.location) != (0,) for o in d)
except Exception as e:
    print('pop_qudit raised', type(e).__name__, e); bad = True
sys.exit(1 if bad else 0)
