"""fold() returns a point that does not hold the new CircuitGate when the
folded region reaches the end of the circuit."""
import sys
from bqskit.ir import Circuit
from bqskit.ir.gates import HGate, XGate, TGate, CircuitGate

c = Circuit(2)
c.append_gate(XGate(), 0)          # (0, 0)
c.append_gate(HGate(), 1)          # (0, 1)
c.append_gate(TGate(), 0)          # (1, 0)
c.pop((0, 0))                      # now: cycle 0 = H(1), cycle 1 = T(0)
assert c.num_cycles == 2 and c[1, 0].gate == TGate()
pt = c.fold({0: (1, 1)})
print('fold returned', pt, 'num_cycles', c.num_cycles)
try:
    ok = isinstance(c[pt].gate, CircuitGate)
    print('operation at returned point:', c[pt])
except IndexError as e:
    print('IndexError at returned point:', e)
    ok = False
sys.exit(0 if ok else 1)
