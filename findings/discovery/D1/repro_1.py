"""insert_circuit / replace_with_circuit / unfold put the inserted operations
in the wrong order when the target cycle is at or past the end of the circuit
(all arguments in range and non-negative)."""
import sys
from bqskit.ir import Circuit
from bqskit.ir.gates import HGate, XGate, TGate

sub = Circuit(2)                       # block: X then T on its qudit 1
sub.append_gate(XGate(), 1)
sub.append_gate(TGate(), 1)
c = Circuit(2)
c.append_gate(HGate(), 0)                              # cycle 0
c.append_circuit(sub, [0, 1], as_circuit_gate=True)    # cycle 1 (last cycle)
before = c.get_unitary()
c.unfold((1, 0))              # == c.replace_with_circuit((1, 0), sub)
order = [str(op.gate) for op in c.operations(qudits_or_region=[1])]
dist = before.get_distance_from(c.get_unitary())
print('qudit 1 after unfold:', order, 'expected [X, T]; unitary distance', dist)
bad = order != [str(XGate()), str(TGate())] or dist > 1e-6

# Same root cause without any block: cycle_index == num_cycles means "append"
s1 = Circuit(1)
for g in (HGate(), XGate(), TGate()):
    s1.append_gate(g, 0)
e = Circuit(1)
e.insert_circuit(1, s1, [0])
order2 = [str(op.gate) for op in e]
print('insert_circuit(1, [H, X, T]) into an empty circuit gives', order2)
bad = bad or order2 != [str(HGate()), str(XGate()), str(TGate())]
sys.exit(1 if bad else 0)
