"""Negative (Python-style) cycle indices are accepted by replace,
batch_replace, replace_with_circuit, unfold and insert_circuit, but are not
normalised before the circuit is edited: KeyError or misplaced operations."""
import sys
from bqskit.ir import Circuit, Operation
from bqskit.ir.gates import CNOTGate, HGate, XGate, TGate

bad = False
c = Circuit(2)
c.append_gate(CNOTGate(), [0, 1])
assert c[-1, 0].gate == CNOTGate()   # negative indices are supported
try:
    c.replace((-1, 0), Operation(CNOTGate(), [1, 0]))   # same qudits, flipped
except KeyError as e:
    print('replace((-1, 0), ...) raised KeyError', e); bad = True

c = Circuit(2)
c.append_gate(HGate(), 0); c.append_gate(XGate(), 0)     # H then X on qudit 0
c.replace((-1, 0), Operation(CNOTGate(), [0, 1]))        # replace X (last)
order = [str(o.gate) for o in c]
print('H, X with X replaced by CNOT gives', order)
bad |= order != ['H', 'CNOTGate']

s = Circuit(1); s.append_gate(XGate(), 0); s.append_gate(TGate(), 0)
c = Circuit(1)
c.append_gate(HGate(), 0); c.append_gate(HGate(), 0)
c.insert_circuit(-1, s, [0])          # before the last H: H X T H
order = [str(o.gate) for o in c]
print('insert_circuit(-1, [X, T]) into [H, H] gives', order)
bad |= order != ['H', 'X', 'T', 'H']
sys.exit(1 if bad else 0)
