"""straighten() of a valid region leaves an idle (empty) cycle, violating
invariant 1 of the Circuit class docstring."""
import sys
from bqskit.ir import Circuit
from bqskit.ir.gates import HGate, XGate, TGate

c = Circuit(2)
c.append_gate(XGate(), 1)          # (0, 1)
c.append_gate(HGate(), 0)          # (0, 0)
c.append_gate(TGate(), 0)          # (1, 0)
c.append_gate(XGate(), 0)          # (2, 0)
region = {1: (0, 0), 0: (2, 2)}    # X on qudit 1 and X on qudit 0
assert c.is_valid_region(region)
u = c.get_unitary()
print(c.straighten(region))
for i in range(c.num_cycles):
    print(i, c._circuit[i])
idle = [i for i in range(c.num_cycles) if c._is_cycle_idle(i)]
print('idle cycles:', idle, 'num_cycles', c.num_cycles, 'depth', c.depth)
assert u.get_distance_from(c.get_unitary()) < 1e-6
sys.exit(1 if idle else 0)
