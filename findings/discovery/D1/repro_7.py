"""`circuit *= 0` leaves the circuit unchanged while `circuit * 0` is empty."""
import sys
from bqskit.ir import Circuit
from bqskit.ir.gates import HGate
c = Circuit(1)
c.append_gate(HGate(), 0)
print('(c * 0).num_operations =', (c * 0).num_operations)
c *= 0
print('after c *= 0: num_operations =', c.num_operations)
sys.exit(1 if c.num_operations != 0 else 0)
