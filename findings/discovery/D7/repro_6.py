"""FrozenParameterGate.optimize returns the inner gate's unconstrained optimum with the frozen
entries dropped; that is not the optimum once the frozen values are substituted back."""
import sys
import numpy as np
from bqskit.ir.gates import FrozenParameterGate, PauliZGate

rng = np.random.default_rng(0)
gate = FrozenParameterGate(PauliZGate(2), {1: 0.3})   # 4 coupled angles, one frozen


def value(env, params):
    return float(np.real(np.trace(env @ gate.get_unitary(params).numpy)))


worst = 0.0
for _ in range(20):
    env = rng.normal(size=(4, 4)) + 1j * rng.normal(size=(4, 4))
    got = value(env, gate.optimize(env))
    best = max(value(env, rng.uniform(-np.pi, np.pi, gate.num_params)) for _ in range(2000))
    worst = max(worst, best - got)
print('largest amount by which a random parameter vector beats optimize():', worst)
sys.exit(1 if worst > 1e-6 else 0)
