"""QFactor.is_capable rejects circuits containing parameter-free gates (CNOT, X, ConstantUnitaryGate...)
although QFactor instantiates them without problems."""
import sys
import numpy as np
from bqskit.ir.circuit import Circuit
from bqskit.ir.gates import CNOTGate, VariableUnitaryGate
from bqskit.ir.opt.instantiaters import QFactor

c = Circuit(2)
c.append_gate(VariableUnitaryGate(1), 0); c.append_gate(VariableUnitaryGate(1), 1)
c.append_gate(CNOTGate(), (0, 1))
c.append_gate(VariableUnitaryGate(1), 0); c.append_gate(VariableUnitaryGate(1), 1)
target = c.get_unitary()            # reachable: the circuit's own unitary
x = QFactor().instantiate(c, target, np.array(c.params))   # the engine itself is fine
print('engine distance:', c.get_unitary(x).get_distance_from(target))
print('QFactor.is_capable:', QFactor.is_capable(c))
try:
    c.instantiate(target, method='qfactor')
except ValueError as e:
    print('ValueError:', str(e).splitlines()[-1])
    sys.exit(1)
sys.exit(0)
