"""HilbertSchmidtResiduals of a StateSystem with fewer states than the dimension is not zero at an
exact solution (sum of squares = dim - #states), so the default Ceres instantiation stops early."""
import sys
import numpy as np
from bqskit.ir.circuit import Circuit
from bqskit.ir.gates import U3Gate, CNOTGate
from bqskit.ir.opt.cost.functions import HilbertSchmidtCostGenerator, HilbertSchmidtResidualsGenerator
from bqskit.qis import StateVector, StateSystem

c = Circuit(2)
for q in (0, 1): c.append_gate(U3Gate(), q)
c.append_gate(CNOTGate(), (0, 1))
for q in (0, 1): c.append_gate(U3Gate(), q)
rng = np.random.default_rng(0)
p_star = rng.uniform(-3, 3, c.num_params)
U = c.get_unitary(p_star).numpy
bad = False
for m in (1, 2, 3, 4):
    E = np.eye(4)
    system = StateSystem({StateVector(E[:, j]): StateVector(U[:, j]) for j in range(m)})
    cost = HilbertSchmidtCostGenerator().gen_cost(c, system)(p_star)
    res = np.array(HilbertSchmidtResidualsGenerator().gen_cost(c, system).get_residuals(p_star))
    c.instantiate(system, multistarts=4, seed=1)      # default: Ceres on the residuals
    reached = HilbertSchmidtCostGenerator().gen_cost(c, system)(np.array(c.params))
    print(f'{m} states: cost at solution {cost:.1e}, |residuals|^2 at solution {res @ res:.3f}, instantiate reached cost {reached:.1e}')
    bad |= res @ res > 1e-12
sys.exit(1 if bad else 0)
