"""QFactor cannot fit a single RY gate to RY(theta): the native RY update (bqskitrs) is wrong;
the Python RYGate.optimize (used e.g. through TaggedGate) is right."""
import sys
import numpy as np
from bqskit.ir.circuit import Circuit
from bqskit.ir.gates import RYGate, TaggedGate

bad = False
for gate in [TaggedGate(RYGate(), 'python-path'), RYGate()]:
    c = Circuit(1)
    c.append_gate(gate, 0)
    target = RYGate().get_unitary([1.0])
    c.instantiate(target, method='qfactor', multistarts=4, seed=0)
    d = c.get_unitary().get_distance_from(target)
    print(f'{str(gate):24s} params={np.round(c.params, 6)} distance={d:.3e}')
    bad |= d > 1e-6
env = RYGate().get_unitary([1.0]).numpy.conj().T
print('RYGate().optimize(env) =', RYGate().optimize(env), '(correct: 1.0)')
sys.exit(1 if bad else 0)
