"""ForEachBlockPass 'less-than-respecting*' replace filters ignore data.placement.
Run: unshare -rn bash -c 'ip link set lo up; PYTHONPATH=<bqskit> python repro_1.py'"""
import sys
from bqskit.compiler import Compiler, MachineModel
from bqskit.compiler.basepass import BasePass
from bqskit.ir.circuit import Circuit
from bqskit.ir.gates import CNOTGate, CircuitGate
from bqskit.passes import ForEachBlockPass, SetModelPass, UpdateDataPass
from bqskit.qis.graph import CouplingGraph


class Grow(BasePass):  # equivalent but strictly worse block: CNOT -> CNOT CNOT CNOT
    async def run(self, circuit, data):
        assert data.model.coupling_graph == CouplingGraph([(0, 1)])  # body is told (0,1) is coupled
        circuit.append_gate(CNOTGate(), (0, 1))
        circuit.append_gate(CNOTGate(), (0, 1))


# star-shaped device, centre = physical qudit 2; circuit qudits 0,1,2 sit on physical 1,2,3
model = MachineModel(4, CouplingGraph([(0, 2), (1, 2), (2, 3)]))
block = Circuit(2)
block.append_gate(CNOTGate(), (0, 1))
circuit = Circuit(3)
circuit.append_gate(CircuitGate(block), (0, 1))   # physical (1, 2): a device edge

workflow = [
    SetModelPass(model), UpdateDataPass('placement', [1, 2, 3]),
    ForEachBlockPass(Grow(), replace_filter='less-than-respecting'),
]
with Compiler(num_workers=2) as compiler:
    out, data = compiler.compile(circuit, workflow, request_data=True)
replaced = data[ForEachBlockPass.key][-1][0]['replaced']
n = out[0, 0].gate._circuit.num_operations
print('replaced =', replaced, '; CNOTs in block =', n)
# Old block respects the model under the placement and the new one has MORE gates,
# so 'less-than-respecting' must keep the original block.
sys.exit(1 if replaced or n != 1 else 0)
