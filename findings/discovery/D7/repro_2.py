"""instantiate() with a target of the wrong dimension: documented ValueError,
actual: process abort (minimization) / PanicException (qfactor) / silent garbage (state)."""
import subprocess, sys
CHILD = r'''
import sys
from bqskit.ir.circuit import Circuit
from bqskit.ir.gates import U3Gate
from bqskit.qis import UnitaryMatrix, StateVector
c = Circuit(2)
c.append_gate(U3Gate(), 0, [0.1, 0.2, 0.3]); c.append_gate(U3Gate(), 1, [0.4, 0.5, 0.6])
target = UnitaryMatrix.random(3) if sys.argv[1] == 'u' else StateVector.random(1)
before = list(c.params)
try:
    c.instantiate(target, method=sys.argv[2], seed=0)
    print('NOERROR changed=%s' % (list(c.params) != before))
except ValueError as e:
    print('ValueError')
except BaseException as e:
    print(type(e).__name__)
'''
bad = False
for kind, method in [('u', 'minimization'), ('u', 'qfactor'), ('s', 'minimization')]:
    p = subprocess.run([sys.executable, '-c', CHILD, kind, method], capture_output=True, text=True)
    out = p.stdout.strip() or '(no output)'
    print(f'target={"8x8 unitary" if kind == "u" else "2-dim state"} on a 2-qubit circuit, {method}: rc={p.returncode} {out}')
    if p.returncode != 0 or out != 'ValueError':
        bad = True
sys.exit(1 if bad else 0)
