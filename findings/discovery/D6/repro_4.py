"""PAMVerificationSequence (CalculatePAMErrorsPass) fails on any qutrit block:
it builds the pre/post permutations with the qubit-only PermutationGate."""
import asyncio, sys
from bqskit.ir.circuit import Circuit
from bqskit.ir.gates import CSUMGate, TaggedGate
from bqskit.compiler.passdata import PassData
from bqskit.passes.mapping.verify import CalculatePAMErrorsPass

# A panel as produced by TagPAMBlockDataPass after PAMRoutingPass: one block that
# PAM left unpermuted (identity pre/post perms), tagged with its original unitary.
gate = CSUMGate(3)
tag = {'pre_perm': (0, 1), 'post_perm': (0, 1), 'original_utry': gate.get_unitary()}
panel = Circuit(2, [3, 3])
panel.append_gate(TaggedGate(gate, tag), [0, 1])
data = PassData(panel)
try:
    asyncio.run(CalculatePAMErrorsPass().run(panel, data))
except ValueError as e:
    print('CalculatePAMErrorsPass raised ValueError:', e)
    sys.exit(1)
print('error estimate:', data.error)
sys.exit(0 if data.error < 1e-6 else 1)
