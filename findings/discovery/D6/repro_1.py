"""GeneralizedSabre _calc_extended_set enumerates every DAG path (exponential)
when extended_set_size exceeds the number of remaining operations."""
import asyncio, sys
from bqskit.ir.circuit import Circuit
from bqskit.ir.gates import CNOTGate
from bqskit.compiler.passdata import PassData
from bqskit.compiler.machine import MachineModel
from bqskit.qis.graph import CouplingGraph
from bqskit.passes import SetModelPass, GeneralizedSabreRoutingPass

N = int(sys.argv[1]) if len(sys.argv) > 1 else 60
circ = Circuit(3)
circ.append_gate(CNOTGate(), [0, 2])           # not executable on a line: one swap needed
for i in range(N):                              # ladder: every op has two successors
    circ.append_gate(CNOTGate(), [0, 1] if i % 2 == 0 else [1, 2])

calls = [0]
orig_next = Circuit.next
def counting_next(self, point):
    calls[0] += 1
    if calls[0] > 200 * circ.num_operations:    # linear work would be <= num_operations
        print(f'_calc_extended_set made > {calls[0] - 1} Circuit.next calls '
              f'for a {circ.num_operations}-op circuit: exponential path enumeration')
        sys.exit(1)
    return orig_next(self, point)
Circuit.next = counting_next

data = PassData(circ)
model = MachineModel(3, CouplingGraph([(0, 1), (1, 2)]))
asyncio.run(SetModelPass(model).run(circ, data))
# extended_set_size is documented as any nonnegative int; 100 > number of ops
asyncio.run(GeneralizedSabreRoutingPass(extended_set_size=100).run(circ, data))
print('ok, Circuit.next calls:', calls[0])
sys.exit(0)
