"""StaticPlacementPass reports success with a DISCONNECTED placement when the
circuit's interaction graph is disconnected (e.g. an idle qudit); the mapping
passes that follow then refuse the circuit."""
import asyncio, sys
from bqskit.ir.circuit import Circuit
from bqskit.ir.gates import CNOTGate, HGate
from bqskit.compiler.passdata import PassData
from bqskit.compiler.machine import MachineModel
from bqskit.qis.graph import CouplingGraph
from bqskit.passes import (SetModelPass, StaticPlacementPass,
                           GeneralizedSabreLayoutPass, GeneralizedSabreRoutingPass)

circ = Circuit(3)
circ.append_gate(CNOTGate(), [0, 1])
circ.append_gate(HGate(), [2])                      # qudit 2 interacts with nobody
cg = CouplingGraph([(0, 2), (2, 3), (1, 3)])        # connected path 0-2-3-1
model = MachineModel(4, cg)
data = PassData(circ)
asyncio.run(SetModelPass(model).run(circ, data))
asyncio.run(StaticPlacementPass().run(circ, data))
placement = data.placement
connected = cg.get_subgraph(placement).is_fully_connected()
print('placement', placement, 'connected:', connected)
try:
    asyncio.run(GeneralizedSabreLayoutPass().run(circ, data))
    asyncio.run(GeneralizedSabreRoutingPass().run(circ, data))
    raised = None
except RuntimeError as e:
    raised = e
print('layout/routing raised:', raised)
sys.exit(1 if (not connected or raised is not None) else 0)
