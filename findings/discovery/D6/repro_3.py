"""PAM routing/layout cannot insert a swap into a qutrit circuit: the overridden
forward_pass hard-codes the qubit SwapGate() (the SABRE parent uses SwapGate(radix))."""
import asyncio, sys
from bqskit.ir.circuit import Circuit
from bqskit.ir.gates import CSUMGate
from bqskit.compiler.passdata import PassData
from bqskit.compiler.machine import MachineModel
from bqskit.qis.graph import CouplingGraph
from bqskit.passes import SetModelPass, PAMRoutingPass, ForEachBlockPass
from bqskit.passes import GeneralizedSabreRoutingPass

def build():
    circ = Circuit(3, [3, 3, 3])
    circ.append_gate(CSUMGate(3), [0, 2])        # needs one swap on the line 0-1-2
    data = PassData(circ)
    model = MachineModel(3, CouplingGraph([(0, 1), (1, 2)]), {CSUMGate(3)}, [3, 3, 3])
    asyncio.run(SetModelPass(model).run(circ, data))
    return circ, data

circ, data = build()                             # the SABRE router handles it
asyncio.run(GeneralizedSabreRoutingPass().run(circ, data))
print('sabre ok:', [(op.gate.name, op.location) for op in circ])

circ, data = build()
# what EmbedAllPermutationsPass would record for the single 2-qutrit block:
block = Circuit(2, [3, 3]); block.append_gate(CSUMGate(3), [0, 1])
ident = ((0, 1), (0, 1))
data[ForEachBlockPass.key] = [[{
    'point': (0, 0),
    'permutation_data': {CouplingGraph([(0, 1)]): {ident: block}},
}]]
try:
    asyncio.run(PAMRoutingPass().run(circ, data))
except ValueError as e:
    print('PAMRoutingPass raised ValueError:', e)
    sys.exit(1)
print('pam ok:', [(op.gate.name, op.location) for op in circ], data.final_mapping)
sys.exit(0)
