import queue, threading, logging, sys
from bqskit.runtime.worker import Worker, WorkerMailbox
from bqskit.runtime.task import RuntimeTask
from bqskit.runtime.address import RuntimeAddress
from bqskit.runtime.result import RuntimeResult
from bqskit.runtime.future import RuntimeFuture
from bqskit.runtime.message import RuntimeMessage

class FakeConn:
    def __init__(self): self.inq = queue.Queue(); self.sent = []
    def recv(self): return self.inq.get()
    def send(self, m): self.sent.append(m)

old_factory = logging.getLogRecordFactory()
def mk():
    c = FakeConn(); w = Worker(7, c); return w, c

def noop(): return 1

# ---- F14: descendant submitted after ancestor cancel leaves residue in _tasks
w, c = mk()
root = RuntimeAddress(-1, 0, 0)
w._handle_cancel(root)
child = RuntimeTask((noop, (), {}), RuntimeAddress(3, 5, 0), 0, (root,))
w.read_receipt_mutex.acquire(); w._add_task(child); w.read_receipt_mutex.release()
# run the selection step in a thread because it blocks when nothing is runnable
t = threading.Thread(target=lambda: w._get_next_ready_task(), daemon=True); t.start(); t.join(1.0)
print("F14 residue in _tasks after discard:", list(w._tasks.keys()), "ready queue empty:", w._ready_task_ids.empty())

# ---- F13: result lands between registering the await and testing readiness
logging.setLogRecordFactory(old_factory)
w, c = mk()
parent = RuntimeTask((noop, (), {}), RuntimeAddress(7, 99, 0), 0, ())
w._tasks[parent.return_address] = parent
w._mailboxes[1] = WorkerMailbox.new_mailbox()
parent.owned_mailboxes.append(1)
res = RuntimeResult(RuntimeAddress(7, 1, 0), 'value', 7)
fired = {'n': 0}
def tracer(frame, event, arg):
    if frame.f_code.co_name == '_process_await' and event == 'line':
        src_line = frame.f_lineno
        # switch to the "incoming thread" right before the `if box.ready:` line
        import linecache
        if linecache.getline(frame.f_code.co_filename, src_line).strip().startswith('if box.ready') and not fired['n']:
            fired['n'] = 1
            w._handle_result(res)   # what recv_incoming would do at this instant
    return tracer
sys.settrace(tracer)
w._process_await(parent, RuntimeFuture(1))
sys.settrace(None)
n = 0
while not w._ready_task_ids.empty():
    w._ready_task_ids.get_nowait(); n += 1
print("F13 times parent was enqueued for one await:", n)
logging.setLogRecordFactory(old_factory)
