#!/usr/bin/env python3
"""F35 (fixed by 5376e02): QuickPartitioner made a bin and a barrier wait for
each other and raised on a valid circuit.   exit 1 = the defect manifests."""
import asyncio
import sys

from bqskit.ir import Circuit
from bqskit.ir.gates import BarrierPlaceholder
from bqskit.ir.gates import CCXGate
from bqskit.ir.gates import CNOTGate
from bqskit.passes import QuickPartitioner
from bqskit.compiler.passdata import PassData

c = Circuit(8)
c.append_gate(CNOTGate(), (4, 0))
c.append_gate(CCXGate(), (0, 1, 3))
c.append_gate(CNOTGate(), (5, 0))
c.append_gate(BarrierPlaceholder(3), (0, 5, 7))
c.append_gate(CNOTGate(), (4, 7))
before = [(str(op.gate), tuple(op.location)) for op in c]
try:
    asyncio.run(QuickPartitioner(3).run(c, PassData(c)))
except RuntimeError as e:
    print('FAIL:', str(e).splitlines()[0])
    sys.exit(1)
c.unfold_all()
after = [(str(op.gate), tuple(op.location)) for op in c]


def per_qudit(ops):
    return [[o for o in ops if q in o[1]] for q in range(8)]


if per_qudit(before) != per_qudit(after):
    print('FAIL: per-qudit operation order changed')
    sys.exit(1)
print('PASS')
