"""Known findings C17 REG-gates: library gates whose own QASM cannot be
read back (st, diag, mpry, mprz).
Run: cd /repo && /venv/bin/python /verif/findings/C17_unreadable_gates.py
"""
import sys

from bqskit.ir.circuit import Circuit
from bqskit.ir.gates import DiagonalGate
from bqskit.ir.gates import MPRYGate
from bqskit.ir.gates import MPRZGate
from bqskit.ir.gates import SqrtTGate
from bqskit.ir.lang.qasm2 import OPENQASM2Language

bad = []
for g in (SqrtTGate(), DiagonalGate(2), MPRYGate(2), MPRZGate(2)):
    c = Circuit(g.num_qudits)
    c.append_gate(g, list(range(g.num_qudits)), [0.1] * g.num_params)
    q = OPENQASM2Language().encode(c)
    try:
        OPENQASM2Language().decode(q)
        print(f'{type(g).__name__}: round trip ok')
    except Exception as e:   # noqa
        print(f'{type(g).__name__}: `{q.strip().splitlines()[-1]}` -> '
              f'{type(e).__name__}: {str(e)[:60]}')
        bad.append(type(g).__name__)
if bad:
    print('FAIL:', bad)
    sys.exit(1)
print('PASS')
