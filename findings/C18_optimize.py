#!/usr/bin/env python3
"""F37 (fixed by 4f5c76d): MPRZGate.optimize was optimal only for environments
with equal magnitudes; F38 (fixed by 9abc9c1): PauliZGate.optimize raised on a
non-diagonal environment.   exit 1 = a defect manifests."""
import sys

import numpy as np

from bqskit.ir.gates import MPRZGate
from bqskit.ir.gates import PauliZGate

rng = np.random.default_rng(7)
bad = []
for g in (MPRZGate(3), MPRZGate(2, 0), PauliZGate(2)):
    env = rng.normal(size=(g.dim, g.dim)) + 1j * rng.normal(
        size=(g.dim, g.dim))
    try:
        p = np.array(g.optimize(env), dtype=float)
    except Exception as e:
        bad.append(f'{g.name}.optimize raised {type(e).__name__}: {e}')
        continue

    def obj(x):
        return float(np.real(np.trace(env @ g.get_unitary(x).numpy)))
    best = obj(p)
    # coordinate search around the returned point is enough to show that
    # it is not a maximiser
    for i in range(g.num_params):
        for t in np.linspace(-np.pi * 2, np.pi * 2, 721):
            q = p.copy()
            q[i] = t
            best = max(best, obj(q))
    if best - obj(p) > 1e-6:
        bad.append(
            f'{g.name}.optimize: Re Tr = {obj(p):.3f}, a single-coordinate '
            f'change reaches {best:.3f}')
if bad:
    print('FAIL:', '; '.join(bad))
    sys.exit(1)
print('PASS')
