"""F22: Circuit.surround ignores its bounding_region argument."""
from bqskit.ir.circuit import Circuit
from bqskit.ir.gates import CNOTGate
c = Circuit(2)
for _ in range(4):
    c.append_gate(CNOTGate(), (0, 1))
r = c.surround((1, 0), 2, bounding_region={0: (1, 2), 1: (1, 2)})
print('bounded to cycles 1..2, got:', r)
print('exceeds bound:', any(iv.lower < 1 or iv.upper > 2 for iv in r.values()))
