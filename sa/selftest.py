"""Both-ways self-test of the rules (DESIGN 2.9).

A *mutant* is an in-memory overlay of one repository file in which one
confirmed rule instance is broken (the edit still compiles); the property's
check must report a violation of the expected rule.  A *neutral* edit keeps
behaviour (rename of a local, statement split, reordering of independent
statements); the check must stay silent.  Nothing is written to /repo.

Results are reported, never a verdict about the property: a surviving
mutant is a warning about the checker.
"""
from __future__ import annotations

import importlib
import os
import sys
import time
from concurrent.futures import ProcessPoolExecutor
from typing import Any

from .engine import Ctx
from .report import Report
from .report import load_known
from .source import AnalysisError

VERIF = os.path.dirname(os.path.dirname(os.path.abspath(__file__)))


def catalogue() -> list[dict[str, Any]]:
    sys.path.insert(0, VERIF)
    try:
        mod = importlib.import_module('selftest.mutants')
        importlib.reload(mod)
    finally:
        sys.path.pop(0)
    return list(mod.MUTANTS) + seeded()


def seeded() -> list[dict[str, Any]]:
    """The independently seeded changes kept under /verif/seeded (DESIGN
    8.5), replayed as overlays like any other mutant."""
    import json
    out = []
    base = os.path.join(VERIF, 'seeded')
    for sid in sorted(os.listdir(base)) if os.path.isdir(base) else []:
        meta = os.path.join(base, sid, 'meta.json')
        patch = os.path.join(base, sid, 'patch.diff')
        if os.path.exists(meta) and os.path.exists(patch):
            with open(meta) as f:
                prop = json.load(f)['property']
            out.append({'id': f'seeded/{sid}', 'property': prop,
                        'patch': patch, 'expect': '', 'kind': 'mutant'})
    return out


def apply_unified(root: str, diff: str) -> dict[str, str] | None:
    """Apply a unified diff in memory; returns {relative path: new text} or
    None if a hunk does not fit (the tree moved away from the seed)."""
    files: dict[str, list[tuple[int, list[str]]]] = {}
    cur: list[tuple[int, list[str]]] | None = None
    for line in diff.splitlines():
        if line.startswith('+++ '):
            name = line[4:].strip()
            name = name[2:] if name.startswith('b/') else name
            cur = files.setdefault(name, [])
        elif line.startswith('@@') and cur is not None:
            start = int(line.split()[1].split(',')[0].lstrip('-'))
            cur.append((start, []))
        elif cur and line[:1] in (' ', '+', '-') and not line.startswith(
                ('--- ', '+++ ')):
            cur[-1][1].append(line)
        elif cur and line == '':
            cur[-1][1].append(' ')
    out = {}
    for rel, hunks in files.items():
        try:
            text = open(os.path.join(root, rel), encoding='utf-8').read()
        except OSError:
            return None
        lines = text.split('\n')
        shift = 0
        for start, body in hunks:
            old = [l[1:] for l in body if l[:1] in (' ', '-')]
            new = [l[1:] for l in body if l[:1] in (' ', '+')]
            while old and new and old[-1] == '' and new[-1] == '':
                old.pop()
                new.pop()
            want = start - 1 + shift
            pos = None
            for d in sorted(range(-400, 401), key=abs):
                i = want + d
                if 0 <= i <= len(lines) - len(old) and lines[
                        i:i + len(old)] == old:
                    pos = i
                    break
            if pos is None:
                return None
            lines[pos:pos + len(old)] = new
            shift += len(new) - len(old) + (pos - want)
        out[rel] = '\n'.join(lines)
        try:
            compile(out[rel], rel, 'exec')
        except SyntaxError:
            return None
    return out


def _apply(root: str, m: dict[str, Any]) -> dict[str, str] | None:
    if 'patch' in m:
        try:
            with open(m['patch'], encoding='utf-8') as f:
                return apply_unified(root, f.read())
        except OSError:
            return None
    path = os.path.join(root, m['file'])
    try:
        text = open(path, encoding='utf-8').read()
    except OSError:
        return None
    if text.count(m['old']) != 1:
        return None
    new = text.replace(m['old'], m['new'])
    try:
        compile(new, m['file'], 'exec')
    except SyntaxError:
        return None
    return {m['file']: new}


def run_one(args: tuple[str, dict[str, Any]]) -> dict[str, Any]:
    root, m = args
    t0 = time.time()
    overlay = _apply(root, m)
    res = {'id': m['id'], 'property': m['property'], 'kind': m.get(
        'kind', 'mutant'), 'expect': m.get('expect', '')}
    if overlay is None:
        res['outcome'] = 'not-applicable'
        return res
    try:
        mod = importlib.import_module(f'sa.props.{m["property"]}')
        ctx = Ctx(root, overlay, 'quick')
        rep = Report(m['property'], 'quick')
        mod.run(ctx, rep)
        known = {k['key'] for k in load_known()
                 if k.get('status') == 'known'
                 and k['property'] == m['property']}
        viol = [o for o in rep.violations() if o.key not in known]
        res['violations'] = [o.key for o in viol][:5]
        if not viol and rep.floor_failures:
            raise AnalysisError('; '.join(rep.floor_failures))
        if res['kind'] == 'neutral':
            res['outcome'] = 'silent' if not viol else 'FALSE-ALARM'
        else:
            hit = [o for o in viol if not m.get('expect')
                   or o.rule == m['expect'] or m['expect'] in o.key]
            res['outcome'] = 'killed' if hit else (
                'killed-other-rule' if viol else 'SURVIVED')
    except AnalysisError as e:
        res['outcome'] = 'analysis-error' if res['kind'] != 'neutral' else (
            'FALSE-ALARM(analysis-error)')
        res['violations'] = [str(e)[:120]]
    except Exception as e:  # pragma: no cover - diagnostic
        res['outcome'] = 'CRASH'
        res['violations'] = [repr(e)[:160]]
    res['wall_s'] = round(time.time() - t0, 2)
    return res


def run_for(pids: list[str], root: str, jobs: int) -> list[dict[str, Any]]:
    ms = [m for m in catalogue() if m['property'] in pids]
    if not ms:
        return []
    with ProcessPoolExecutor(max_workers=max(1, min(jobs, len(ms)))) as ex:
        return list(ex.map(run_one, [(root, m) for m in ms]))


def summarise(results: list[dict[str, Any]]) -> dict[str, Any]:
    mut = [r for r in results if r['kind'] != 'neutral']
    neu = [r for r in results if r['kind'] == 'neutral']
    return {
        'mutants_total': len(mut),
        'mutants_killed': sum(r['outcome'] in (
            'killed', 'killed-other-rule') for r in mut),
        'mutants_analysis_error': sum(
            r['outcome'] == 'analysis-error' for r in mut),
        'mutants_survived': [r['id'] for r in mut
                             if r['outcome'] == 'SURVIVED'],
        'mutants_not_applicable': [r['id'] for r in mut
                                   if r['outcome'] == 'not-applicable'],
        'neutral_total': len(neu),
        'neutral_silent': sum(r['outcome'] == 'silent' for r in neu),
        'neutral_false_alarms': [r['id'] for r in neu
                                 if r['outcome'].startswith('FALSE')],
    }


def neutral_corpus(pid: str) -> list[dict[str, Any]]:
    """The independently written behaviour-preserving patches under
    /verif/neutral, as 'neutral' overlays for property pid."""
    out = []
    base = os.path.join(VERIF, 'neutral')
    for d in sorted(os.listdir(base)) if os.path.isdir(base) else []:
        p = os.path.join(base, d, 'patch.diff')
        if os.path.exists(p):
            out.append({'id': f'neutral/{d}', 'property': pid, 'patch': p,
                        'expect': '', 'kind': 'neutral'})
    return out


def attach(pid: str, rep: Report, root: str, jobs: int) -> None:
    res = run_for([pid], root, jobs)
    extra = neutral_corpus(pid)
    if extra:
        with ProcessPoolExecutor(
                max_workers=max(1, min(jobs, len(extra)))) as ex:
            res += list(ex.map(run_one, [(root, m) for m in extra]))
    s = summarise(res)
    rep.extra['selftest'] = s
    if s['mutants_survived']:
        rep.observe('self-test: surviving mutants (checker weakness, not a '
                    f'property violation): {s["mutants_survived"]}')
    if s['neutral_false_alarms']:
        rep.observe('self-test: neutral edits that raised an alarm: '
                    f'{s["neutral_false_alarms"]}')


def main(pids: list[str], root: str, jobs: int) -> int:
    t0 = time.time()
    res = run_for(pids, root, jobs)
    for r in sorted(res, key=lambda r: (r['property'], r['id'])):
        flag = '' if r['outcome'] in (
            'killed', 'silent', 'killed-other-rule') else '  <<<'
        print(f'{r["property"]} {r["kind"]:7s} {r["id"]:44s} '
              f'{r["outcome"]}{flag}  {r.get("violations", [])[:2]}')
    s = summarise(res)
    print(f'self-test: {s} in {time.time() - t0:.1f}s')
    bad = s['mutants_survived'] or s['neutral_false_alarms'] or any(
        r['outcome'] == 'CRASH' for r in res)
    return 3 if bad else 0
