"""Both-ways self-test of the rules (DESIGN 2.9).

A *mutant* is an in-memory overlay of one repository file in which one
confirmed rule instance is broken (the edit still compiles); the property's
check must report a violation of the expected rule.  A *neutral* edit keeps
behaviour (rename of a local, statement split, reordering of independent
statements); the check must stay silent.  Nothing is written to /repo.

Results are reported, never a verdict about the property: a surviving
mutant is a warning about the checker.
"""
from __future__ import annotations

import importlib
import os
import sys
import time
from concurrent.futures import ProcessPoolExecutor
from typing import Any

from .engine import Ctx
from .report import Report
from .report import load_known
from .source import AnalysisError

VERIF = os.path.dirname(os.path.dirname(os.path.abspath(__file__)))


def catalogue() -> list[dict[str, Any]]:
    sys.path.insert(0, VERIF)
    try:
        mod = importlib.import_module('selftest.mutants')
        importlib.reload(mod)
    finally:
        sys.path.pop(0)
    return mod.MUTANTS


def _apply(root: str, m: dict[str, Any]) -> dict[str, str] | None:
    path = os.path.join(root, m['file'])
    try:
        text = open(path, encoding='utf-8').read()
    except OSError:
        return None
    if text.count(m['old']) != 1:
        return None
    new = text.replace(m['old'], m['new'])
    try:
        compile(new, m['file'], 'exec')
    except SyntaxError:
        return None
    return {m['file']: new}


def run_one(args: tuple[str, dict[str, Any]]) -> dict[str, Any]:
    root, m = args
    t0 = time.time()
    overlay = _apply(root, m)
    res = {'id': m['id'], 'property': m['property'], 'kind': m.get(
        'kind', 'mutant'), 'expect': m.get('expect', '')}
    if overlay is None:
        res['outcome'] = 'not-applicable'
        return res
    try:
        mod = importlib.import_module(f'sa.props.{m["property"]}')
        ctx = Ctx(root, overlay, 'quick')
        rep = Report(m['property'], 'quick')
        mod.run(ctx, rep)
        known = {k['key'] for k in load_known()
                 if k.get('status') == 'known'
                 and k['property'] == m['property']}
        viol = [o for o in rep.violations() if o.key not in known]
        res['violations'] = [o.key for o in viol][:5]
        if not viol and rep.floor_failures:
            raise AnalysisError('; '.join(rep.floor_failures))
        if res['kind'] == 'neutral':
            res['outcome'] = 'silent' if not viol else 'FALSE-ALARM'
        else:
            hit = [o for o in viol if not m.get('expect')
                   or o.rule == m['expect'] or m['expect'] in o.key]
            res['outcome'] = 'killed' if hit else (
                'killed-other-rule' if viol else 'SURVIVED')
    except AnalysisError as e:
        res['outcome'] = 'analysis-error' if res['kind'] != 'neutral' else (
            'FALSE-ALARM(analysis-error)')
        res['violations'] = [str(e)[:120]]
    except Exception as e:  # pragma: no cover - diagnostic
        res['outcome'] = 'CRASH'
        res['violations'] = [repr(e)[:160]]
    res['wall_s'] = round(time.time() - t0, 2)
    return res


def run_for(pids: list[str], root: str, jobs: int) -> list[dict[str, Any]]:
    ms = [m for m in catalogue() if m['property'] in pids]
    if not ms:
        return []
    with ProcessPoolExecutor(max_workers=max(1, min(jobs, len(ms)))) as ex:
        return list(ex.map(run_one, [(root, m) for m in ms]))


def summarise(results: list[dict[str, Any]]) -> dict[str, Any]:
    mut = [r for r in results if r['kind'] != 'neutral']
    neu = [r for r in results if r['kind'] == 'neutral']
    return {
        'mutants_total': len(mut),
        'mutants_killed': sum(r['outcome'] in (
            'killed', 'killed-other-rule') for r in mut),
        'mutants_analysis_error': sum(
            r['outcome'] == 'analysis-error' for r in mut),
        'mutants_survived': [r['id'] for r in mut
                             if r['outcome'] == 'SURVIVED'],
        'mutants_not_applicable': [r['id'] for r in mut
                                   if r['outcome'] == 'not-applicable'],
        'neutral_total': len(neu),
        'neutral_silent': sum(r['outcome'] == 'silent' for r in neu),
        'neutral_false_alarms': [r['id'] for r in neu
                                 if r['outcome'].startswith('FALSE')],
    }


def attach(pid: str, rep: Report, root: str, jobs: int) -> None:
    res = run_for([pid], root, jobs)
    s = summarise(res)
    rep.extra['selftest'] = s
    if s['mutants_survived']:
        rep.observe('self-test: surviving mutants (checker weakness, not a '
                    f'property violation): {s["mutants_survived"]}')
    if s['neutral_false_alarms']:
        rep.observe('self-test: neutral edits that raised an alarm: '
                    f'{s["neutral_false_alarms"]}')


def main(pids: list[str], root: str, jobs: int) -> int:
    t0 = time.time()
    res = run_for(pids, root, jobs)
    for r in sorted(res, key=lambda r: (r['property'], r['id'])):
        flag = '' if r['outcome'] in (
            'killed', 'silent', 'killed-other-rule') else '  <<<'
        print(f'{r["property"]} {r["kind"]:7s} {r["id"]:44s} '
              f'{r["outcome"]}{flag}  {r.get("violations", [])[:2]}')
    s = summarise(res)
    print(f'self-test: {s} in {time.time() - t0:.1f}s')
    bad = s['mutants_survived'] or s['neutral_false_alarms'] or any(
        r['outcome'] == 'CRASH' for r in res)
    return 3 if bad else 0
