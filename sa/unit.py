"""Engine unit tests on tiny fixtures (run by ./check --setup)."""
from __future__ import annotations

import ast

from . import cfg as C
from . import dataflow as D


def _fn(src: str) -> ast.FunctionDef:
    return ast.parse(src).body[0]  # type: ignore[return-value]


def _has_call(name: str):
    return lambda n: any(
        isinstance(c.func, ast.Name) and c.func.id == name
        or isinstance(c.func, ast.Attribute) and c.func.attr == name
        for c in n.calls()
    )


def run() -> None:
    f = _fn('''
def f(a, b):
    lock()
    try:
        x = get()
    except Empty:
        unlock()
        return None
    if a:
        unlock()
        return x
    while b:
        b = step(b)
        if b > 3:
            break
    else:
        other()
    unlock()
    return 1
''')
    g = C.build(f)
    assert g.must(_has_call('lock'))
    assert g.must(_has_call('unlock'))
    assert not g.must(_has_call('other'))
    assert not g.precedes(_has_call('lock'), _has_call('unlock'))
    assert g.precedes(_has_call('other'), _has_call('step'))
    assert not g.response(_has_call('lock'), _has_call('unlock'))
    # guard: `return x` is dominated by the true edge of `if a`
    ret = [n for n in g.nodes if isinstance(n.stmt, ast.Return)
           and isinstance(n.stmt.value, ast.Name)][0]
    gs = [(t.text(), lab) for t, lab in g.guards_of(ret.id)]
    assert ('if a', 'true') in gs, gs
    # missing release on one path
    f2 = _fn('''
def f(a):
    lock()
    if a:
        return 1
    unlock()
    return 2
''')
    g2 = C.build(f2)
    assert not g2.must(_has_call('unlock'))
    assert g2.response(_has_call('lock'), _has_call('unlock'))
    # finally is on the return path
    f3 = _fn('''
def f(a):
    try:
        if a:
            return 1
        work()
    finally:
        cleanup()
    return 2
''')
    g3 = C.build(f3)
    assert g3.must(_has_call('cleanup'))
    # reaching definitions
    f4 = _fn('''
def f(p, q):
    x = p
    if q:
        x = q + 1
    y = [x for x in p]
    z = x
    return z
''')
    g4 = C.build(f4)
    rd = D.ReachingDefs(g4, ['p', 'q'])
    ret = [n for n in g4.nodes if isinstance(n.stmt, ast.Return)][0]
    deps, _ = rd.closure(ret, ret.stmt.value)
    assert {'z', 'x', 'p', 'q'} <= deps, deps
    zdef = [n for n in g4.nodes if n.text() == 'z = x'][0]
    assert len(rd.reaching(zdef, 'x')) == 2
    # while True has no false edge
    f5 = _fn('''
def f(c):
    while True:
        m = c.recv()
        if m is None:
            break
    done()
''')
    g5 = C.build(f5)
    assert g5.must(_has_call('recv'))
    assert g5.must(_has_call('done'))
