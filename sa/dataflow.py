"""Reaching definitions and dependence queries (DESIGN 2.4)."""
from __future__ import annotations

import ast
from typing import Iterable

from .cfg import CFG
from .cfg import Node
from .source import norm


def dotted(e: ast.AST) -> str | None:
    """`a.b.c` for Name/Attribute chains rooted at a Name, else None."""
    parts = []
    while isinstance(e, ast.Attribute):
        parts.append(e.attr)
        e = e.value
    if isinstance(e, ast.Name):
        parts.append(e.id)
        return '.'.join(reversed(parts))
    return None


def atoms(e: ast.AST) -> set[str]:
    """Names and maximal dotted chains read inside e (not call targets'
    method names: for `a.b.f(x)` the atoms are `a.b.f`, `a.b`, `a`, `x`)."""
    out: set[str] = set()

    def rec(n: ast.AST) -> None:
        d = dotted(n)
        if d is not None:
            # add every prefix
            parts = d.split('.')
            for i in range(1, len(parts) + 1):
                out.add('.'.join(parts[:i]))
            return
        if isinstance(n, (ast.ListComp, ast.SetComp, ast.GeneratorExp,
                          ast.DictComp)):
            bound: set[str] = set()
            for g in n.generators:
                rec(g.iter)
                bound |= {x.id for x in ast.walk(g.target)
                          if isinstance(x, ast.Name)}
                for c in g.ifs:
                    rec(c)
            if isinstance(n, ast.DictComp):
                rec(n.key)
                rec(n.value)
            else:
                rec(n.elt)
            # comprehension variables are local: they stand for the iter
            for b in bound:
                out.discard(b)
            return
        if isinstance(n, ast.Lambda):
            rec(n.body)
            for a in n.args.args:
                out.discard(a.arg)
            return
        for c in ast.iter_child_nodes(n):
            rec(c)
    rec(e)
    return out


def _targets(t: ast.AST) -> list[tuple[str, bool]]:
    """(name, is_partial) for assignment target t.  Subscript/attribute
    stores on a name are partial defs (they do not kill)."""
    if isinstance(t, ast.Name):
        return [(t.id, False)]
    if isinstance(t, (ast.Tuple, ast.List)):
        out = []
        for e in t.elts:
            out += _targets(e)
        return out
    if isinstance(t, ast.Starred):
        return _targets(t.value)
    if isinstance(t, ast.Attribute):
        d = dotted(t)
        if d:
            return [(d, False)]
        return []
    if isinstance(t, ast.Subscript):
        d = dotted(t.value)
        if d:
            return [(d, True)]
        return []
    return []


class Def:
    __slots__ = ('name', 'node', 'value', 'partial', 'kind')

    def __init__(
        self, name: str, node: Node, value: ast.AST | None,
        partial: bool, kind: str,
    ) -> None:
        self.name = name
        self.node = node
        self.value = value  # expression the new value is computed from
        self.partial = partial
        self.kind = kind  # assign aug for with except param walrus import

    def __repr__(self) -> str:
        return f'<def {self.name}@{self.node.lineno} {self.kind}>'


def node_defs(n: Node) -> list[Def]:
    s = n.stmt
    out: list[Def] = []
    if s is None:
        return out
    if n.kind == 'stmt':
        if isinstance(s, ast.Assign):
            for t in s.targets:
                for nm, part in _targets(t):
                    out.append(Def(nm, n, s.value, part, 'assign'))
        elif isinstance(s, ast.AnnAssign):
            if s.value is not None:
                for nm, part in _targets(s.target):
                    out.append(Def(nm, n, s.value, part, 'assign'))
        elif isinstance(s, ast.AugAssign):
            for nm, part in _targets(s.target):
                out.append(Def(nm, n, s, True, 'aug'))
        elif isinstance(s, (ast.Import, ast.ImportFrom)):
            for a in s.names:
                out.append(Def(
                    (a.asname or a.name).split('.')[0], n, None, False,
                    'import',
                ))
        elif isinstance(
            s, (ast.FunctionDef, ast.AsyncFunctionDef, ast.ClassDef),
        ):
            out.append(Def(s.name, n, None, False, 'def'))
        elif isinstance(s, ast.Expr):
            # mutating method calls on a name: partial defs
            c = s.value
            if isinstance(c, ast.Await):
                c = c.value
            if isinstance(c, ast.Call) and isinstance(c.func, ast.Attribute):
                if c.func.attr in _MUTATORS:
                    d = dotted(c.func.value)
                    if d:
                        out.append(Def(d, n, c, True, 'mutcall'))
    elif n.kind == 'for':
        for nm, part in _targets(s.target):  # type: ignore[attr-defined]
            out.append(Def(nm, n, s.iter, part, 'for'))  # type: ignore
    elif n.kind == 'with':
        for it in s.items:  # type: ignore[attr-defined]
            if it.optional_vars is not None:
                for nm, part in _targets(it.optional_vars):
                    out.append(Def(nm, n, it.context_expr, part, 'with'))
    elif n.kind == 'except':
        if getattr(s, 'name', None):
            out.append(Def(s.name, n, None, False, 'except'))  # type: ignore
    for e in n.exprs():
        for x in ast.walk(e):
            if isinstance(x, ast.NamedExpr) and isinstance(
                x.target, ast.Name,
            ):
                out.append(Def(x.target.id, n, x.value, False, 'walrus'))
    return out


_MUTATORS = {
    'append', 'extend', 'add', 'update', 'insert', 'remove', 'discard',
    'pop', 'clear', 'sort', 'reverse', 'setdefault', 'popitem', 'put',
    'appendleft',
}


class ReachingDefs:
    def __init__(self, cfg: CFG, params: Iterable[str] = ()) -> None:
        self.cfg = cfg
        self.defs: list[Def] = []
        self.at: dict[int, list[int]] = {}
        entry = cfg.nodes[cfg.entry]
        for p in params:
            self.at.setdefault(cfg.entry, []).append(len(self.defs))
            self.defs.append(Def(p, entry, None, False, 'param'))
        for n in cfg.nodes:
            for d in node_defs(n):
                self.at.setdefault(n.id, []).append(len(self.defs))
                self.defs.append(d)
        by_name: dict[str, set[int]] = {}
        for i, d in enumerate(self.defs):
            by_name.setdefault(d.name, set()).add(i)
        self.by_name = by_name
        IN: dict[int, set[int]] = {n.id: set() for n in cfg.nodes}
        OUT: dict[int, set[int]] = {n.id: set() for n in cfg.nodes}
        work = [n.id for n in cfg.nodes]
        inwork = set(work)
        while work:
            a = work.pop()
            inwork.discard(a)
            i = set()
            for p, _l in cfg.pred[a]:
                i |= OUT[p]
            IN[a] = i
            o = set(i)
            for di in self.at.get(a, []):
                d = self.defs[di]
                if not d.partial:
                    kills = set(by_name[d.name])
                    # a def of `x` also kills defs of `x.attr`
                    pre = d.name + '.'
                    for nm, s in by_name.items():
                        if nm.startswith(pre):
                            kills |= s
                    o -= kills
                o.add(di)
            if o != OUT[a]:
                OUT[a] = o
                for b, _l in cfg.succ[a]:
                    if b not in inwork:
                        work.append(b)
                        inwork.add(b)
        self.IN = IN
        self.OUT = OUT

    def reaching(self, node: int | Node, name: str) -> list[Def]:
        nid = node if isinstance(node, int) else node.id
        return [
            self.defs[i] for i in sorted(self.IN[nid])
            if self.defs[i].name == name
        ]

    def closure(
        self, node: int | Node, expr: ast.AST, max_steps: int = 400,
    ) -> tuple[set[str], list[Def]]:
        """Atoms that `expr` (evaluated at node) transitively depends on,
        following reaching definitions of local names, plus the defs used."""
        nid = node if isinstance(node, int) else node.id
        seen_defs: set[int] = set()
        used: list[Def] = []
        out: set[str] = set()
        todo: list[tuple[int, ast.AST]] = [(nid, expr)]
        steps = 0
        while todo and steps < max_steps:
            steps += 1
            at, e = todo.pop()
            for a in atoms(e):
                out.add(a)
                for i in self.IN[at] | set(self.at.get(at, [])):
                    d = self.defs[i]
                    if d.name != a or i in seen_defs:
                        continue
                    # a def at the same node only counts if it is not the
                    # statement being evaluated (x = f(x) uses the old x)
                    if d.node.id == at and i not in self.IN[at]:
                        continue
                    seen_defs.add(i)
                    used.append(d)
                    if d.value is not None:
                        todo.append((d.node.id, d.value))
        return out, used


class FlowInsensitiveDeps:
    """name -> RHS expressions anywhere in the function (cheap closure)."""

    def __init__(self, fn_node: ast.AST) -> None:
        self.rhs: dict[str, list[ast.AST]] = {}
        for n in ast.walk(fn_node):
            if isinstance(n, ast.Assign):
                for t in n.targets:
                    for nm, _p in _targets(t):
                        self.rhs.setdefault(nm, []).append(n.value)
            elif isinstance(n, ast.AnnAssign) and n.value is not None:
                for nm, _p in _targets(n.target):
                    self.rhs.setdefault(nm, []).append(n.value)
            elif isinstance(n, ast.AugAssign):
                for nm, _p in _targets(n.target):
                    self.rhs.setdefault(nm, []).append(n.value)
            elif isinstance(n, (ast.For, ast.AsyncFor, ast.comprehension)):
                for nm, _p in _targets(n.target):
                    self.rhs.setdefault(nm, []).append(n.iter)
            elif isinstance(n, (ast.With, ast.AsyncWith)):
                for it in n.items:
                    if it.optional_vars is not None:
                        for nm, _p in _targets(it.optional_vars):
                            self.rhs.setdefault(nm, []).append(
                                it.context_expr,
                            )
            elif isinstance(n, ast.NamedExpr):
                for nm, _p in _targets(n.target):
                    self.rhs.setdefault(nm, []).append(n.value)
            elif isinstance(n, ast.Expr) and isinstance(n.value, ast.Call):
                c = n.value
                if isinstance(c.func, ast.Attribute) and (
                    c.func.attr in _MUTATORS
                ):
                    d = dotted(c.func.value)
                    if d:
                        self.rhs.setdefault(d, []).extend(
                            list(c.args) + [k.value for k in c.keywords],
                        )

    def closure(self, expr: ast.AST) -> set[str]:
        out: set[str] = set()
        todo = [expr]
        seen: set[int] = set()
        while todo:
            e = todo.pop()
            if id(e) in seen:
                continue
            seen.add(id(e))
            for a in _atoms_keep_comp(e):
                if a not in out:
                    out.add(a)
                    todo.extend(self.rhs.get(a, []))
        return out


def _atoms_keep_comp(e: ast.AST) -> set[str]:
    """Like atoms() but keeps comprehension variables (flow-insensitive
    closure resolves them through the recorded comprehension targets)."""
    out: set[str] = set()
    for n in ast.walk(e):
        d = dotted(n)
        if d is not None:
            parts = d.split('.')
            for i in range(1, len(parts) + 1):
                out.add('.'.join(parts[:i]))
    return out


def text_set(es: Iterable[ast.AST]) -> set[str]:
    return {norm(e) for e in es}
