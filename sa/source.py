"""Source set, module index and name/callee resolution (DESIGN 2.1, 2.2).

Everything here reads text; nothing imports bqskit.
"""
from __future__ import annotations

import ast
import hashlib
import os
from typing import Iterable
from typing import Iterator


class AnalysisError(Exception):
    """The analysis itself cannot proceed (vanished anchor, unknown idiom)."""


class SourceSet:
    """Text of the repository's python files, with an in-memory overlay."""

    def __init__(
        self, root: str = '/repo',
        overlay: dict[str, str] | None = None,
    ) -> None:
        self.root = root
        self.overlay = dict(overlay or {})
        self._cache: dict[str, str] = {}
        self.consulted: set[str] = set()

    def files(self, sub: str = 'bqskit') -> list[str]:
        out = []
        base = os.path.join(self.root, sub)
        for dp, dn, fn in os.walk(base):
            dn[:] = sorted(d for d in dn if d != '__pycache__')
            for f in sorted(fn):
                if f.endswith('.py'):
                    out.append(
                        os.path.relpath(os.path.join(dp, f), self.root),
                    )
        for k in self.overlay:
            if k not in out and k.startswith(sub):
                out.append(k)
        return sorted(out)

    def exists(self, rel: str) -> bool:
        return rel in self.overlay or os.path.exists(
            os.path.join(self.root, rel),
        )

    def text(self, rel: str) -> str:
        self.consulted.add(rel)
        if rel in self.overlay:
            return self.overlay[rel]
        if rel not in self._cache:
            p = os.path.join(self.root, rel)
            if not os.path.exists(p):
                raise AnalysisError(f'anchor file vanished: {rel}')
            with open(p, encoding='utf-8') as f:
                self._cache[rel] = f.read()
        return self._cache[rel]

    def digest(self) -> str:
        h = hashlib.sha256()
        for rel in sorted(self.consulted):
            h.update(rel.encode())
            h.update(self.text(rel).encode())
        return h.hexdigest()

    def with_overlay(self, overlay: dict[str, str]) -> SourceSet:
        s = SourceSet(self.root, {**self.overlay, **overlay})
        s._cache = self._cache
        return s


def norm(node: ast.AST | str) -> str:
    """Whitespace/comment-insensitive text of a construct (finding keys)."""
    if isinstance(node, str):
        return ' '.join(node.split())
    try:
        return ' '.join(ast.unparse(node).split())
    except Exception:
        return type(node).__name__


def short(node: ast.AST | str, n: int = 90) -> str:
    s = norm(node)
    return s if len(s) <= n else s[: n - 3] + '...'


class FunctionInfo:
    def __init__(
        self, node: ast.FunctionDef | ast.AsyncFunctionDef,
        module: Module, cls: ClassInfo | None,
    ) -> None:
        self.node = node
        self.name = node.name
        self.module = module
        self.cls = cls
        self.qualname = (
            f'{cls.qualname}.{node.name}' if cls
            else f'{module.name}.{node.name}'
        )
        self.decorators = [norm(d) for d in node.decorator_list]

    @property
    def path(self) -> str:
        return self.module.path

    @property
    def lineno(self) -> int:
        return self.node.lineno

    @property
    def is_async(self) -> bool:
        return isinstance(self.node, ast.AsyncFunctionDef)

    @property
    def params(self) -> list[str]:
        a = self.node.args
        out = [x.arg for x in a.posonlyargs + a.args]
        if a.vararg:
            out.append(a.vararg.arg)
        out += [x.arg for x in a.kwonlyargs]
        if a.kwarg:
            out.append(a.kwarg.arg)
        return out

    def param_default(self, name: str) -> ast.AST | None:
        a = self.node.args
        pos = a.posonlyargs + a.args
        nd = len(a.defaults)
        for i, p in enumerate(pos):
            if p.arg == name:
                j = i - (len(pos) - nd)
                return a.defaults[j] if j >= 0 else None
        for p, d in zip(a.kwonlyargs, a.kw_defaults):
            if p.arg == name:
                return d
        return None

    @property
    def body(self) -> list[ast.stmt]:
        b = self.node.body
        if (
            b and isinstance(b[0], ast.Expr)
            and isinstance(b[0].value, ast.Constant)
            and isinstance(b[0].value.value, str)
        ):
            return b[1:]
        return b

    @property
    def docstring(self) -> str:
        return ast.get_docstring(self.node) or ''

    def __repr__(self) -> str:
        return f'<fn {self.qualname}>'


class ClassInfo:
    def __init__(self, node: ast.ClassDef, module: Module) -> None:
        self.node = node
        self.name = node.name
        self.module = module
        self.qualname = f'{module.name}.{node.name}'
        self.methods: dict[str, FunctionInfo] = {}
        self.class_attrs: dict[str, ast.AST] = {}
        self.class_annots: dict[str, ast.AST] = {}
        self.base_exprs = list(node.bases)
        for st in node.body:
            if isinstance(st, (ast.FunctionDef, ast.AsyncFunctionDef)):
                # keep the last definition except for property setters
                if st.name in self.methods and any(
                    norm(d).endswith('.setter') for d in st.decorator_list
                ):
                    self.methods[st.name + '.setter'] = FunctionInfo(
                        st, module, self,
                    )
                    continue
                self.methods[st.name] = FunctionInfo(st, module, self)
            elif isinstance(st, ast.Assign):
                for t in st.targets:
                    if isinstance(t, ast.Name):
                        self.class_attrs[t.id] = st.value
            elif isinstance(st, ast.AnnAssign) and isinstance(
                st.target, ast.Name,
            ):
                self.class_annots[st.target.id] = st.annotation
                if st.value is not None:
                    self.class_attrs[st.target.id] = st.value

    @property
    def path(self) -> str:
        return self.module.path

    @property
    def lineno(self) -> int:
        return self.node.lineno

    def __repr__(self) -> str:
        return f'<class {self.qualname}>'


class Module:
    def __init__(self, path: str, name: str, text: str) -> None:
        self.path = path
        self.name = name
        self.text = text
        try:
            self.tree = ast.parse(text, filename=path)
        except SyntaxError as e:
            raise AnalysisError(f'{path} does not parse: {e}') from e
        # rename-invariance: locals are mapped back to the reference names
        from . import dealpha
        self.renamed_functions = dealpha.apply(self.tree, path)
        self.is_pkg = path.endswith('__init__.py')
        self.imports: dict[str, str] = {}
        self.functions: dict[str, FunctionInfo] = {}
        self.classes: dict[str, ClassInfo] = {}
        self.assigns: dict[str, ast.AST] = {}
        self._scan(self.tree.body)

    def _pkg(self) -> str:
        return self.name if self.is_pkg else self.name.rpartition('.')[0]

    def _scan(self, body: Iterable[ast.stmt]) -> None:
        for st in body:
            if isinstance(st, ast.Import):
                for a in st.names:
                    if a.asname:
                        self.imports[a.asname] = a.name
                    else:
                        self.imports[a.name.split('.')[0]] = (
                            a.name.split('.')[0]
                        )
            elif isinstance(st, ast.ImportFrom):
                base = st.module or ''
                if st.level:
                    pk = self._pkg().split('.')
                    pk = pk[: len(pk) - (st.level - 1)]
                    base = '.'.join(pk + ([base] if base else []))
                for a in st.names:
                    self.imports[a.asname or a.name] = f'{base}.{a.name}'
            elif isinstance(st, (ast.FunctionDef, ast.AsyncFunctionDef)):
                self.functions[st.name] = FunctionInfo(st, self, None)
            elif isinstance(st, ast.ClassDef):
                self.classes[st.name] = ClassInfo(st, self)
            elif isinstance(st, ast.Assign):
                for t in st.targets:
                    if isinstance(t, ast.Name):
                        self.assigns[t.id] = st.value
            elif isinstance(st, ast.AnnAssign):
                if isinstance(st.target, ast.Name) and st.value is not None:
                    self.assigns[st.target.id] = st.value
            elif isinstance(st, (ast.If, ast.Try)):
                # TYPE_CHECKING blocks and guarded imports
                self._scan(st.body)
                if isinstance(st, ast.If):
                    self._scan(st.orelse)
                else:
                    for h in st.handlers:
                        self._scan(h.body)


class Index:
    """All modules of bqskit/, with name resolution and MRO."""

    def __init__(self, src: SourceSet, sub: str = 'bqskit') -> None:
        self.src = src
        self._nested: dict[int, FunctionInfo] = {}
        self.modules: dict[str, Module] = {}
        self.by_path: dict[str, Module] = {}
        for rel in src.files(sub):
            name = rel[:-3].replace('/', '.')
            if name.endswith('.__init__'):
                name = name[: -len('.__init__')]
            m = Module(rel, name, src.text(rel))
            self.modules[name] = m
            self.by_path[rel] = m
        self.classes: dict[str, ClassInfo] = {}
        for m in self.modules.values():
            for c in m.classes.values():
                self.classes[c.qualname] = c
        self._mro: dict[str, list[ClassInfo]] = {}
        self._subs: dict[str, list[ClassInfo]] | None = None

    # ---- lookups ---------------------------------------------------------
    def module(self, path_or_name: str) -> Module:
        m = self.by_path.get(path_or_name) or self.modules.get(path_or_name)
        if m is None:
            raise AnalysisError(f'anchor module vanished: {path_or_name}')
        return m

    def cls(self, qual: str) -> ClassInfo:
        """`path.py:Class` or dotted qualname."""
        if ':' in qual:
            p, _, n = qual.partition(':')
            m = self.module(p)
            if n not in m.classes:
                raise AnalysisError(f'anchor class vanished: {qual}')
            return m.classes[n]
        if qual not in self.classes:
            raise AnalysisError(f'anchor class vanished: {qual}')
        return self.classes[qual]

    def fn(self, qual: str) -> FunctionInfo:
        """`path.py:func` or `path.py:Class.method` (own, not inherited)."""
        p, _, n = qual.partition(':')
        m = self.module(p)
        parts = n.split('.')
        if parts[0] in m.classes:
            c = m.classes[parts[0]]
            if len(parts) < 2 or parts[1] not in c.methods:
                raise AnalysisError(f'anchor function vanished: {qual}')
            base, rest = c.methods[parts[1]], parts[2:]
        elif parts[0] in m.functions:
            base, rest = m.functions[parts[0]], parts[1:]
        else:
            raise AnalysisError(f'anchor function vanished: {qual}')
        # `outer.inner`: a def nested (at any depth) in the outer function
        for name in rest:
            inner = [x for x in ast.walk(base.node) if isinstance(
                x, (ast.FunctionDef, ast.AsyncFunctionDef))
                and x.name == name and x is not base.node]
            if len(inner) != 1:
                raise AnalysisError(f'anchor function vanished: {qual}')
            key = id(inner[0])
            if key not in self._nested:
                self._nested[key] = FunctionInfo(
                    inner[0], base.module, base.cls)
            base = self._nested[key]
        return base

    def has_fn(self, qual: str) -> bool:
        try:
            self.fn(qual)
            return True
        except AnalysisError:
            return False

    # ---- name resolution ---------------------------------------------------
    def resolve_dotted(self, dotted: str, depth: int = 0) -> object | None:
        """Dotted name -> Module | ClassInfo | FunctionInfo | ast value."""
        if depth > 12:
            return None
        if dotted in self.modules:
            return self.modules[dotted]
        head, _, last = dotted.rpartition('.')
        if not head:
            return None
        owner = self.resolve_dotted(head, depth + 1)
        if isinstance(owner, Module):
            if last in owner.classes:
                return owner.classes[last]
            if last in owner.functions:
                return owner.functions[last]
            if last in owner.imports:
                return self.resolve_dotted(owner.imports[last], depth + 1)
            if last in owner.assigns:
                return owner.assigns[last]
            return None
        if isinstance(owner, ClassInfo):
            f = self.lookup_method(owner, last)
            if f is not None:
                return f
            return self.lookup_class_attr(owner, last)
        return None

    def resolve_name(self, module: Module, name: str) -> object | None:
        if name in module.classes:
            return module.classes[name]
        if name in module.functions:
            return module.functions[name]
        if name in module.imports:
            return self.resolve_dotted(module.imports[name])
        if name in module.assigns:
            return module.assigns[name]
        return None

    def resolve_expr(self, module: Module, e: ast.AST) -> object | None:
        """Resolve Name / dotted Attribute used as a class/function ref."""
        if isinstance(e, ast.Name):
            return self.resolve_name(module, e.id)
        if isinstance(e, ast.Attribute):
            o = self.resolve_expr(module, e.value)
            if isinstance(o, Module):
                return self.resolve_dotted(f'{o.name}.{e.attr}')
            if isinstance(o, ClassInfo):
                f = self.lookup_method(o, e.attr)
                return f if f is not None else self.lookup_class_attr(
                    o, e.attr,
                )
            return None
        if isinstance(e, ast.Subscript):  # Generic[T]
            return self.resolve_expr(module, e.value)
        return None

    # ---- classes ---------------------------------------------------------
    def bases(self, c: ClassInfo) -> list[ClassInfo]:
        out = []
        for b in c.base_exprs:
            r = self.resolve_expr(c.module, b)
            if isinstance(r, ClassInfo):
                out.append(r)
        return out

    def base_names(self, c: ClassInfo) -> list[str]:
        """Textual base names incl. those defined outside the repo."""
        return [norm(b) for b in c.base_exprs]

    def mro(self, c: ClassInfo) -> list[ClassInfo]:
        if c.qualname in self._mro:
            return self._mro[c.qualname]
        self._mro[c.qualname] = [c]  # cycle guard
        seqs = [self.mro(b)[:] for b in self.bases(c)]
        seqs.append(self.bases(c)[:])
        res = [c]
        while any(seqs):
            seqs = [s for s in seqs if s]
            for s in seqs:
                cand = s[0]
                if not any(cand in t[1:] for t in seqs):
                    break
            else:
                cand = seqs[0][0]  # inconsistent; degrade
            res.append(cand)
            for s in seqs:
                if s and s[0] is cand:
                    del s[0]
        self._mro[c.qualname] = res
        return res

    def external_bases(self, c: ClassInfo) -> set[str]:
        """Base names along the MRO that do not resolve inside the repo."""
        out = set()
        for k in self.mro(c):
            for b in k.base_exprs:
                if not isinstance(self.resolve_expr(k.module, b), ClassInfo):
                    out.add(norm(b))
        return out

    def is_subclass(self, c: ClassInfo, qual_or_name: str) -> bool:
        for k in self.mro(c):
            if k.qualname == qual_or_name or k.name == qual_or_name:
                return True
        return False

    def subclasses(self, base: ClassInfo | str) -> list[ClassInfo]:
        name = base if isinstance(base, str) else base.qualname
        return [
            c for c in self.classes.values()
            if any(
                k.qualname == name or k.name == name
                for k in self.mro(c)[1:]
            )
        ]

    def lookup_method(
        self, c: ClassInfo, name: str, after: ClassInfo | None = None,
    ) -> FunctionInfo | None:
        mro = self.mro(c)
        if after is not None and after in mro:
            mro = mro[mro.index(after) + 1:]
        for k in mro:
            if name in k.methods:
                return k.methods[name]
        return None

    def lookup_class_attr(self, c: ClassInfo, name: str) -> ast.AST | None:
        for k in self.mro(c):
            if name in k.class_attrs:
                return k.class_attrs[name]
        return None

    def instance_attrs(
        self, c: ClassInfo, methods: Iterable[str] | None = None,
        inherited: bool = False,
    ) -> dict[str, list[tuple[FunctionInfo, ast.AST]]]:
        """`self.x` attributes assigned (plain/ann/aug) per method."""
        out: dict[str, list[tuple[FunctionInfo, ast.AST]]] = {}
        ks = self.mro(c) if inherited else [c]
        for k in ks:
            for mn, f in k.methods.items():
                if methods is not None and mn not in methods:
                    continue
                for n in ast.walk(f.node):
                    tgts: list[ast.AST] = []
                    if isinstance(n, ast.Assign):
                        tgts = list(n.targets)
                    elif isinstance(n, (ast.AnnAssign, ast.AugAssign)):
                        tgts = [n.target]
                    for t in tgts:
                        for tt in _flatten_targets(t):
                            if (
                                isinstance(tt, ast.Attribute)
                                and isinstance(tt.value, ast.Name)
                                and tt.value.id == 'self'
                            ):
                                out.setdefault(tt.attr, []).append((f, n))
        return out

    def all_functions(self) -> Iterator[FunctionInfo]:
        for m in self.modules.values():
            yield from m.functions.values()
            for c in m.classes.values():
                yield from c.methods.values()

    # ---- callee resolution -----------------------------------------------
    def resolve_call(
        self, call: ast.Call, fn: FunctionInfo,
        cls: ClassInfo | None = None,
        attr_types: dict[str, str] | None = None,
    ) -> FunctionInfo | ClassInfo | None:
        """Resolve the callee of `call` occurring inside `fn`.

        `cls` is the *analysed* class (so self.m() dispatches along its MRO).
        `attr_types` maps `self.<attr>` to a class qualname.
        """
        f = call.func
        cls = cls or fn.cls
        if isinstance(f, ast.Name):
            r = self.resolve_name(fn.module, f.id)
            if isinstance(r, (FunctionInfo, ClassInfo)):
                return r
            return None
        if isinstance(f, ast.Attribute):
            v = f.value
            if isinstance(v, ast.Name) and v.id in ('self', 'cls') and cls:
                return self.lookup_method(cls, f.attr)
            if (
                isinstance(v, ast.Call) and isinstance(v.func, ast.Name)
                and v.func.id == 'super' and fn.cls is not None and cls
            ):
                return self.lookup_method(cls, f.attr, after=fn.cls)
            if (
                attr_types and isinstance(v, ast.Attribute)
                and isinstance(v.value, ast.Name) and v.value.id == 'self'
                and v.attr in attr_types
            ):
                return self.lookup_method(
                    self.cls(attr_types[v.attr]), f.attr,
                )
            r = self.resolve_expr(fn.module, f)
            if isinstance(r, (FunctionInfo, ClassInfo)):
                return r
        return None


def _flatten_targets(t: ast.AST) -> Iterator[ast.AST]:
    if isinstance(t, (ast.Tuple, ast.List)):
        for e in t.elts:
            yield from _flatten_targets(e)
    elif isinstance(t, ast.Starred):
        yield from _flatten_targets(t.value)
    elif isinstance(t, ast.Subscript):
        # self.x[i] = ... counts as a write of self.x
        yield t.value
        yield t
    else:
        yield t


# ---- small AST helpers used everywhere ------------------------------------

def is_self_attr(e: ast.AST, attr: str | None = None, obj: str = 'self') -> bool:
    return (
        isinstance(e, ast.Attribute) and isinstance(e.value, ast.Name)
        and e.value.id == obj and (attr is None or e.attr == attr)
    )


def call_name(c: ast.AST) -> str:
    """Dotted text of a call's callee ('' if not a call)."""
    if not isinstance(c, ast.Call):
        return ''
    return norm(c.func)


def names_in(e: ast.AST) -> set[str]:
    return {n.id for n in ast.walk(e) if isinstance(n, ast.Name)}


def attrs_of(e: ast.AST, obj: str = 'self') -> set[str]:
    """Attributes `obj.X` mentioned anywhere inside e."""
    return {
        n.attr for n in ast.walk(e)
        if isinstance(n, ast.Attribute) and isinstance(n.value, ast.Name)
        and n.value.id == obj
    }


def walk_no_nested(node: ast.AST) -> Iterator[ast.AST]:
    """ast.walk that does not descend into nested function/class defs."""
    todo = [node]
    first = True
    while todo:
        n = todo.pop()
        if not first and isinstance(
            n, (ast.FunctionDef, ast.AsyncFunctionDef, ast.ClassDef,
                ast.Lambda),
        ):
            continue
        first = False
        yield n
        todo.extend(ast.iter_child_nodes(n))


def calls_in(node: ast.AST) -> list[ast.Call]:
    return [n for n in ast.walk(node) if isinstance(n, ast.Call)]
