"""Command line: ./check Cxx [--tier quick|thorough] [--replay path]
                  ./check --setup | --all | --selftest [Cxx ...]

Exit status: 0 held (or only known findings), 1 violation, 2 analysis error.
"""
from __future__ import annotations

import argparse
import importlib
import json
import os
import sys
import time
import traceback

from .engine import Ctx
from .report import Report
from .report import finish
from .source import AnalysisError

PROPS = [f'C{i:02d}' for i in range(1, 21)]


def run_property(
    pid: str, tier: str, root: str = '/repo',
    overlay: dict[str, str] | None = None,
) -> Report:
    mod = importlib.import_module(f'sa.props.{pid}')
    ctx = Ctx(root, overlay, tier)
    rep = Report(pid, tier)
    mod.run(ctx, rep)
    rep.extra.setdefault('files_consulted', len(ctx.src.consulted))
    rep.extra.setdefault('source_digest', ctx.src.digest())
    return rep


def main(argv: list[str] | None = None) -> int:
    ap = argparse.ArgumentParser(prog='check')
    ap.add_argument('props', nargs='*')
    ap.add_argument('--tier', default=os.environ.get('VERIF_TIER', 'quick'))
    ap.add_argument('--replay')
    ap.add_argument('--setup', action='store_true')
    ap.add_argument('--all', action='store_true')
    ap.add_argument('--selftest', action='store_true')
    ap.add_argument('--root', default=os.environ.get('VERIF_REPO', '/repo'))
    ap.add_argument('--no-evidence', action='store_true')
    ap.add_argument('--jobs', type=int, default=16)
    a = ap.parse_args(argv)
    if a.tier not in ('quick', 'thorough'):
        a.tier = 'quick'
    try:
        seed = int(os.environ.get('VERIF_SEED', '0'))
    except ValueError:
        seed = 0

    if a.setup:
        return setup(a.root)
    if a.selftest:
        from . import selftest
        return selftest.main(a.props or PROPS, a.root, a.jobs)
    props = PROPS if a.all else a.props
    if not props:
        ap.print_usage()
        return 2
    status = 0
    for pid in props:
        if pid not in PROPS:
            print(f'ANALYSIS-ERROR: unknown property {pid}')
            return 2
        try:
            rep = run_property(pid, a.tier, a.root)
            if a.tier == 'thorough' and not a.replay:
                try:
                    from . import selftest
                    selftest.attach(pid, rep, a.root, a.jobs)
                    _attach_sweeps(pid, rep, a.root)
                except Exception as e:  # self-test never decides a verdict
                    rep.observe(f'self-test could not run: {e!r}')
            if a.replay:
                st = replay(rep, a.replay)
            else:
                st = finish(rep, seed, write=not a.no_evidence)
        except AnalysisError as e:
            print(f'ANALYSIS-ERROR: property={pid} {e}')
            st = 2
        except Exception:
            print(f'ANALYSIS-ERROR: property={pid} internal error')
            traceback.print_exc(file=sys.stdout)
            st = 2
        status = max(status, st)
    return status


def _attach_sweeps(pid: str, rep: Report, root: str) -> None:
    """Thorough tier: the whole-tree behaviour-preserving transformations
    of tools/neutral_sweep.py; the property's check must stay silent on each
    (recorded in the evidence, never a verdict about the property)."""
    tools = os.path.join(os.path.dirname(os.path.dirname(
        os.path.abspath(__file__))), 'tools')
    if tools not in sys.path:
        sys.path.insert(0, tools)
    import neutral_sweep  # type: ignore
    neutral_sweep.ROOT = root
    out = {}
    for kind in ('unparse', 'logging', 'rename', 'hoist', 'flip', 'annot',
                 'swap', 'guard'):
        ov = neutral_sweep.overlay(kind)
        _pid, outcome, info = neutral_sweep.run_one((pid, ov))
        out[kind] = outcome if outcome == 'silent' else f'{outcome}: {info}'
    rep.extra['neutral_sweeps'] = out
    noisy = {k: v for k, v in out.items() if v != 'silent'}
    if noisy:
        rep.observe('neutral sweeps that raised an alarm (checker weakness, '
                    f'not a property violation): {noisy}')


def replay(rep: Report, path: str) -> int:
    with open(path) as f:
        want = json.load(f)
    hits = [o for o in rep.violations() if o.key == want['key']]
    if not hits:
        print(f'replay: {want["key"]} no longer violated on the current tree')
        return 0
    o = hits[0]
    print(f'VIOLATION property={rep.pid} replay={path}')
    print(f'  {o.file}:{o.line} {o.rule} {o.construct}: {o.what}')
    if o.detail:
        print('    ' + o.detail.replace('\n', '\n    '))
    return 1


def setup(root: str) -> int:
    t0 = time.time()
    try:
        ctx = Ctx(root)
        nfun = sum(1 for _ in ctx.index.all_functions())
        from . import unit
        unit.run()
    except AnalysisError as e:
        print(f'ANALYSIS-ERROR: setup {e}')
        return 2
    except Exception:
        print('ANALYSIS-ERROR: setup internal error')
        traceback.print_exc(file=sys.stdout)
        return 2
    print(
        f'setup ok: python {sys.version.split()[0]}, '
        f'{len(ctx.index.modules)} modules, {len(ctx.index.classes)} '
        f'classes, {nfun} functions parsed in {time.time() - t0:.2f}s; '
        'engine unit tests passed',
    )
    return 0


if __name__ == '__main__':
    sys.exit(main())
