"""Statement-level control-flow graph and path patterns (DESIGN 2.3, 2.6).

One node per simple statement; compound statements contribute a header node
(`if`/`while` test, `for` iteration, `with` items) and their bodies.  Exception
edges go from every node inside a `try` body to each of its handlers (sound
over-approximation).  Paths are decided by "block some nodes/edges, then ask
reachability", which is exact for MUST / PRECEDES / RESPONSE / GUARDED on a
finite graph.
"""
from __future__ import annotations

import ast
from typing import Callable
from typing import Iterable

from .source import AnalysisError
from .source import norm

NodePred = Callable[['Node'], bool]


class Node:
    __slots__ = ('id', 'stmt', 'kind', 'handler', 'loop_depth')

    def __init__(self, id: int, stmt: ast.AST | None, kind: str) -> None:
        self.id = id
        self.stmt = stmt
        self.kind = kind  # entry exit raise stmt test for with except try
        self.handler: ast.ExceptHandler | None = None
        self.loop_depth = 0

    @property
    def lineno(self) -> int:
        return getattr(self.stmt, 'lineno', 0)

    def exprs(self) -> list[ast.AST]:
        """The expressions evaluated *at* this node (not in nested bodies)."""
        s = self.stmt
        if s is None:
            return []
        if self.kind == 'test':
            return [s.test]  # type: ignore[attr-defined]
        if self.kind == 'for':
            return [s.iter, s.target]  # type: ignore[attr-defined]
        if self.kind == 'with':
            out: list[ast.AST] = []
            for it in s.items:  # type: ignore[attr-defined]
                out.append(it.context_expr)
                if it.optional_vars is not None:
                    out.append(it.optional_vars)
            return out
        if self.kind == 'except':
            return [s.type] if getattr(s, 'type', None) is not None else []
        if self.kind in ('try', 'entry', 'exit', 'raise'):
            return []
        if isinstance(
            s, (ast.FunctionDef, ast.AsyncFunctionDef, ast.ClassDef),
        ):
            return []
        return [s]

    def walk(self) -> Iterable[ast.AST]:
        for e in self.exprs():
            yield from _walk_shallow(e)

    def calls(self) -> list[ast.Call]:
        return [n for n in self.walk() if isinstance(n, ast.Call)]

    def text(self) -> str:
        if self.kind in ('entry', 'exit', 'raise'):
            return f'<{self.kind}>'
        if self.kind == 'test':
            kw = 'while' if isinstance(self.stmt, ast.While) else 'if'
            return f'{kw} {norm(self.stmt.test)}'  # type: ignore
        if self.kind == 'for':
            return (
                f'for {norm(self.stmt.target)} in '  # type: ignore
                f'{norm(self.stmt.iter)}'  # type: ignore
            )
        if self.kind == 'with':
            return 'with ' + ', '.join(norm(e) for e in self.exprs()[:1])
        if self.kind == 'except':
            return 'except ' + (norm(self.exprs()[0]) if self.exprs() else '')
        if self.kind == 'try':
            return 'try'
        return norm(self.stmt)  # type: ignore[arg-type]

    def __repr__(self) -> str:
        return f'<{self.id}:{self.lineno}:{self.text()[:40]}>'


def _walk_shallow(e: ast.AST) -> Iterable[ast.AST]:
    """Walk without entering lambdas / nested defs (their bodies run later)."""
    todo = [e]
    while todo:
        n = todo.pop()
        yield n
        for c in ast.iter_child_nodes(n):
            if isinstance(
                c, (ast.Lambda, ast.FunctionDef, ast.AsyncFunctionDef,
                    ast.ClassDef),
            ):
                continue
            todo.append(c)


_BROAD = {'Exception', 'BaseException'}


class _Ctx:
    def __init__(self) -> None:
        self.loops: list[tuple[int, list[tuple[int, str]]]] = []
        # try frames: (handler entry nodes, catches_all, finally_body|None)
        self.tries: list[tuple[list[int], bool, list[ast.stmt] | None]] = []
        self.loop_depth = 0


class CFG:
    def __init__(self, fn_node: ast.AST, body: list[ast.stmt] | None = None):
        self.fn_node = fn_node
        self.nodes: list[Node] = []
        self.succ: dict[int, list[tuple[int, str]]] = {}
        self.pred: dict[int, list[tuple[int, str]]] = {}
        self.entry = self._new(None, 'entry').id
        self.exit = self._new(None, 'exit').id
        self.raise_exit = self._new(None, 'raise').id
        self._ctx = _Ctx()
        if body is None:
            body = fn_node.body  # type: ignore[attr-defined]
        pend = self._seq(body, [(self.entry, 'next')])
        self._connect(pend, self.exit)
        self._by_stmt: dict[int, list[Node]] = {}
        for n in self.nodes:
            if n.stmt is not None:
                self._by_stmt.setdefault(id(n.stmt), []).append(n)

    # ---- construction ----------------------------------------------------
    def _new(self, stmt: ast.AST | None, kind: str) -> Node:
        n = Node(len(self.nodes), stmt, kind)
        self.nodes.append(n)
        self.succ[n.id] = []
        self.pred[n.id] = []
        if hasattr(self, '_ctx'):
            n.loop_depth = self._ctx.loop_depth
        return n

    def _edge(self, a: int, b: int, label: str) -> None:
        if (b, label) not in self.succ[a]:
            self.succ[a].append((b, label))
            self.pred[b].append((a, label))

    def _connect(self, pend: list[tuple[int, str]], b: int) -> None:
        for a, lab in pend:
            self._edge(a, b, lab)

    def _exc_edges(self, n: int) -> None:
        """Node n may raise: edge to the handlers of enclosing tries."""
        for handlers, catches_all, _fin in reversed(self._ctx.tries):
            for h in handlers:
                self._edge(n, h, 'exc')
            if catches_all:
                return
        # uncaught exceptions of ordinary statements are not modelled as
        # edges to raise_exit (explicit `raise` is): see DESIGN 2.6.

    def _abrupt(self, src: int, lab: str, target: int, upto: int = 0) -> None:
        """Route an abrupt exit (return/break/continue/raise) through the
        finally bodies of try frames above index `upto`, then to target."""
        pend = [(src, lab)]
        for _h, _c, fin in reversed(self._ctx.tries[upto:]):
            if fin:
                saved = self._ctx.tries
                self._ctx.tries = []  # finally runs outside its own try
                pend = self._seq(fin, pend)
                self._ctx.tries = saved
        self._connect(pend, target)

    def _seq(
        self, stmts: list[ast.stmt], pend: list[tuple[int, str]],
    ) -> list[tuple[int, str]]:
        for s in stmts:
            if not pend:
                break  # unreachable code
            pend = self._stmt(s, pend)
        return pend

    def _stmt(
        self, s: ast.stmt, pend: list[tuple[int, str]],
    ) -> list[tuple[int, str]]:
        c = self._ctx
        if isinstance(s, ast.If):
            t = self._new(s, 'test')
            self._connect(pend, t.id)
            self._exc_edges(t.id)
            a = self._seq(s.body, [(t.id, 'true')])
            b = self._seq(s.orelse, [(t.id, 'false')])
            return a + b
        if isinstance(s, ast.While):
            t = self._new(s, 'test')
            self._connect(pend, t.id)
            self._exc_edges(t.id)
            brk: list[tuple[int, str]] = []
            c.loops.append((t.id, brk))
            c.loop_depth += 1
            body = self._seq(s.body, [(t.id, 'true')])
            c.loop_depth -= 1
            c.loops.pop()
            self._connect(body, t.id)
            const_true = (
                isinstance(s.test, ast.Constant) and bool(s.test.value)
            )
            out = [] if const_true else self._seq(s.orelse, [(t.id, 'false')])
            return out + brk
        if isinstance(s, (ast.For, ast.AsyncFor)):
            t = self._new(s, 'for')
            self._connect(pend, t.id)
            self._exc_edges(t.id)
            brk = []
            c.loops.append((t.id, brk))
            c.loop_depth += 1
            body = self._seq(s.body, [(t.id, 'iter')])
            c.loop_depth -= 1
            c.loops.pop()
            self._connect(body, t.id)
            out = self._seq(s.orelse, [(t.id, 'done')])
            return out + brk
        if isinstance(s, (ast.With, ast.AsyncWith)):
            t = self._new(s, 'with')
            self._connect(pend, t.id)
            self._exc_edges(t.id)
            return self._seq(s.body, [(t.id, 'next')])
        if isinstance(s, ast.Try) or s.__class__.__name__ == 'TryStar':
            return self._try(s, pend)  # type: ignore[arg-type]
        if s.__class__.__name__ == 'Match':
            raise AnalysisError('match statement not supported by the CFG')
        n = self._new(s, 'stmt')
        self._connect(pend, n.id)
        if isinstance(s, ast.Return):
            self._exc_edges(n.id)
            self._abrupt(n.id, 'return', self.exit)
            return []
        if isinstance(s, ast.Raise):
            self._raise_from(n.id)
            return []
        if isinstance(s, ast.Break):
            if not c.loops:
                raise AnalysisError('break outside loop')
            # finally bodies between here and the loop are rare: ignore depth
            c.loops[-1][1].append((n.id, 'break'))
            return []
        if isinstance(s, ast.Continue):
            if not c.loops:
                raise AnalysisError('continue outside loop')
            self._edge(n.id, c.loops[-1][0], 'continue')
            return []
        if isinstance(s, ast.Assert):
            self._raise_from(n.id, label='assert-fail')
            return [(n.id, 'next')]
        self._exc_edges(n.id)
        return [(n.id, 'next')]

    def _raise_from(self, nid: int, label: str = 'raise') -> None:
        """Explicit raise: to the nearest handlers, else RAISE-EXIT."""
        c = self._ctx
        caught = False
        for i in range(len(c.tries) - 1, -1, -1):
            handlers, catches_all, _fin = c.tries[i]
            for h in handlers:
                self._edge(nid, h, 'exc')
            if handlers and catches_all:
                caught = True
                break
        if not caught:
            self._abrupt(nid, label, self.raise_exit)

    def _try(
        self, s: ast.Try, pend: list[tuple[int, str]],
    ) -> list[tuple[int, str]]:
        c = self._ctx
        t = self._new(s, 'try')
        self._connect(pend, t.id)
        hnodes = []
        catches_all = False
        for h in s.handlers:
            hn = self._new(h, 'except')
            hn.handler = h
            hnodes.append(hn)
            names = handler_names(h)
            if not names or names & _BROAD:
                catches_all = True
        fin = s.finalbody or None
        c.tries.append(([h.id for h in hnodes], catches_all, fin))
        body = self._seq(s.body, [(t.id, 'next')])
        c.tries.pop()
        # handlers and else run under the finally only
        c.tries.append(([], False, fin))
        body = self._seq(s.orelse, body)
        outs = list(body)
        for hn in hnodes:
            outs += self._seq(hn.stmt.body, [(hn.id, 'next')])  # type: ignore
        c.tries.pop()
        if fin:
            outs = self._seq(fin, outs)
            if not hnodes or not catches_all:
                # an exception passing through: finally, then propagate
                # (modelled from the try header so the finally body is
                # on an exceptional path too)
                pass
        return outs

    # ---- lookups ---------------------------------------------------------
    def nodes_of(self, stmt: ast.AST) -> list[Node]:
        return self._by_stmt.get(id(stmt), [])

    def where(self, pred: NodePred) -> list[Node]:
        return [n for n in self.nodes if pred(n)]

    def node_containing(self, sub: ast.AST) -> Node | None:
        """The CFG node whose evaluated expressions contain AST `sub`."""
        for n in self.nodes:
            for x in n.walk():
                if x is sub:
                    return n
        return None

    # ---- reachability ----------------------------------------------------
    def reach(
        self, starts: Iterable[int], blocked: Iterable[int] = (),
        blocked_edges: Iterable[tuple[int, str]] = (),
        labels_off: Iterable[str] = (),
        include_starts: bool = True,
    ) -> set[int]:
        blk = set(blocked)
        be = set(blocked_edges)
        off = set(labels_off)
        seen: set[int] = set()
        todo = []
        for s in starts:
            if include_starts:
                if s not in blk:
                    todo.append(s)
            else:
                for b, lab in self.succ[s]:
                    if (s, lab) in be or lab in off or b in blk:
                        continue
                    todo.append(b)
        while todo:
            a = todo.pop()
            if a in seen:
                continue
            seen.add(a)
            for b, lab in self.succ[a]:
                if (a, lab) in be or lab in off or b in blk or b in seen:
                    continue
                todo.append(b)
        return seen

    def ids(self, pred: NodePred) -> set[int]:
        return {n.id for n in self.nodes if pred(n)}

    # ---- path patterns -----------------------------------------------------
    def must(
        self, pred: NodePred, start: int | None = None,
        ends: Iterable[int] | None = None, labels_off: Iterable[str] = (),
    ) -> bool:
        """Every path start→ends passes a node satisfying pred."""
        start = self.entry if start is None else start
        ends = {self.exit} if ends is None else set(ends)
        r = self.reach([start], blocked=self.ids(pred), labels_off=labels_off)
        return not (r & ends)

    def witness(
        self, start: int, ends: set[int], blocked: set[int],
        labels_off: Iterable[str] = (), include_start: bool = True,
    ) -> list[Node]:
        """A shortest path start→ends avoiding blocked (for diagnostics)."""
        from collections import deque
        off = set(labels_off)
        prev: dict[int, int | None] = {}
        dq: deque[int] = deque()
        if include_start:
            prev[start] = None
            dq.append(start)
        else:
            for b, lab in self.succ[start]:
                if lab not in off and b not in blocked and b not in prev:
                    prev[b] = None
                    dq.append(b)
        while dq:
            a = dq.popleft()
            if a in ends:
                path = []
                cur: int | None = a
                while cur is not None:
                    path.append(self.nodes[cur])
                    cur = prev[cur]
                return path[::-1]
            for b, lab in self.succ[a]:
                if lab in off or b in blocked or b in prev:
                    continue
                prev[b] = a
                dq.append(b)
        return []

    def response(
        self, a: NodePred, b: NodePred, ends: Iterable[int] | None = None,
        labels_off: Iterable[str] = (),
    ) -> list[Node]:
        """A nodes from which some path reaches `ends` without passing B."""
        ends = {self.exit} if ends is None else set(ends)
        bad = []
        bids = self.ids(b)
        for n in self.where(a):
            if n.id in bids:
                continue
            r = self.reach(
                [n.id], blocked=bids, labels_off=labels_off,
                include_starts=False,
            )
            if r & ends:
                bad.append(n)
        return bad

    def precedes(self, a: NodePred, b: NodePred) -> list[Node]:
        """B nodes reachable from ENTRY without passing an A node."""
        r = self.reach([self.entry], blocked=self.ids(a))
        return [n for n in self.where(b) if n.id in r and not a(n)]

    def edge_dominates(self, test: int, label: str, n: int) -> bool:
        """Every path ENTRY→n takes edge (test,label)."""
        r = self.reach([self.entry], blocked_edges=[(test, label)])
        return n not in r

    def guards_of(self, n: int) -> list[tuple[Node, str]]:
        """All (test node, label) edges that dominate node n."""
        out = []
        for t in self.nodes:
            if t.kind not in ('test', 'for'):
                continue
            labs = {lab for _b, lab in self.succ[t.id]}
            for lab in labs:
                if lab in ('true', 'false', 'iter', 'done'):
                    if self.edge_dominates(t.id, lab, n):
                        out.append((t, lab))
        return out

    def in_loop_body(self, loop: Node) -> set[int]:
        """Node ids of the (nested) body statements of loop header `loop`."""
        inside: set[int] = set()
        for st in loop.stmt.body:  # type: ignore[union-attr]
            for x in ast.walk(st):
                inside.add(id(x))
        return {
            n.id for n in self.nodes
            if n.stmt is not None and id(n.stmt) in inside
        }


def handler_names(h: ast.ExceptHandler) -> set[str]:
    if h.type is None:
        return set()
    t = h.type
    elts = t.elts if isinstance(t, ast.Tuple) else [t]
    out = set()
    for e in elts:
        s = norm(e)
        out.add(s.rsplit('.', 1)[-1])
    return out


def build(fn_node: ast.AST, body: list[ast.stmt] | None = None) -> CFG:
    return CFG(fn_node, body)


# ---- structural helpers on the AST (no CFG needed) -------------------------

def enclosing_chain(root: ast.AST, target: ast.AST) -> list[ast.AST]:
    """Ancestors of `target` under `root`, outermost first (excl. target)."""
    path: list[ast.AST] = []

    def rec(n: ast.AST) -> bool:
        if n is target:
            return True
        for c in ast.iter_child_nodes(n):
            path.append(n)
            if rec(c):
                return True
            path.pop()
        return False
    rec(root)
    return path
