"""Rename-invariance: map the local names of an analysed function back to
the reference names (DESIGN 8.6).

Many rule instances are anchored on the names of local variables of the
pinned tree (`best_swap`, `points_and_ops`, ...).  A consistent renaming of
locals leaves behaviour unchanged and must not raise an alarm.  Before any
rule runs, every function is therefore alpha-renamed *back* to the
reference names: the binding sites of the current function are aligned with
the binding sites recorded for the pinned tree (sa/tables/localref.json) by
the shape of the binding statement with all local names blanked, and the
resulting name map - injective per scope - is applied to the AST.  Function
level locals and the variables of each comprehension / lambda are handled
as separate scopes.  A consistent renaming is semantics preserving, so a
real change of behaviour survives it; unmatched names are left alone.
"""
from __future__ import annotations

import ast
import copy
import difflib
import hashlib
import json
import os
from typing import Iterator

TABLE = os.path.join(os.path.dirname(os.path.abspath(__file__)), 'tables',
                     'localref.json')
_ref: dict[str, list[list]] | None = None
NESTED = (ast.ListComp, ast.SetComp, ast.DictComp, ast.GeneratorExp,
          ast.Lambda)


def reference() -> dict[str, list[list]]:
    global _ref
    if _ref is None:
        try:
            with open(TABLE) as f:
                _ref = json.load(f)
        except OSError:
            _ref = {}
    return _ref


def _params(fn: ast.AST) -> set[str]:
    a = fn.args  # type: ignore[attr-defined]
    out = {x.arg for x in a.posonlyargs + a.args + a.kwonlyargs}
    if a.vararg:
        out.add(a.vararg.arg)
    if a.kwarg:
        out.add(a.kwarg.arg)
    return out | {'self', 'cls'}


def _walk_own(fn: ast.AST) -> Iterator[ast.AST]:
    """Pre-order nodes of the function body, not entering nested defs and
    classes (comprehensions and lambdas are entered)."""
    todo = list(ast.iter_child_nodes(fn))
    while todo:
        n = todo.pop(0)
        if isinstance(n, (ast.FunctionDef, ast.AsyncFunctionDef,
                          ast.ClassDef)):
            continue
        yield n
        todo[0:0] = list(ast.iter_child_nodes(n))


def _store_names(t: ast.AST) -> list[str]:
    return [x.id for x in ast.walk(t) if isinstance(x, ast.Name)
            and isinstance(x.ctx, ast.Store)]


def _nested_names(n: ast.AST) -> list[str]:
    if isinstance(n, ast.Lambda):
        return [a.arg for a in n.args.args]
    return [nm for g in n.generators  # type: ignore[attr-defined]
            for nm in _store_names(g.target)]


class _Blank(ast.NodeTransformer):
    def __init__(self, names: set[str]) -> None:
        self.names = names

    def visit_Name(self, n: ast.Name) -> ast.AST:
        if n.id in self.names:
            return ast.Name(id='_', ctx=n.ctx)
        return n

    def visit_arg(self, n: ast.arg) -> ast.AST:
        if n.arg in self.names:
            return ast.arg(arg='_', annotation=None)
        return n


def _shape(node: ast.AST, names: set[str]) -> str:
    c = copy.deepcopy(node)
    if isinstance(c, (ast.For, ast.AsyncFor)):
        c.body, c.orelse = [ast.Pass()], []
    elif isinstance(c, (ast.With, ast.AsyncWith)):
        c.body = [ast.Pass()]
    c = _Blank(names).visit(c)
    try:
        txt = ast.unparse(ast.fix_missing_locations(c))
    except Exception:
        txt = type(node).__name__
    return hashlib.sha1(' '.join(txt.split()).encode()).hexdigest()[:10]


def sites(fn: ast.AST, shapes: bool = True):
    """(function-level sites, nested scopes).

    function-level: [(name, key)] for Assign/AugAssign/AnnAssign/For/With/
    walrus targets, in source order.
    nested: [(node, [names], key)] for every comprehension / lambda.
    """
    params = _params(fn)
    raw: list[tuple[ast.AST, list[str]]] = []
    nested: list[tuple[ast.AST, list[str]]] = []
    for n in _walk_own(fn):
        if isinstance(n, ast.Assign):
            raw.append((n, [x for t in n.targets for x in _store_names(t)]))
        elif isinstance(n, (ast.AnnAssign, ast.AugAssign)):
            raw.append((n, _store_names(n.target)))
        elif isinstance(n, (ast.For, ast.AsyncFor)):
            raw.append((n, _store_names(n.target)))
        elif isinstance(n, (ast.With, ast.AsyncWith)):
            names = [x for it in n.items if it.optional_vars is not None
                     for x in _store_names(it.optional_vars)]
            if names:
                raw.append((n, names))
        elif isinstance(n, ast.NamedExpr):
            raw.append((n, _store_names(n.target)))
        elif isinstance(n, NESTED):
            nested.append((n, _nested_names(n)))
    local = ({nm for _n, names in raw for nm in names} | {
        nm for _n, names in nested for nm in names}) - params
    flevel: list[tuple[str, str]] = []
    for node, names in raw:
        sh = None
        for i, nm in enumerate(names):
            if nm in params:
                continue
            if sh is None:
                sh = _shape(node, local) if shapes else ''
            flevel.append((nm, f'{sh}:{i}'))
    nst = [(node, names, _shape(node, local) if shapes else '')
           for node, names in nested]
    return flevel, nst


def _inject(m: dict[str, str], cur_names: set[str],
            params: set[str]) -> dict[str, str]:
    """Make the map injective and capture free within one scope."""
    out: dict[str, str] = {}
    used: set[str] = set()
    for cn, rn in m.items():
        if rn in params or rn in used:
            continue
        if rn in cur_names and rn != cn and m.get(rn, rn) == rn:
            continue  # would merge with another live name of the scope
        out[cn] = rn
        used.add(rn)
    return {c: r for c, r in out.items() if c != r}


def _align(rk: list[str], ck: list[str]) -> list[tuple[int, int]]:
    sm = difflib.SequenceMatcher(a=rk, b=ck, autojunk=False)
    out = []
    for blk in sm.get_matching_blocks():
        for d in range(blk.size):
            out.append((blk.a + d, blk.b + d))
    return out


class _Apply(ast.NodeTransformer):
    """Rename names of one scope; nested scopes that rebind a name shadow
    it."""

    def __init__(self, m: dict[str, str]) -> None:
        self.m = m

    def visit_Name(self, n: ast.Name) -> ast.AST:
        if n.id in self.m:
            n.id = self.m[n.id]
        return n

    def _nested(self, n: ast.AST) -> ast.AST:
        bound = set(_nested_names(n))
        shadow = {k: v for k, v in self.m.items() if k in bound}
        if not shadow:
            self.generic_visit(n)
            return n
        saved = self.m
        # the first iterable of a comprehension belongs to the outer scope
        if not isinstance(n, ast.Lambda):
            n.generators[0].iter = self.visit(  # type: ignore[attr-defined]
                n.generators[0].iter)
        self.m = {k: v for k, v in saved.items() if k not in bound}
        self.generic_visit(n)
        self.m = saved
        return n

    visit_ListComp = visit_SetComp = visit_DictComp = _nested
    visit_GeneratorExp = visit_Lambda = _nested

    def visit_FunctionDef(self, n: ast.FunctionDef) -> ast.AST:
        # a nested def closes over the outer locals: rename its free uses,
        # not the names it binds itself (its own locals have their own
        # reference entry)
        own = _params(n) | {a for a, _k in sites(n, shapes=False)[0]}
        saved = self.m
        self.m = {k: v for k, v in saved.items() if k not in own}
        if self.m:
            n.body = [self.visit(s) for s in n.body]
        self.m = saved
        return n

    visit_AsyncFunctionDef = visit_FunctionDef  # type: ignore[assignment]

    def visit_ClassDef(self, n: ast.ClassDef) -> ast.AST:
        return n


def _rename_nested(node: ast.AST, m: dict[str, str]) -> None:
    """Rename the bound variables of one comprehension / lambda."""
    if isinstance(node, ast.Lambda):
        for a in node.args.args:
            if a.arg in m:
                a.arg = m[a.arg]
        node.body = _Apply(m).visit(node.body)
        return
    gens = node.generators  # type: ignore[attr-defined]
    for i, g in enumerate(gens):
        g.target = _Apply(m).visit(g.target)
        if i:
            g.iter = _Apply(m).visit(g.iter)
        g.ifs = [_Apply(m).visit(x) for x in g.ifs]
    if isinstance(node, ast.DictComp):
        node.key = _Apply(m).visit(node.key)
        node.value = _Apply(m).visit(node.value)
    else:
        node.elt = _Apply(m).visit(node.elt)  # type: ignore[attr-defined]


def dealpha_function(fn: ast.AST, ref: list) -> bool:
    rf, rn = ref  # [[name, key]...], [[names, key]...]
    f0, n0 = sites(fn, shapes=False)
    if [a for a, _ in f0] == [a for a, _ in rf] and [
        names for _n, names, _k in n0
    ] == [names for names, _k in rn]:
        return False
    params = _params(fn)
    flevel, nested = sites(fn)
    changed = False
    # function level
    votes: dict[str, dict[str, int]] = {}
    for i, j in _align([k for _a, k in rf], [k for _a, k in flevel]):
        votes.setdefault(flevel[j][0], {}).setdefault(rf[i][0], 0)
        votes[flevel[j][0]][rf[i][0]] += 1
    m = {c: max(v.items(), key=lambda kv: kv[1])[0]
         for c, v in votes.items()}
    # A name that the pinned function also has keeps its meaning: only names
    # new to the function are mapped, and only onto reference names that
    # disappeared.  (Two identically shaped initialisations written in the
    # other order are a reordering, not a renaming.)
    ref_names = {a for a, _k in rf}
    cur_all = {a for a, _k in flevel}
    m = {c: r for c, r in m.items()
         if c not in ref_names and r not in cur_all}
    m = _inject(m, cur_all, params)
    if m:
        for st in fn.body:  # type: ignore[attr-defined]
            _Apply(m).visit(st)
        changed = True
    # nested scopes, outermost first (pre-order)
    for i, j in _align([k for _names, k in rn], [k for _n, _a, k in nested]):
        rnames = rn[i][0]
        node, cnames, _k = nested[j]
        # names may have been touched by the function-level pass
        cnames = _nested_names(node)
        if len(rnames) != len(cnames):
            continue
        lm = _inject(dict(zip(cnames, rnames)), set(cnames), set())
        if lm:
            _rename_nested(node, lm)
            changed = True
    return changed


# ---------------------------------------------------------------------------
# Extract-variable invariance (DESIGN 8.7).  A local that the pinned tree
# does not have, that is assigned once by `name = expr`, and that is read
# exactly once - by the statement that immediately follows - is a freshly
# extracted temporary.  It is inlined again before any rule runs, so that
# `x = f(a); g(x)` and `g(f(a))` are the same program to every rule.  Only
# evaluation order *within* the using statement can differ, which no rule
# depends on; every other change of behaviour survives the inlining.
_SIMPLE = (ast.Expr, ast.Assign, ast.AugAssign, ast.AnnAssign, ast.Return,
           ast.Raise, ast.Assert, ast.Delete)


def _headers(st: ast.stmt) -> list[ast.AST]:
    """Expressions evaluated exactly once when control reaches st."""
    if isinstance(st, _SIMPLE):
        return [st]
    if isinstance(st, ast.If):
        return [st.test]
    if isinstance(st, (ast.For, ast.AsyncFor)):
        return [st.iter]
    if isinstance(st, (ast.With, ast.AsyncWith)):
        return [it.context_expr for it in st.items]
    return []


def _loads_outside_deferred(root: ast.AST, name: str) -> list[ast.Name]:
    """Loads of `name` under root that are evaluated when root is, i.e. not
    inside a lambda, comprehension or nested definition."""
    out: list[ast.Name] = []
    todo = [root]
    while todo:
        n = todo.pop()
        if isinstance(n, NESTED + (ast.FunctionDef, ast.AsyncFunctionDef,
                                   ast.ClassDef)) and n is not root:
            continue
        if isinstance(n, ast.Name) and n.id == name and isinstance(
                n.ctx, ast.Load):
            out.append(n)
        todo.extend(ast.iter_child_nodes(n))
    return out


class _Inline(ast.NodeTransformer):
    def __init__(self, target: ast.Name, value: ast.AST) -> None:
        self.target = target
        self.value = value

    def visit_Name(self, n: ast.Name) -> ast.AST:
        return self.value if n is self.target else n


def _blocks(fn: ast.AST) -> Iterator[list[ast.stmt]]:
    todo: list[ast.AST] = [fn]
    while todo:
        n = todo.pop()
        for fld in ('body', 'orelse', 'finalbody'):
            b = getattr(n, fld, None)
            if isinstance(b, list) and b and isinstance(b[0], ast.stmt):
                yield b
                for s in b:
                    if not isinstance(s, (ast.FunctionDef,
                                          ast.AsyncFunctionDef,
                                          ast.ClassDef)):
                        todo.append(s)
        for h in getattr(n, 'handlers', []) or []:
            todo.append(h)
        for c in getattr(n, 'cases', []) or []:
            todo.append(c)


def dehoist_function(fn: ast.AST, known: set[str]) -> int:
    """Inline freshly extracted single-use temporaries; returns how many."""
    params = _params(fn)
    done = 0
    for _round in range(50):
        uses: dict[str, list[int]] = {}
        banned: set[str] = set()
        for n in ast.walk(fn):
            if isinstance(n, ast.Name):
                u = uses.setdefault(n.id, [0, 0])
                u[0 if isinstance(n.ctx, ast.Load) else 1] += 1
            elif isinstance(n, (ast.Global, ast.Nonlocal)):
                banned.update(n.names)
            elif isinstance(n, ast.arg) and n is not fn:
                banned.add(n.arg)
            elif isinstance(n, ast.ExceptHandler) and n.name:
                banned.add(n.name)
        hit = False
        for block in list(_blocks(fn)):
            i = 0
            while i < len(block) - 1:
                st = block[i]
                i += 1
                if not (isinstance(st, ast.Assign) and len(st.targets) == 1
                        and isinstance(st.targets[0], ast.Name)):
                    continue
                nm = st.targets[0].id
                if (nm in known or nm in params or nm in banned
                        or uses.get(nm) != [1, 1]):
                    continue
                if any(isinstance(x, (ast.Yield, ast.YieldFrom, ast.Await,
                                      ast.NamedExpr))
                       for x in ast.walk(st.value)):
                    continue
                nxt = block[i]
                loads = [ld for h in _headers(nxt)
                         for ld in _loads_outside_deferred(h, nm)]
                if len(loads) != 1:
                    continue
                _Inline(loads[0], st.value).visit(nxt)
                i -= 1
                del block[i]
                done += 1
                hit = True
        if not hit:
            break
    return done


class _Canon(ast.NodeTransformer):
    """Branch-order canonical form: `if not X: A else: B` is read as
    `if X: B else: A`, and `if not X: A` as `if X: pass else: A` (both in
    the pinned tree and in any later one), so swapping the arms of a
    conditional, or turning `if X: body` into the guard clause
    `if not X: return` followed by the body, is invisible to the rules: the
    test is always the un-negated condition and the flow graph is the
    same."""

    def visit_If(self, n: ast.If) -> ast.AST:
        self.generic_visit(n)
        while (isinstance(n.test, ast.UnaryOp)
               and isinstance(n.test.op, ast.Not)):
            n.test = n.test.operand
            n.body, n.orelse = (
                n.orelse or [ast.copy_location(ast.Pass(), n)]), n.body
        return n

    def visit_IfExp(self, n: ast.IfExp) -> ast.AST:
        self.generic_visit(n)
        while isinstance(n.test, ast.UnaryOp) and isinstance(
                n.test.op, ast.Not):
            n.test = n.test.operand
            n.body, n.orelse = n.orelse, n.body
        return n

    # Annotations of plain local names carry no behaviour: `x: T = v` is read
    # as `x = v` and a bare `x: T` as nothing.  Attribute targets keep their
    # annotation (C12 reads the container types from Worker.__init__).
    depth = 0

    def _fn(self, n: ast.AST) -> ast.AST:
        self.depth += 1
        self.generic_visit(n)
        self.depth -= 1
        return n

    visit_FunctionDef = visit_AsyncFunctionDef = _fn  # type: ignore

    def visit_ClassDef(self, n: ast.ClassDef) -> ast.AST:
        saved, self.depth = self.depth, 0
        self.generic_visit(n)
        self.depth = saved
        return n

    def visit_Assign(self, n: ast.Assign) -> ast.AST:
        # `a, b = x, y` with plain local names on the left and nothing on
        # the right that the left rebinds is `a = x; b = y`
        self.generic_visit(n)
        if self.depth and len(n.targets) == 1 and isinstance(
                n.targets[0], ast.Tuple) and isinstance(
                    n.value, ast.Tuple) and len(n.targets[0].elts) == len(
                        n.value.elts) and all(isinstance(
                            t, ast.Name) for t in n.targets[0].elts):
            left = {t.id for t in n.targets[0].elts}
            right = {x.id for v in n.value.elts for x in ast.walk(v)
                     if isinstance(x, ast.Name)}
            plain = all(isinstance(v, (ast.Name, ast.Constant, ast.Attribute))
                        for v in n.value.elts)
            if plain and not (left & right) and len(left) == len(
                    n.targets[0].elts):
                return [
                    ast.copy_location(ast.Assign(
                        targets=[t], value=v, type_comment=None), n)
                    for t, v in zip(n.targets[0].elts, n.value.elts)
                ]
        return n

    def visit_AnnAssign(self, n: ast.AnnAssign) -> ast.AST:
        self.generic_visit(n)
        if self.depth and isinstance(n.target, ast.Name):
            if n.value is None:
                return ast.copy_location(ast.Pass(), n)
            return ast.copy_location(
                ast.Assign(targets=[n.target], value=n.value,
                           type_comment=None), n)
        return n


def _collecting_loop(init: ast.stmt, loop: ast.stmt) -> ast.stmt | None:
    """`X = []` directly followed by `for T in I: [if C:] X.append(E)` is
    the list comprehension `X = [E for T in I if C]`; returns that
    assignment (both spellings are read as the comprehension)."""
    if not (isinstance(init, ast.Assign) and len(init.targets) == 1
            and isinstance(init.targets[0], ast.Name)
            and isinstance(init.value, ast.List) and not init.value.elts):
        return None
    if not (isinstance(loop, ast.For) and not loop.orelse and loop.body):
        return None
    x = init.targets[0].id
    conds: list[ast.expr] = []

    def only(block: list[ast.stmt], kind: type) -> bool:
        return len(block) == 1 and isinstance(block[0], kind)
    # leading guard clauses: `if C: continue` / `if C: pass else: continue`
    body = list(loop.body)
    while len(body) > 1 and isinstance(body[0], ast.If):
        g = body[0]
        if only(g.body, ast.Continue) and (
                not g.orelse or only(g.orelse, ast.Pass)):
            conds.append(ast.UnaryOp(op=ast.Not(), operand=g.test))
        elif only(g.orelse, ast.Continue) and only(g.body, ast.Pass):
            conds.append(g.test)
        else:
            return None
        body = body[1:]
    if len(body) != 1:
        return None
    st = body[0]
    while isinstance(st, ast.If) and len(st.body) == 1 and (
            not st.orelse or (len(st.orelse) == 1 and isinstance(
                st.orelse[0], ast.Pass))):
        conds.append(st.test)
        st = st.body[0]
    if not (isinstance(st, ast.Expr) and isinstance(st.value, ast.Call)
            and isinstance(st.value.func, ast.Attribute)
            and st.value.func.attr == 'append'
            and isinstance(st.value.func.value, ast.Name)
            and st.value.func.value.id == x and len(st.value.args) == 1
            and not st.value.keywords):
        return None
    used = {n.id for e in [loop.iter] + conds + [st.value.args[0]]
            for n in ast.walk(e) if isinstance(n, ast.Name)}
    if x in used or any(isinstance(n, (ast.Await, ast.Yield, ast.YieldFrom))
                        for e in conds + [st.value.args[0]]
                        for n in ast.walk(e)):
        return None
    comp = ast.ListComp(
        elt=st.value.args[0],
        generators=[ast.comprehension(
            target=loop.target, iter=loop.iter, ifs=conds, is_async=0)])
    out = ast.Assign(targets=[ast.Name(x, ast.Store())], value=comp,
                     type_comment=None)
    return ast.fix_missing_locations(ast.copy_location(out, init))


def _canon_collect(tree: ast.AST) -> None:
    for node in ast.walk(tree):
        for fld in ('body', 'orelse', 'finalbody'):
            b = getattr(node, fld, None)
            if not (isinstance(b, list) and b and isinstance(b[0], ast.stmt)):
                continue
            i = 0
            while i + 1 < len(b):
                new = _collecting_loop(b[i], b[i + 1])
                if new is not None:
                    b[i:i + 2] = [new]
                else:
                    i += 1


def canon(tree: ast.Module) -> None:
    """All program normalisations that do not need the reference table."""
    _Canon().visit(tree)
    _canon_collect(tree)


# ---------------------------------------------------------------------------
# Extract-method invariance (DESIGN 8.8).  A function or method that the
# pinned tree does not have (its qualified name is not in the reference's
# function list) and that is called at statement level - `self._h(...)`,
# `Class._h(...)`, `_h(...)`, alone, as the value of an assignment or of a
# return - is a freshly extracted helper.  If it is simple (no yield, one
# `return` at most, as its last statement) its body is inlined at the call
# again, with `param = argument` bindings in front, so that the caller is the
# same program to every rule as before the extraction.  Inlining preserves
# behaviour, so a genuine change inside the helper is still seen - now in
# the caller, where the rules look.
FUNCS_KEY = '__functions__'


def _simple_helper(fn: ast.AST) -> bool:
    if isinstance(fn, ast.AsyncFunctionDef):
        return False
    if any(norm_dec(d) not in ('staticmethod',) for d in fn.decorator_list):
        return False
    a = fn.args
    if a.vararg or a.kwarg or a.posonlyargs:
        return False
    rets = []
    for n in _walk_own(fn):
        if isinstance(n, (ast.Yield, ast.YieldFrom, ast.Await, ast.Global,
                          ast.Nonlocal)):
            return False
        if isinstance(n, ast.Return):
            rets.append(n)
    if len(rets) > 1:
        return False
    return not rets or fn.body[-1] is rets[0]


def norm_dec(d: ast.AST) -> str:
    try:
        return ast.unparse(d)
    except Exception:
        return '?'


def _call_of(st: ast.stmt) -> ast.Call | None:
    v = getattr(st, 'value', None)
    if isinstance(st, (ast.Expr, ast.Assign, ast.Return)) and isinstance(
            v, ast.Call):
        return v
    return None


def _inline_call(st: ast.stmt, call: ast.Call, fn: ast.AST,
                 is_method: bool) -> list[ast.stmt] | None:
    params = [p.arg for p in fn.args.args]
    static = any(norm_dec(d) == 'staticmethod' for d in fn.decorator_list)
    if is_method and not static:
        params = params[1:]
    defaults = fn.args.defaults
    dmap = dict(zip(params[len(params) - len(defaults):], defaults))
    for k, d in zip(fn.args.kwonlyargs, fn.args.kw_defaults):
        params.append(k.arg)
        if d is not None:
            dmap[k.arg] = d
    if any(isinstance(a, ast.Starred) for a in call.args) or any(
            k.arg is None for k in call.keywords):
        return None
    bound: dict[str, ast.AST] = {}
    pos = [p.arg for p in fn.args.args]
    if is_method and not static:
        pos = pos[1:]
    if len(call.args) > len(pos):
        return None
    for p, a in zip(pos, call.args):
        bound[p] = a
    for k in call.keywords:
        if k.arg not in params or k.arg in bound:
            return None
        bound[k.arg] = k.value
    for p in params:
        if p not in bound:
            if p not in dmap:
                return None
            bound[p] = dmap[p]
    out: list[ast.stmt] = []
    for p in params:
        a = bound[p]
        if isinstance(a, ast.Name) and a.id == p:
            continue
        out.append(ast.Assign(targets=[ast.Name(p, ast.Store())],
                              value=copy.deepcopy(a), type_comment=None))
    body = copy.deepcopy(fn.body)
    if body and isinstance(body[0], ast.Expr) and isinstance(
            body[0].value, ast.Constant) and isinstance(
            body[0].value.value, str):
        body = body[1:]
    ret = None
    if body and isinstance(body[-1], ast.Return):
        ret = body[-1].value
        body = body[:-1]
    out += body
    if isinstance(st, ast.Expr):
        if ret is not None:
            out.append(ast.Expr(value=ret))
    elif isinstance(st, ast.Assign):
        same = ret is not None and len(st.targets) == 1 and (
            norm_dec(st.targets[0]).strip('()') == norm_dec(ret).strip('()'))
        if not same:  # `a, b = (a, b)` after inlining is nothing
            out.append(ast.Assign(
                targets=st.targets, value=ret or ast.Constant(None),
                type_comment=None))
    else:
        out.append(ast.Return(value=ret))
    for s in out:
        ast.copy_location(s, st)
        ast.fix_missing_locations(s)
    return out


def deextract(tree: ast.Module, path: str, ref_funcs: set[str]) -> int:
    if not ref_funcs:
        return 0
    new_mod: dict[str, ast.AST] = {}
    new_meth: dict[tuple[str, str], ast.AST] = {}
    for c in tree.body:
        if isinstance(c, ast.FunctionDef) and (
                f'{path}:{c.name}' not in ref_funcs) and _simple_helper(c):
            new_mod[c.name] = c
        elif isinstance(c, ast.ClassDef):
            for m in c.body:
                if isinstance(m, ast.FunctionDef) and (
                        f'{path}:{c.name}.{m.name}' not in ref_funcs
                ) and _simple_helper(m):
                    new_meth[(c.name, m.name)] = m
    if not new_mod and not new_meth:
        return 0
    done = 0

    def target(call: ast.Call, cls: str | None):
        f = call.func
        if isinstance(f, ast.Name) and f.id in new_mod:
            return new_mod[f.id], False
        if isinstance(f, ast.Attribute) and isinstance(f.value, ast.Name):
            if f.value.id in ('self', 'cls') and cls and (
                    (cls, f.attr) in new_meth):
                return new_meth[(cls, f.attr)], True
            if (f.value.id, f.attr) in new_meth:
                m = new_meth[(f.value.id, f.attr)]
                if any(norm_dec(d) == 'staticmethod'
                       for d in m.decorator_list):
                    return m, True
        return None, False

    def walk(node: ast.AST, cls: str | None, depth: int) -> None:
        nonlocal done
        for c in ast.iter_child_nodes(node):
            if isinstance(c, ast.ClassDef):
                walk(c, c.name, depth)
                continue
            for fld in ('body', 'orelse', 'finalbody'):
                b = getattr(c, fld, None)
                if not (isinstance(b, list) and b
                        and isinstance(b[0], ast.stmt)):
                    continue
                i = 0
                while i < len(b) and done < 200:
                    call = _call_of(b[i])
                    fn, is_m = target(call, cls) if call else (None, False)
                    if fn is not None and fn is not c:
                        new = _inline_call(b[i], call, fn, is_m)
                        if new is not None:
                            b[i:i + 1] = new
                            done += 1
                            continue
                    i += 1
            walk(c, cls, depth + 1)
    walk(tree, None, 0)
    return done


def apply(tree: ast.Module, path: str) -> int:
    """De-alpha every function of a parsed module in place; returns the
    number of functions whose locals were renamed or re-inlined."""
    canon(tree)
    ref = reference()
    if not ref:
        return 0
    deextract(tree, path, set(ref.get(FUNCS_KEY, [])))  # type: ignore
    n = 0

    def visit(node: ast.AST, prefix: str) -> None:
        nonlocal n
        for c in ast.iter_child_nodes(node):
            if isinstance(c, ast.ClassDef):
                visit(c, f'{prefix}{c.name}.')
            elif isinstance(c, (ast.FunctionDef, ast.AsyncFunctionDef)):
                r = ref.get(f'{path}:{prefix}{c.name}')
                known = set()
                if r:
                    known = {a for a, _k in r[0]} | {
                        x for names, _k in r[1] for x in names}
                # names first (a renamed reference local must be recognised
                # as known), then re-inline what is still unknown
                touched = bool(r and dealpha_function(c, r))
                if dehoist_function(c, known):
                    touched = True
                    # a collecting loop whose body was `t = e; x.append(t)`
                    # is a plain collecting loop only now
                    _canon_collect(c)
                n += touched
                visit(c, f'{prefix}{c.name}.')
    visit(tree, '')
    return n


def build_table(root: str = '/repo') -> dict[str, list]:
    out: dict[str, list] = {}
    funcs: list[str] = []
    for dp, dn, fn in os.walk(os.path.join(root, 'bqskit')):
        dn[:] = sorted(d for d in dn if d != '__pycache__')
        for f in sorted(fn):
            if not f.endswith('.py'):
                continue
            p = os.path.join(dp, f)
            rel = os.path.relpath(p, root)
            tree = ast.parse(open(p, encoding='utf-8').read())
            canon(tree)

            def visit(node: ast.AST, prefix: str) -> None:
                for c in ast.iter_child_nodes(node):
                    if isinstance(c, ast.ClassDef):
                        visit(c, f'{prefix}{c.name}.')
                    elif isinstance(
                        c, (ast.FunctionDef, ast.AsyncFunctionDef),
                    ):
                        fl, ns = sites(c)
                        funcs.append(f'{rel}:{prefix}{c.name}')
                        if fl or ns:
                            out[f'{rel}:{prefix}{c.name}'] = [
                                [[a, b] for a, b in fl],
                                [[names, k] for _n, names, k in ns],
                            ]
                        visit(c, f'{prefix}{c.name}.')
            visit(tree, '')
    out[FUNCS_KEY] = sorted(funcs)  # type: ignore[assignment]
    return out


if __name__ == '__main__':
    t = build_table()
    os.makedirs(os.path.dirname(TABLE), exist_ok=True)
    with open(TABLE, 'w') as f:
        json.dump(t, f, separators=(',', ':'), sort_keys=True)
    print(f'{len(t)} functions, {os.path.getsize(TABLE)} bytes')
