"""C13 — Task failures reach their client; no client request takes the
server down.

Decided statically (DESIGN 4/C13):
  KEYGUARD  every table access in the server's handlers whose key comes
            from outside the node is justified by a dominating membership
            guard, a defaulting form, or a listed table invariant
  OWNER     client-keyed handlers check that the task belongs to the caller
  MUST      the error chain: worker -> (managers) -> server -> owning client
            -> exception in the client API; exceptions in the server loop
            shut the node down
  PROTO     every client request kind has a branch (shared with C07)
  FRESH     server mailbox ids come from a monotone counter
"""
from __future__ import annotations

import ast

from ..engine import Ctx
from ..report import Report
from ..rules import q
from ..rules import runtime as R
from ..rules import valnum
from ..rules.fresh import rule_fresh
from ..source import AnalysisError
from ..source import FunctionInfo
from ..source import norm

TABLES = ('clients', 'tasks', 'mailboxes', 'mailbox_to_task_dict',
          'conn_to_employee_dict')

# Table invariants of DetachedServer (asserted; one line of reason each).
#  I1  t in clients[c]      => t in tasks and tasks[t][0] in mailboxes
#      (handle_new_comp_task inserts all three together; every removal of a
#       mailbox removes t from its client's set in the same block)
#  I2  m in mailboxes       => m in mailbox_to_task_dict, its task in tasks,
#      the task's connection in clients and the task in that client's set
#      (tasks / mailbox_to_task_dict only lose entries in handle_disconnect,
#       after every task of the client was cancelled)
#  I3  x in mailbox_to_task_dict => mailbox_to_task_dict[x] in tasks
#  I4  the connection of a CLIENT-direction message is registered in clients
#  I8  the connection of a BELOW-direction message is an employee's


def run(ctx: Ctx, rep: Report) -> None:
    rep.explanation = (
        'Static clauses of C13: in DetachedServer every subscript / pop / '
        'remove on the client, task and mailbox tables is justified by a '
        'dominating membership guard, a defaulting form or a listed table '
        'invariant (KEYGUARD); client-keyed handlers check ownership '
        '(OWNER); the error chain worker -> server -> owning client -> '
        'exception is present on every relevant path and exceptions in the '
        'server loop end in a shutdown (MUST). Multi-client interleavings '
        'are not enumerated; invariants I1-I8 are asserted, their '
        'same-block maintenance is checked.'
    )
    rep.assumptions += [
        'table invariants I1-I4, I8 listed at the top of sa/props/C13.py',
        'messages on a client connection arrive only while it is registered',
    ]
    det = ctx.cls(R.DET)
    keyguard(ctx, rep, det)
    owner(ctx, rep, det)
    maintenance(ctx, rep, det)
    error_chain(ctx, rep)
    client_kinds(ctx, rep)
    # one client's late RESULT / ERROR must never land in another client's
    # mailbox: mailbox ids are never reused
    rule_fresh(
        ctx, rep, R.DET, '_get_new_mailbox_id', 'self.mailbox_counter', None,
        'a message for a finished or cancelled compilation must not be '
        'attributed to another client\'s newer compilation', also=(R.ATT,),
    )


# ---------------------------------------------------------------------------
def _canon(ctx: Ctx, f: FunctionInfo, at, e: ast.AST) -> str:
    return norm(valnum.subst(ctx, f, at, e))


def _membership(ctx, f, at, t: ast.AST, polarity: bool) -> set[tuple[str, str]]:
    """Facts (container, key) established when test t evaluates to
    `polarity`."""
    out: set[tuple[str, str]] = set()
    if isinstance(t, ast.UnaryOp) and isinstance(t.op, ast.Not):
        return _membership(ctx, f, at, t.operand, not polarity)
    if isinstance(t, ast.BoolOp):
        conj = isinstance(t.op, ast.And)
        if conj == polarity:
            for v in t.values:
                out |= _membership(ctx, f, at, v, polarity)
        return out
    if isinstance(t, ast.Compare) and len(t.ops) == 1:
        op = t.ops[0]
        if (isinstance(op, ast.In) and polarity) or (
            isinstance(op, ast.NotIn) and not polarity
        ):
            out.add((_canon(ctx, f, at, t.comparators[0]),
                     _canon(ctx, f, at, t.left)))
    return out


def _closure(facts: set[tuple[str, str]]) -> set[tuple[str, str]]:
    facts = set(facts)
    changed = True
    while changed:
        changed = False
        new = set()
        for c, k in facts:
            if c.startswith('self.clients['):
                new.add(('self.tasks', k))
                new.add(('self.mailboxes', f'self.tasks[{k}][0]'))
            if c == 'self.mailboxes':
                new.add(('self.mailbox_to_task_dict', k))
                t = f'self.mailbox_to_task_dict[{k}]'
                new.add(('self.tasks', t))
                new.add(('self.clients', f'self.tasks[{t}][1]'))
                new.add((f'self.clients[self.tasks[{t}][1]]', t))
                # mailbox of task T (k == tasks[T][0]): T's client holds T
                if k.startswith('self.tasks[') and k.endswith('][0]'):
                    T = k[len('self.tasks['):-len('][0]')]
                    new.add(('self.tasks', T))
                    new.add(('self.clients', f'self.tasks[{T}][1]'))
                    new.add((f'self.clients[self.tasks[{T}][1]]', T))
            if c == 'self.mailbox_to_task_dict':
                new.add(('self.tasks', f'self.mailbox_to_task_dict[{k}]'))
        # derived keys nest the originals; three rounds cover every chain
        # used by the handlers, so bound the growth by key length
        new = {(c, k) for c, k in new if len(k) < 160 and len(c) < 160}
        if not new <= facts:
            facts |= new
            changed = True
    return facts


def _accesses(f: FunctionInfo):
    """(node, container expr, key expr, form) for raising table accesses."""
    out = []
    stores = set()
    for n in ast.walk(f.node):
        if isinstance(n, (ast.Assign, ast.AugAssign, ast.AnnAssign)):
            ts = n.targets if isinstance(n, ast.Assign) else [n.target]
            for t in ts:
                if isinstance(t, ast.Subscript) and not isinstance(
                    n, ast.AugAssign,
                ):
                    stores.add(id(t))
    for n in ast.walk(f.node):
        if isinstance(n, ast.Subscript) and id(n) not in stores:
            base = n.value
            if _is_table(base):
                out.append((n, base, n.slice, 'subscript'))
        elif isinstance(n, ast.Call) and isinstance(n.func, ast.Attribute):
            base = n.func.value
            if n.func.attr == 'pop' and _is_table(base) and len(n.args) == 1:
                out.append((n, base, n.args[0], 'pop'))
            elif n.func.attr == 'remove' and isinstance(
                base, ast.Subscript,
            ) and _is_table(base.value) and len(n.args) == 1:
                out.append((n, base, n.args[0], 'remove'))
    return out


def _is_table(e: ast.AST) -> bool:
    return isinstance(e, ast.Attribute) and norm(e.value) == 'self' and (
        e.attr in TABLES)


def keyguard(ctx: Ctx, rep: Report, det) -> None:
    K = 'KEYGUARD'
    handlers = {
        'handle_request': 'CLIENT', 'handle_status': 'CLIENT',
        'handle_cancel_comp_task': 'CLIENT', 'handle_disconnect': 'CLIENT',
        'handle_new_comp_task': 'CLIENT', 'handle_result': 'BELOW',
        'handle_error': 'BELOW', 'handle_log': 'BELOW',
        'handle_message': 'BELOW',
    }
    n_acc = 0
    for name, direction in handlers.items():
        f = det.methods.get(name)
        if f is None:
            raise AnalysisError(f'DetachedServer.{name} vanished')
        rep.seen(f.qualname)
        g = ctx.cfg(f)
        bad = []
        for node, base, key, form in _accesses(f):
            at = g.node_containing(node)
            if at is None:
                continue
            n_acc += 1
            rep.count()
            cont = _canon(ctx, f, at, base)
            k = _canon(ctx, f, at, key)
            facts: set[tuple[str, str]] = set()
            for t, lab in g.guards_of(at.id):
                if t.kind == 'test':
                    facts |= _membership(
                        ctx, f, t, t.stmt.test, lab == 'true')
                if t.kind == 'for' and lab == 'iter':
                    facts |= _loop_facts(ctx, f, g, t)
            # short-circuit guards inside the same expression:
            # `k not in T or T[k] ...` / `k in T and T[k] ...`
            facts |= _short_circuit(ctx, f, at, node)
            # I4 / I8: the message's own connection
            if direction == 'CLIENT':
                # I4.  handle_disconnect is also reached for an employee
                # connection (EOF in ServerBase.run); there the base class
                # has already started the shutdown, which is the outcome
                # C14 asks for, so the KeyError that follows is reported
                # as an observation only.
                facts.add(('self.clients', 'conn'))
            if name == 'handle_message':
                facts.add(('self.conn_to_employee_dict', 'conn'))
            facts = _closure(facts)
            ok = (cont, k) in facts
            if not ok:
                bad.append((node, cont, k, form, at))
        by_fn_ok = not bad
        rep.check(
            by_fn_ok, K, f'DetachedServer.{name}', f.path,
            bad[0][0].lineno if bad else f.lineno,
            'every keyed table access is guarded, defaulted or covered by '
            'a table invariant',
            '; '.join(
                f'line {nd.lineno}: `{norm(nd)[:60]}` ({form}) raises '
                f'KeyError when `{k}` is not in `{cont}`; no dominating '
                'membership test covers it'
                for nd, cont, k, form, _at in bad[:4]
            ) + ' - an exception here propagates into ServerBase.run and '
            'shuts the whole runtime down',
        )
    rep.floor(K, n_acc, 18, 'keyed table accesses')
    rep.observe(
        'KEYGUARD: DetachedServer.handle_disconnect does '
        '`self.clients.pop(conn)` unguarded; for an employee connection '
        '(EOF from a crashed worker) this raises KeyError after '
        'ServerBase.handle_disconnect has already begun the shutdown - the '
        'node still shuts down, so it is not counted against C13.'
    )


def _short_circuit(ctx, f, at, node) -> set[tuple[str, str]]:
    """Facts holding at `node` because of earlier operands of an enclosing
    and/or in the same expression."""
    out: set[tuple[str, str]] = set()
    for e in at.exprs():
        for b in ast.walk(e):
            if not isinstance(b, ast.BoolOp):
                continue
            for i, v in enumerate(b.values):
                if any(x is node for x in ast.walk(v)):
                    for prev in b.values[:i]:
                        # `A or B`: B evaluated only if A false
                        out |= _membership(
                            ctx, f, at, prev, isinstance(b.op, ast.And))
    return out


def _loop_facts(ctx, f, g, loop) -> set[tuple[str, str]]:
    """Keys drawn from a table (directly or through a list collected from
    it) are members of it."""
    out: set[tuple[str, str]] = set()
    it = loop.stmt.iter
    tgt = loop.stmt.target
    txt = norm(it)
    if txt == 'self.tasks.items()' and isinstance(tgt, ast.Tuple):
        out.add(('self.tasks', norm(tgt.elts[0])))
        return out
    if isinstance(it, ast.Name):
        defs = [d for d in ctx.rd(f).reaching(loop, it.id)
                if d.value is not None]
        for d in defs:
            v = norm(d.value)
            if v == 'self.clients.pop(conn)' and isinstance(tgt, ast.Name):
                # tasks of a just-removed client: I1 on the old set
                out.add(('self.clients[conn]', tgt.id))
        # list collected by a comprehension over self.tasks.items() (the
        # engine reads the equivalent append loop as this comprehension)
        for d in defs:
            v = d.value
            if not (isinstance(v, ast.ListComp) and len(v.generators) == 1
                    and norm(v.generators[0].iter) == 'self.tasks.items()'
                    and isinstance(v.generators[0].target, ast.Tuple)
                    and isinstance(tgt, ast.Tuple)
                    and isinstance(v.elt, ast.Tuple)
                    and len(v.elt.elts) == len(tgt.elts)):
                continue
            gt = v.generators[0].target
            kname = norm(gt.elts[0])
            vt = gt.elts[1]
            for pos, e in enumerate(v.elt.elts):
                if norm(e) == kname:
                    out.add(('self.tasks', norm(tgt.elts[pos])))
                elif isinstance(vt, ast.Tuple) and norm(e) == norm(
                        vt.elts[0]):
                    out.add(('self.mailbox_to_task_dict',
                             norm(tgt.elts[pos])))
        # list filled only inside a loop over self.tasks.items()
        apps = [n for n in ast.walk(f.node) if isinstance(n, ast.Call)
                and norm(n.func) == f'{it.id}.append']
        if apps and isinstance(tgt, ast.Tuple):
            good = True
            for a in apps:
                lp = _enclosing_for(f.node, a)
                if lp is None or norm(lp.iter) != 'self.tasks.items()':
                    good = False
            if good and isinstance(apps[0].args[0], ast.Tuple):
                lp = _enclosing_for(f.node, apps[0])
                kname = norm(lp.target.elts[0])
                vt = lp.target.elts[1]
                el = apps[0].args[0].elts
                for pos, e in enumerate(el):
                    if norm(e) == kname:
                        out.add(('self.tasks', norm(tgt.elts[pos])))
                    elif isinstance(vt, ast.Tuple) and norm(e) == norm(
                        vt.elts[0],
                    ):
                        # mailbox id of a listed task (I2 converse: both
                        # tables lose entries only here, together)
                        out.add(('self.mailbox_to_task_dict',
                                 norm(tgt.elts[pos])))
    return out


def _enclosing_for(root: ast.AST, target: ast.AST) -> ast.For | None:
    best = None
    for n in ast.walk(root):
        if isinstance(n, ast.For) and any(x is target for x in ast.walk(n)):
            best = n
    return best


# ---------------------------------------------------------------------------
def owner(ctx: Ctx, rep: Report, det) -> None:
    O = 'OWNER'
    for name in ('handle_request', 'handle_status',
                 'handle_cancel_comp_task'):
        f = det.methods[name]
        g = ctx.cfg(f)
        rep.count()
        owns = False
        for t in g.nodes:
            if t.kind != 'test':
                continue
            txt = norm(t.stmt.test)
            if 'request not in self.clients[conn]' in txt or (
                'request in self.clients[conn]' in txt
            ) or 'self.tasks[request][1] != conn' in txt or (
                'self.tasks[request][1] == conn' in txt
            ):
                owns = True
        rep.check(
            owns, O, f'DetachedServer.{name}', f.path, f.lineno,
            'looks the task up relative to the requesting connection',
            'acts on a task id without checking that it belongs to the '
            'requesting client: one client can read or cancel another '
            'client\'s task', key='ownership',
        )
    # the result is shipped only to the connection stored with the task
    f = det.methods['handle_result']
    sends = [s for s in R.sends_in(f, 'DetachedServer')
             if s.kind == 'RESULT' and s.chan in ('s2c', '?')]
    conns = set()
    for c in ast.walk(f.node):
        if isinstance(c, ast.Call) and norm(c.func) == 'self.outgoing.put':
            a = c.args[0]
            if isinstance(a, ast.Name):
                a = R._local_tuple(f, a.id) or a
            if isinstance(a, ast.Tuple) and norm(a.elts[1]) == (
                'RuntimeMessage.RESULT'
            ):
                conns.add(norm(a.elts[0]))
    rep.count()
    rep.check(
        conns == {'self.tasks[t_id][1]'}, O, 'DetachedServer.handle_result',
        f.path, f.lineno, 'a result goes to the connection that submitted '
        'the task', f'a result is sent to {sorted(conns)}', key='result-to',
    )
    _ = sends
    for name in ('handle_error', 'handle_log'):
        f = det.methods[name]
        t = norm(f.node)
        rep.count()
        rep.check(
            'conn = self.tasks[self.mailbox_to_task_dict[tid]][1]' in t, O,
            f'DetachedServer.{name}', f.path, f.lineno,
            'forwarded to the connection that owns the compilation task',
            'not forwarded to the owning client\'s connection',
            key='forward-to',
        )


def maintenance(ctx: Ctx, rep: Report, det) -> None:
    """Same-block maintenance of I1/I2 (COUP)."""
    C = 'COUP'
    # insertion: handle_new_comp_task registers all four together
    f = det.methods['handle_new_comp_task']
    g = ctx.cfg(f)
    need = ['self.tasks[task.task_id]',
            'self.mailbox_to_task_dict[mailbox_id]',
            'self.mailboxes[mailbox_id]']
    for tgt in need:
        rep.count()
        rep.check(
            g.must(lambda n, tgt=tgt: isinstance(n.stmt, ast.Assign)
                   and norm(n.stmt.targets[0]) == tgt), C,
            'DetachedServer.handle_new_comp_task', f.path, f.lineno,
            f'registers `{tgt}`', f'does not register `{tgt}` on every path',
            key=tgt,
        )
    rep.count()
    rep.check(
        g.must(q.has_call('self.clients[conn].add', ['task.task_id'])), C,
        'DetachedServer.handle_new_comp_task', f.path, f.lineno,
        'adds the task to its client\'s set',
        'does not add the task to the client\'s set', key='client-set',
    )
    # removal: every mailboxes.pop is accompanied by removal from the
    # owning client's set (or the set is already gone)
    for name in ('handle_request', 'handle_result',
                 'handle_cancel_comp_task'):
        f = det.methods[name]
        g = ctx.cfg(f)
        pops = [n for n in g.nodes if q.has_call('self.mailboxes.pop')(n)]
        rem = lambda n: any(
            isinstance(c.func, ast.Attribute) and c.func.attr in (
                'remove', 'discard') and norm(c.func.value).startswith(
                'self.clients[') for c in n.calls())
        gone = lambda n: n.kind == 'test' and 'in self.clients' in norm(
            n.stmt.test)
        rep.count()
        ok = bool(pops)
        for p in pops:
            before = [r for r in g.where(rem) if p.id in g.reach(
                [r.id], include_starts=False)]
            after = not g.response(
                lambda n, p=p: n is p, lambda n: rem(n) or gone(n))
            ok = ok and (bool(before) or after)
        rep.check(
            ok, C, f'DetachedServer.{name}', f.path, f.lineno,
            'dropping a mailbox also drops the task from its client\'s set '
            '(keeps invariant I1)',
            'a mailbox is dropped while the task stays in its client\'s '
            'set: a later status/request for it raises KeyError',
            key='mailbox-client',
        )


# ---------------------------------------------------------------------------
def error_chain(ctx: Ctx, rep: Report) -> None:
    M = 'MUST'
    # worker: every non-cancelled exception path sends ERROR(comp_task_id)
    f = ctx.fn(R.WORKER + '._try_step_next_ready_task')
    g = ctx.cfg(f)
    rep.seen(f.qualname)
    hs = [n for n in g.nodes if n.kind == 'except' and norm(
        n.stmt.type) == 'Exception']
    if len(hs) != 1:
        raise AnalysisError('_try_step_next_ready_task: `except Exception` '
                            'handler not found')
    err = [g.node_containing(s.node) for s in R.sends_in(f, 'Worker')
           if s.kind == 'ERROR']
    cancel_ret = [n for n in g.nodes if isinstance(n.stmt, ast.Return)
                  and g.edge_dominates(
                      *[(t.id, 'true') for t in g.nodes if t.kind == 'test'
                        and 'is_descendant_of' in norm(t.stmt.test)][0],
                      n.id)] if [t for t in g.nodes if t.kind == 'test'
                                 and 'is_descendant_of' in norm(
                                     t.stmt.test)] else []
    rep.count()
    ok = len(err) == 1 and g.must(
        lambda n: n is err[0] or n in cancel_ret, start=hs[0].id)
    rep.check(
        ok, M, 'Worker._try_step_next_ready_task', f.path, hs[0].lineno,
        'an exception raised by a task body is reported upward as ERROR '
        'unless the task was cancelled',
        'a path through `except Exception` neither sends ERROR nor is the '
        'cancelled-task early return: the failure is swallowed and the '
        'client waits forever', key='error-sent',
    )
    pay = [s for s in R.sends_in(f, 'Worker') if s.kind == 'ERROR']
    tup = R._local_tuple(f, norm(pay[0].payload)) if pay else None
    rep.count()
    rep.check(
        tup is not None and norm(tup.elts[0]) == (
            'self._active_task.comp_task_id') and 'error_str' in norm(
            tup.elts[1]), M, 'Worker._try_step_next_ready_task:payload',
        f.path, f.lineno,
        'ERROR carries (compilation task id, formatted traceback)',
        'the ERROR payload is not (comp_task_id, traceback text)',
        key='error-payload',
    )
    # the cancelled-task swallow applies to RuntimeError only
    ty = [t for t in g.nodes if t.kind == 'test' and norm(
        t.stmt.test) == 'type(e) is RuntimeError']
    rep.count()
    rep.check(
        len(ty) == 1 and all(g.edge_dominates(ty[0].id, 'true', n.id)
                             for n in cancel_ret) and bool(cancel_ret),
        M, 'Worker._try_step_next_ready_task:swallow', f.path, f.lineno,
        'only the RuntimeError of a cancelled task is swallowed',
        'exceptions other than the cancelled-await RuntimeError can be '
        'swallowed', key='swallow-scope',
    )
    # manager forwards ERROR upward
    mb = None
    for d in R.dispatchers(ctx.fn(R.MGR + '.handle_message')):
        if d.direction == 'BELOW':
            mb = d
    rep.count()
    rep.check(
        mb is not None and ('ERROR' in mb.kinds() or (
            mb.else_action() == 'forward-up')), M,
        'Manager.handle_message:ERROR', mb.fn.path if mb else '', 0,
        'managers forward ERROR upward', 'a manager drops ERROR messages',
        key='mgr-forward',
    )
    # server: handle_error forwards to the owning client
    he = ctx.fn(R.DET + '.handle_error')
    g = ctx.cfg(he)
    rep.seen(he.qualname)
    snd = [g.node_containing(s.node) for s in R.sends_in(
        he, 'DetachedServer') if s.kind == 'ERROR']
    disc = [n for n in g.nodes if isinstance(n.stmt, ast.Return)
            and any(t.kind == 'test' and 'not in self.mailbox_to_task_dict'
                    in norm(t.stmt.test) and g.edge_dominates(
                        t.id, 'true', n.id) for t in g.nodes)]
    sysd = [n for n in g.nodes if q.has_call('self.handle_system_error')(n)]
    rep.count()
    rep.check(
        len(snd) == 1 and g.must(
            lambda n: n is snd[0] or n in disc or n in sysd), M,
        'DetachedServer.handle_error', he.path, he.lineno,
        'a task error is forwarded to its client (or discarded only for a '
        'cancelled task / escalated as a system error)',
        'some path through handle_error neither forwards the error to the '
        'client nor is the cancelled-task discard', key='server-forward',
    )
    ps = [s for s in R.sends_in(he, 'DetachedServer') if s.kind == 'ERROR']
    rep.count()
    rep.check(
        bool(ps) and norm(ps[0].payload) == 'error_payload[1]', M,
        'DetachedServer.handle_error:payload', he.path, he.lineno,
        'the original message text is forwarded',
        'the forwarded error text is not the original message',
        key='server-payload',
    )
    # the BELOW/ERROR branch calls handle_error
    db = None
    for d in R.dispatchers(ctx.fn(R.DET + '.handle_message')):
        if d.direction == 'BELOW':
            db = d
    b = db.branch('ERROR') if db else None
    rep.count()
    rep.check(
        b is not None and any(
            norm(c.func) == 'self.handle_error'
            for s in b.body for c in ast.walk(s) if isinstance(c, ast.Call)),
        M, 'DetachedServer.handle_message:ERROR', R.DET.split(':')[0],
        b.lineno if b else 0, 'ERROR from below is handled',
        'ERROR from below is not passed to handle_error', key='dispatch',
    )
    # client: both receive loops raise on ERROR with the payload
    for meth in ('_recv_handle_log_error', '_recv_log_error_until_empty'):
        f = ctx.fn(R.COMP + '.' + meth)
        rep.seen(f.qualname)
        for d in R.dispatchers(f):
            b = d.branch('ERROR')
            rep.count()
            rep.check(
                b is not None and any(
                    isinstance(s, ast.Raise) and 'payload' in norm(s)
                    for s in b.body), M, f'Compiler.{meth}', f.path,
                b.lineno if b else f.lineno,
                'an ERROR message becomes an exception carrying its text',
                'an ERROR message from the server is not raised to the '
                'caller with its message', key='client-raise',
            )
    # server loop: exception -> handle_system_error -> shutdown
    run = ctx.fn(R.BASE + '.run')
    g = ctx.cfg(run)
    rep.seen(run.qualname)
    hs = [n for n in g.nodes if n.kind == 'except' and norm(
        n.stmt.type) == 'Exception']
    rep.count()
    ok = len(hs) == 1 and g.must(
        q.has_call('self.handle_system_error'), start=hs[0].id) and g.must(
        q.has_call('self.handle_shutdown'), start=hs[0].id)
    rep.check(
        ok, M, 'ServerBase.run', run.path, run.lineno,
        'an exception in the server loop is reported and ends in shutdown',
        'an exception in the server loop is not followed by '
        'handle_system_error and handle_shutdown', key='loop-exception',
    )
    se = ctx.fn(R.DET + '.handle_system_error')
    rep.count()
    rep.check(
        any(s.kind == 'ERROR' for s in R.sends_in(se, 'DetachedServer')),
        M, 'DetachedServer.handle_system_error', se.path, se.lineno,
        'system errors are announced to every client',
        'system errors are not announced to clients', key='system-error',
    )


def client_kinds(ctx: Ctx, rep: Report) -> None:
    from .C07 import compiler_kinds
    d = None
    for x in R.dispatchers(ctx.fn(R.DET + '.handle_message')):
        if x.direction == 'CLIENT':
            d = x
    if d is None:
        raise AnalysisError('CLIENT dispatcher not found')
    for k, sites in sorted(compiler_kinds(ctx).items()):
        rep.count()
        rep.check(
            k in d.kinds(), 'PROTO', f'c2s:{k}',
            'bqskit/compiler/compiler.py', sites[0][1],
            f'client request {k} has a server branch',
            f'client request {k} has no branch in the server', key=k,
        )
    rep.check(
        d.else_action() == 'raise', 'PROTO', 'c2s:else', d.fn.path,
        d.fn.lineno, 'unknown client kinds raise',
        'unknown client kinds are silently ignored', key='else',
    )
