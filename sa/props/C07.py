"""C07 — Every awaited runtime future resolves exactly once with its own
result.

Schedules cannot be enumerated statically.  Decided here (DESIGN 4/C07):
  PROTO     closed message protocol per channel; payload shapes agree;
            sibling consumers of one kind treat the payload alike; every
            round-trip request is answered exactly once per path
  TOKEN     the wake-once token (dest_addr) is cleared when consumed;
            fresh results are reset when read
  LOCK      read-receipt mutex discipline (shared with C15)
  ATOM      check-then-act on the mailbox wake state shared by both worker
            threads lies in a common critical section  (known finding)
  PRECEDES  a mailbox exists before anything can answer into it
  SIB       routing siblings compute the employee index identically; map
            numbers slots with the index of the argument list
"""
from __future__ import annotations

import ast

from ..engine import Ctx
from ..report import Report
from ..rules import locks
from ..rules import q
from ..rules import runtime as R
from ..rules import valnum
from ..source import AnalysisError
from ..source import norm

HANDSHAKE = {'STARTED', 'CONNECT', 'READY'}


def run(ctx: Ctx, rep: Report) -> None:
    rep.explanation = (
        'Static clauses of C07 over bqskit/runtime and compiler/compiler.py: '
        'the message protocol is closed on all four channels and payload '
        'shapes agree between constructors and handlers (PROTO); the '
        'wake-once token and fresh-result buffer are reset when consumed '
        '(TOKEN); the read-receipt mutex is paired and guards what it '
        'documents (LOCK); mailbox creation precedes the SUBMIT that can '
        'answer into it (PRECEDES); routing siblings agree (SIB); the '
        'mailbox wake protocol is checked for a common critical section '
        'across the two worker threads (ATOM - a known finding). Delivery '
        'orders and thread interleavings are not enumerated.'
    )
    rep.assumptions += [
        'connection table sa/rules/runtime.py:CONN_TABLE (which attribute '
        'is which channel) confirmed by reading the constructors',
        'thread roots of Worker: recv_incoming (Thread target) and _loop',
    ]
    sends = R.all_sends(ctx)
    rep.floor('PROTO', len(sends), 40, 'send sites')
    proto_closed(ctx, rep, sends)
    proto_payload(ctx, rep, sends)
    proto_reply(ctx, rep)
    proto_log_siblings(ctx, rep)
    token(ctx, rep)
    lock_rule(ctx, rep)
    atom(ctx, rep)
    precedes(ctx, rep)
    sib(ctx, rep)


# ---------------------------------------------------------------------------
def _disp(ctx: Ctx, qual: str, meth: str, direction: str) -> R.Dispatcher:
    c = ctx.cls(qual)
    f = ctx.index.lookup_method(c, meth)
    if f is None:
        raise AnalysisError(f'{qual}.{meth} vanished')
    for d in R.dispatchers(f):
        if d.direction == direction:
            return d
    raise AnalysisError(
        f'{qual}.{meth}: dispatcher for direction {direction} not found')


def _resolve_star(ctx: Ctx, s: R.Send, disps: list[R.Dispatcher]) -> set[str]:
    """Kinds a forwarded `msg` variable can carry at send site s."""
    for d in disps:
        if d.fn is not s.fn:
            continue
        for b in d.branches:
            if any(x is s.node for st in b.body for x in ast.walk(st)):
                return {b.kind}
        if d.else_body and any(
            x is s.node for st in d.else_body for x in ast.walk(st)
        ):
            return {'<else:%s>' % d.direction}
    return set()


def compiler_kinds(ctx: Ctx) -> dict[str, list[tuple[str, int]]]:
    """kind -> [(method, line)] for Compiler._send/_send_recv call sites."""
    c = ctx.cls(R.COMP)
    out: dict[str, list[tuple[str, int]]] = {}
    for f in c.methods.values():
        for x in ast.walk(f.node):
            if isinstance(x, ast.Call) and norm(x.func) in (
                'self._send', 'self._send_recv',
            ) and x.args:
                k = R._kind(x.args[0])
                if k and k != '*':
                    out.setdefault(k, []).append((f.name, x.lineno))
    return out


def proto_closed(ctx: Ctx, rep: Report, sends: list[R.Send]) -> None:
    P = 'PROTO'
    det_client = _disp(ctx, R.DET, 'handle_message', 'CLIENT')
    det_below = _disp(ctx, R.DET, 'handle_message', 'BELOW')
    mgr_above = _disp(ctx, R.MGR, 'handle_message', 'ABOVE')
    mgr_below = _disp(ctx, R.MGR, 'handle_message', 'BELOW')
    wrk = _disp(ctx, R.WORKER, 'recv_incoming', '-')
    all_d = [det_client, det_below, mgr_above, mgr_below, wrk]
    for d in all_d:
        rep.seen(d.fn.qualname)
    kinds = R.message_kinds(ctx)

    def fpath(s: R.Send) -> tuple[str, int]:
        return s.fn.path, s.lineno

    # ---- up channel ----
    up: dict[str, list[R.Send]] = {}
    star_up = []
    for s in sends:
        if s.chan != 'up':
            continue
        if s.kind == '*':
            star_up.append(s)
        else:
            up.setdefault(s.kind, []).append(s)
    R.require(mgr_below.else_action() == 'forward-up' or bool(star_up),
              'Manager BELOW: catch-all forward not found')
    for k, ss in sorted(up.items()):
        rep.count()
        if k in HANDSHAKE:
            rep.ok(P, f'up:{k}', *fpath(ss[0]),
                   'handshake-only kind, consumed by a direct recv()')
            continue
        ok_det = k in det_below.kinds()
        ok_mgr = k in mgr_below.kinds() or (
            mgr_below.else_action() == 'forward-up')
        rep.check(
            ok_det and ok_mgr, P, f'up:{k}', *fpath(ss[0]),
            f'{k} sent upward ({len(ss)} sites) is handled by the server '
            'and handled-or-forwarded by managers',
            f'{k} is sent upward by {ss[0].cls}.{ss[0].fn.name} but '
            + ('the server\'s BELOW dispatcher has no branch for it (it '
               'raises "Unexpected message" and shuts the runtime down)'
               if not ok_det else
               'a manager neither handles nor forwards it'),
            key=f'up:{k}',
        )
    # ---- down channel ----
    down: dict[str, list[R.Send]] = {}
    for s in sends:
        if s.chan != 'down':
            continue
        ks = {s.kind} if s.kind != '*' else _resolve_star(ctx, s, all_d)
        if s.kind == '*' and not ks:
            # ServerBase.broadcast itself: the generic forwarder
            continue
        for k in ks:
            down.setdefault(k, []).append(s)
    for k, ss in sorted(down.items()):
        rep.count()
        if k in HANDSHAKE:
            rep.ok(P, f'down:{k}', *fpath(ss[0]), 'handshake-only kind')
            continue
        ok_w = k in wrk.kinds()
        ok_m = k in mgr_above.kinds()
        rep.check(
            ok_w and ok_m, P, f'down:{k}', *fpath(ss[0]),
            f'{k} sent downward ({len(ss)} sites) is handled by workers '
            'and by managers',
            f'{k} is sent downward by {ss[0].cls}.{ss[0].fn.name} but '
            + ('Worker.recv_incoming has no branch for it (silently '
               'dropped)' if not ok_w else
               'Manager\'s ABOVE dispatcher has no branch for it (raises)'),
            key=f'down:{k}',
        )
    rep.floor(P, len(down), 6, 'kinds on the down channel')
    rep.floor(P, len(up), 9, 'kinds on the up channel')
    # ---- client -> server ----
    ck = compiler_kinds(ctx)
    direct = [s for s in sends if s.chan == 'c2s' and s.kind != '*']
    for s in direct:
        ck.setdefault(s.kind, []).append((s.fn.name, s.lineno))
    for k, sites in sorted(ck.items()):
        rep.count()
        rep.check(
            k in det_client.kinds(), P, f'c2s:{k}',
            'bqskit/compiler/compiler.py', sites[0][1],
            f'client request {k} has a branch in the server',
            f'the client sends {k} ({sites[0][0]}) but the server\'s CLIENT '
            'dispatcher has no branch for it', key=f'c2s:{k}',
        )
    rep.floor(P, len(ck), 6, 'client request kinds')
    # ---- server -> client ----
    comp = ctx.cls(R.COMP)
    expected = set()
    for f in comp.methods.values():
        for x in ast.walk(f.node):
            if isinstance(x, ast.Compare) and isinstance(
                x.ops[0], ast.NotEq,
            ) and norm(x.left) == 'msg':
                k = R._kind(x.comparators[0])
                if k:
                    expected.add(k)
    c1 = _disp(ctx, R.COMP, '_recv_handle_log_error', '-')
    c2 = _disp(ctx, R.COMP, '_recv_log_error_until_empty', '-')
    rep.seen(c1.fn.qualname, c2.fn.qualname)
    s2c: dict[str, list[R.Send]] = {}
    for s in sends:
        if s.chan == 's2c' and s.kind != '*':
            s2c.setdefault(s.kind, []).append(s)
    for k, ss in sorted(s2c.items()):
        rep.count()
        ok = (k in c1.kinds() and k in c2.kinds()) or k in expected
        rep.check(
            ok, P, f's2c:{k}', *fpath(ss[0]),
            f'{k} sent to clients is consumed (asynchronous kind handled by '
            'both receive loops, or the awaited reply of a request)',
            f'{k} is sent to clients but no client code expects it',
            key=f's2c:{k}',
        )
    # every kind mentioned in a dispatcher exists
    for d in all_d + [c1, c2]:
        for b in d.branches:
            rep.count()
            rep.check(
                b.kind in kinds, P, f'kind:{b.kind}', d.fn.path, b.lineno,
                'dispatcher branch names a declared RuntimeMessage',
                f'RuntimeMessage.{b.kind} is not declared', key=b.kind,
            )
    # unknown kinds must not be swallowed by the server loops
    for d in (det_client, det_below, mgr_above):
        rep.count()
        rep.check(
            d.else_action() == 'raise', P,
            f'{d.fn.cls.name}.{d.direction}:else', d.fn.path, d.fn.lineno,
            'unexpected kinds raise (never silently dropped)',
            'an unexpected message kind is silently ignored',
            key='else',
        )


# ---------------------------------------------------------------------------
def _destructure_arity(ctx: Ctx, cls, body: list[ast.stmt],
                       var: str = 'payload', depth: int = 0) -> int | None:
    """Arity with which `var` is unpacked/indexed in `body`, following one
    call into a handler method that receives it."""
    best: int | None = None
    aliases = {var}
    for st in body:
        for n in ast.walk(st):
            if isinstance(n, ast.Assign):
                # p = cast(T, payload) / p = payload
                v = n.value
                src = None
                if isinstance(v, ast.Name) and v.id in aliases:
                    src = v.id
                if isinstance(v, ast.Call) and norm(v.func) == 'cast' and (
                    len(v.args) == 2 and isinstance(v.args[1], ast.Name)
                    and v.args[1].id in aliases
                ):
                    src = v.args[1].id
                if src is not None:
                    t = n.targets[0]
                    if isinstance(t, ast.Tuple):
                        best = max(best or 0, len(t.elts))
                    elif isinstance(t, ast.Name):
                        aliases.add(t.id)
    for st in body:
        for n in ast.walk(st):
            if isinstance(n, ast.Subscript) and isinstance(
                n.value, ast.Name,
            ) and n.value.id in aliases and isinstance(
                n.slice, ast.Constant,
            ) and isinstance(n.slice.value, int):
                best = max(best or 0, n.slice.value + 1)
            if depth == 0 and isinstance(n, ast.Call) and isinstance(
                n.func, ast.Attribute,
            ) and norm(n.func.value) == 'self':
                for i, a in enumerate(n.args):
                    if isinstance(a, ast.Name) and a.id in aliases:
                        h = ctx.index.lookup_method(cls, n.func.attr)
                        if h is not None:
                            ps = [p for p in h.params if p != 'self']
                            if i < len(ps):
                                sub = _destructure_arity(
                                    ctx, cls, h.body, ps[i], 1)
                                if sub:
                                    best = max(best or 0, sub)
    return best


def proto_payload(ctx: Ctx, rep: Report, sends: list[R.Send]) -> None:
    P = 'PROTO'
    recv = {
        'up': [(R.DET, 'handle_message', 'BELOW'),
               (R.MGR, 'handle_message', 'BELOW')],
        'down': [(R.WORKER, 'recv_incoming', '-'),
                 (R.MGR, 'handle_message', 'ABOVE')],
    }
    n = 0
    for chan, rs in recv.items():
        for qual, meth, direction in rs:
            d = _disp(ctx, qual, meth, direction)
            cls = ctx.cls(qual)
            for b in d.branches:
                want = _destructure_arity(ctx, cls, b.body)
                if not want:
                    continue
                for s in sends:
                    if s.chan != chan or s.kind != b.kind:
                        continue
                    got = R.payload_arity(s.payload, s.fn)
                    if got is None:
                        continue
                    n += 1
                    rep.count()
                    rep.check(
                        got >= want, P,
                        f'shape:{chan}:{b.kind}', s.fn.path, s.lineno,
                        f'{s.cls}.{s.fn.name} builds a {got}-tuple; '
                        f'{cls.name} unpacks {want}',
                        f'{s.cls}.{s.fn.name} sends {b.kind} with a '
                        f'{got}-tuple payload but {cls.name}.{meth} '
                        f'({direction}) unpacks {want} elements',
                        key=f'{chan}:{b.kind}:{s.cls}.{s.fn.name}',
                    )
    rep.floor(P, n, 4, 'payload shape comparisons')


def proto_reply(ctx: Ctx, rep: Report) -> None:
    """Each round-trip client request is answered exactly once on every
    normal path of its server-side handler (or parked for later)."""
    P = 'PROTO'
    det = ctx.cls(R.DET)
    pairs = {'STATUS': 'STATUS', 'CANCEL': 'CANCEL', 'CONNECT': 'READY'}
    d = _disp(ctx, R.DET, 'handle_message', 'CLIENT')
    for k, reply in pairs.items():
        b = d.branch(k)
        if b is None:
            continue
        h = R.handler_fn(ctx, det, b)
        if h is None:
            raise AnalysisError(f'handler for client {k} not found')
        rep.seen(h.qualname)
        g = ctx.cfg(h)
        sends = [s for s in R.sends_in(h, 'DetachedServer')
                 if s.kind == reply and s.chan == 's2c']
        ids = set()
        for s in sends:
            nd = g.node_containing(s.node)
            if nd is not None:
                ids.add(nd.id)
        rep.count()
        # at least one on every normal path ...
        at_least = bool(ids) and g.must(lambda n: n.id in ids)
        # ... and never two on one path
        twice = [
            a for a in ids
            if g.reach([a], include_starts=False) & ids
        ]
        if k == 'CANCEL':
            # acknowledgement may be skipped only when the client
            # connection is already closed
            guards = [t for t in g.nodes if t.kind == 'test' and (
                'closed' in norm(t.stmt.test))]
            at_least = bool(ids) and g.must(
                lambda n: n.id in ids or n in guards)
        rep.check(
            at_least and not twice, P, f'reply:{k}', h.path, h.lineno,
            f'{h.name} answers {k} with exactly one {reply} per path',
            f'{h.name}: ' + (
                f'a path sends {reply} twice (the client reads the second '
                'one as the answer to its next request)' if twice else
                f'some path returns without sending {reply} (the client '
                'blocks forever in _send_recv)'),
            key=f'reply:{k}',
        )
    # REQUEST: answered now or parked; parked requests answered on RESULT
    hr = det.methods.get('handle_request')
    hres = det.methods.get('handle_result')
    if hr is None or hres is None:
        raise AnalysisError('DetachedServer.handle_request/result vanished')
    rep.seen(hr.qualname, hres.qualname)
    g = ctx.cfg(hr)
    res = {g.node_containing(s.node).id for s in R.sends_in(
        hr, 'DetachedServer') if s.kind in ('RESULT', 'ERROR')}
    park = g.ids(q.assigns('box.client_waiting', 'True'))
    rep.count()
    rep.check(
        bool(res) and bool(park) and g.must(
            lambda n: n.id in res or n.id in park), P, 'reply:REQUEST',
        hr.path, hr.lineno,
        'a REQUEST is answered at once or parked (client_waiting) on '
        'every path',
        'some path through handle_request neither answers nor parks the '
        'request: result() would block forever', key='reply:REQUEST',
    )
    g2 = ctx.cfg(hres)
    tests = [t for t in g2.nodes if t.kind == 'test' and norm(
        t.stmt.test) == 'box.client_waiting']
    snd = [g2.node_containing(s.node) for s in R.sends_in(
        hres, 'DetachedServer') if s.kind == 'RESULT' and s.chan == 's2c']
    rep.count()
    rep.check(
        len(tests) == 1 and len(snd) == 1 and g2.edge_dominates(
            tests[0].id, 'true', snd[0].id) and g2.must(
            lambda n: n is snd[0], start=[
                b for b, l in g2.succ[tests[0].id] if l == 'true'][0]),
        P, 'reply:parked', hres.path, hres.lineno,
        'a parked request is answered as soon as the root result arrives',
        'handle_result does not ship the result to a waiting client on '
        'every path of the client_waiting branch', key='reply:parked',
    )
    # the stored result is the one that arrived
    st = [n for n in g2.nodes if q.assigns('box.result', 'result.result')(n)]
    rep.count()
    rep.check(
        len(st) == 1 and (not snd or snd[0].id in g2.reach([st[0].id])), P,
        'reply:store', hres.path, hres.lineno,
        'the arriving result is stored in the task\'s own mailbox before '
        'it can be shipped',
        'the result is not stored into the mailbox selected by its return '
        'address before shipping', key='reply:store',
    )


def proto_log_siblings(ctx: Ctx, rep: Report) -> None:
    """LOG payloads are pickled bytes end to end; both client consumers
    must unpickle before looking inside."""
    P = 'PROTO'
    w = ctx.fn(R.WORKER + '.__init__')
    txt = norm(w.node)
    rep.count()
    made = 'serial = pickle.dumps(record)' in txt and (
        '(RuntimeMessage.LOG, (tid, serial))' in txt)
    hl = ctx.fn(R.DET + '.handle_log')
    fwd = any(s.kind == 'LOG' and norm(s.payload) == 'log_payload[1]'
              for s in R.sends_in(hl, 'DetachedServer'))
    rep.seen(w.qualname, hl.qualname)
    rep.check(
        made and fwd, P, 'LOG:chain', hl.path, hl.lineno,
        'worker pickles the record; the server forwards element 1 (bytes)',
        'the LOG payload is no longer (task id, pickled record) forwarded '
        'as its second element', key='LOG:chain',
    )
    for meth in ('_recv_handle_log_error', '_recv_log_error_until_empty'):
        d = _disp(ctx, R.COMP, meth, '-')
        b = d.branch('LOG')
        if b is None:
            rep.fail(P, f'Compiler.{meth}', d.fn.path, d.fn.lineno,
                     'no LOG branch', key='LOG:branch')
            continue
        # the branch itself, and any helper method of the class that the
        # branch hands the payload to (one level)
        scopes = [(b.body, 'payload')]
        comp = ctx.cls(R.COMP)
        for st in b.body:
            for x in ast.walk(st):
                if isinstance(x, ast.Call) and isinstance(
                        x.func, ast.Attribute) and norm(
                        x.func.value) == 'self' and (
                        x.func.attr in comp.methods):
                    callee = comp.methods[x.func.attr]
                    ps = [p for p in callee.params if p != 'self']
                    for i, a in enumerate(x.args):
                        if norm(a) == 'payload' and i < len(ps):
                            scopes.append((callee.node.body, ps[i]))
        unp = any(
            isinstance(x, ast.Call) and norm(x.func) == 'pickle.loads'
            and x.args and norm(x.args[0]) == var
            for body, var in scopes for st in body for x in ast.walk(st))
        raw_attr = [
            norm(x) for body, var in scopes for st in body
            for x in ast.walk(st)
            if isinstance(x, ast.Attribute) and norm(x.value) == var
        ]
        rep.count()
        rep.check(
            unp and not raw_attr, P, f'Compiler.{meth}:LOG', d.fn.path,
            b.lineno, 'LOG payload is unpickled before use',
            'treats the LOG payload (pickled bytes, as its sibling '
            'consumer and the server agree) as a LogRecord: '
            f'{raw_attr or "never unpickled"}; an AttributeError reaches '
            'the client whenever a log record is still in flight',
            key='LOG:consumer',
        )


# ---------------------------------------------------------------------------
def token(ctx: Ctx, rep: Report) -> None:
    T = 'TOKEN'
    f = ctx.fn(R.WORKER + '._handle_result')
    g = ctx.cfg(f)
    rep.seen(f.qualname)
    wake = [n for n in g.nodes if q.has_call(
        'self._ready_task_ids.put', ['box.dest_addr'])(n)]
    clear = q.assigns('box.dest_addr', 'None')
    rep.count()
    rep.check(
        len(wake) == 1 and not g.response(lambda n: n is wake[0], clear),
        T, 'Worker._handle_result', f.path, f.lineno,
        'after waking the waiting task the wake token (dest_addr) is '
        'cleared on every path',
        'the waiting task is enqueued but box.dest_addr is not cleared on '
        'every following path: the next result wakes the task again',
        key='dest_addr',
    )
    # the wake happens only when a task waits and the box is ready / next
    tests = [t for t in g.nodes if t.kind == 'test' and norm(
        t.stmt.test) == 'box.has_task_waiting']
    cond = [t for t in g.nodes if t.kind == 'test' and norm(
        t.stmt.test) == 'task.wake_on_next or box.ready']
    rep.count()
    rep.check(
        len(tests) == 1 and len(cond) == 1 and len(wake) == 1
        and g.edge_dominates(tests[0].id, 'true', wake[0].id)
        and g.edge_dominates(cond[0].id, 'true', wake[0].id), T,
        'Worker._handle_result:guard', f.path, f.lineno,
        'wake only if a task waits and (all results are in or it asked for '
        'the next batch)',
        'the wake is no longer guarded by has_task_waiting and '
        '(wake_on_next or ready)', key='wake-guard',
    )
    dep = [n for n in g.nodes if q.has_call('box.deposit_result',
                                            ['result'])(n)]
    rep.count()
    rep.check(
        len(dep) == 1 and len(wake) == 1 and not g.precedes(
            lambda n: n is dep[0], lambda n: n is wake[0]), T,
        'Worker._handle_result:deposit', f.path, f.lineno,
        'the result is deposited before the waiting task can be woken',
        'the waiting task can be woken before the result is deposited',
        key='deposit-first',
    )
    mb = ctx.fn(RWM + '.get_new_results')
    g2 = ctx.cfg(mb)
    rep.seen(mb.qualname)
    # Hand-off by reference.  deposit_result appends to self.fresh_results
    # on the incoming thread while this method runs on the main thread,
    # without a lock.  That is only complete if the batch handed out is the
    # very list object the other thread appends to, captured before the
    # attribute is re-pointed at a fresh list: a result deposited between
    # the two statements then still lands in the batch.  A copy
    # (`list(...)`, a slice, sorted(...)) loses exactly that result.
    def rs(n) -> bool:
        return isinstance(n.stmt, ast.Assign) and norm(
            n.stmt.targets[0]) == 'self.fresh_results' and norm(
            n.stmt.value) in ('[]', 'list()')
    after = g2.reach(list(g2.ids(rs)), include_starts=False)
    rets = [n for n in g2.nodes if isinstance(n.stmt, ast.Return)]
    by_ref = bool(rets)
    for n in rets:
        v = n.stmt.value
        defs = ctx.rd(mb).reaching(n, v.id) if isinstance(
            v, ast.Name) else []
        by_ref = by_ref and bool(defs) and all(
            d.kind == 'assign' and d.value is not None
            and norm(d.value) == 'self.fresh_results'
            and d.node.id not in after for d in defs)
    rep.count()
    rep.check(
        g2.must(rs) and by_ref, T,
        'WorkerMailbox.get_new_results', mb.path, mb.lineno,
        'the batch is handed out by reference and the attribute re-pointed '
        'at a fresh list afterwards (batches disjoint and jointly complete)',
        'get_new_results does not hand out the live fresh_results list by '
        'reference before re-pointing the attribute at a fresh list: '
        'without the reset next() returns duplicates; with a copy, a result '
        'deposited by the incoming thread between the copy and the reset '
        'is lost', key='fresh-reset',
    )
    dp = ctx.fn(RWM + '.deposit_result')
    rep.seen(dp.qualname)
    t = norm(dp.node)
    rep.count()
    rep.check(
        'self.num_results += 1' in t
        and 'slot_id = result.return_address.mailbox_slot' in t
        and 'self.result[slot_id] = result.result' in t
        and 'self.fresh_results.append((slot_id, result.result))' in t, T,
        'WorkerMailbox.deposit_result', dp.path, dp.lineno,
        'a result is stored at its own slot and counted once',
        'deposit_result no longer stores result.result at '
        'return_address.mailbox_slot and counts it once', key='deposit',
    )
    # _get_desired_result pops the mailbox it hands out (exactly-once)
    gd = ctx.fn(R.WORKER + '._get_desired_result')
    g3 = ctx.cfg(gd)
    rep.seen(gd.qualname)
    rets = [n for n in g3.nodes if isinstance(n.stmt, ast.Return)]
    final = [n for n in rets if 'self._mailboxes.pop(task.desired_box_id)'
             in n.text()]
    own = q.has_call('task.owned_mailboxes.remove', ['task.desired_box_id'])
    rep.count()
    rep.check(
        len(final) == 1 and not g3.precedes(own, lambda n: n is final[0]),
        T, 'Worker._get_desired_result', gd.path, gd.lineno,
        'a complete result is handed out by popping its mailbox and '
        'releasing ownership (cannot be delivered twice)',
        'the awaited mailbox is not popped / disowned when its result is '
        'handed to the task', key='consume',
    )


RWM = R.RT + 'worker.py:WorkerMailbox'


# ---------------------------------------------------------------------------
def lock_rule(ctx: Ctx, rep: Report, pid_rule: str = 'LOCK') -> None:
    L = pid_rule
    lock = 'self.read_receipt_mutex'
    w = ctx.cls(R.WORKER)
    n = 0
    for f in w.methods.values():
        g = ctx.cfg(f)
        uses = [x for nd in g.nodes for x in locks.lock_ops(nd)
                if x[1] == lock]
        if not uses:
            continue
        n += 1
        rep.seen(f.qualname)
        rep.count()
        bad = locks.pairing_problems(g, lock)
        rep.check(
            not bad, L, f'Worker.{f.name}:paired', f.path, f.lineno,
            'read_receipt_mutex acquire/release are paired on every '
            'normal path',
            'read_receipt_mutex is not paired: ' + '; '.join(bad),
            key='paired',
        )
    rep.floor(L, n, 2, 'functions using read_receipt_mutex')
    # writes of most_recent_read_submit and _add_task under the lock
    f = ctx.fn(R.WORKER + '.recv_incoming')
    g = ctx.cfg(f)
    IN, _ = locks.held_at(g, 'must')
    wr = [nd for nd in g.nodes if q.assigns('self.most_recent_read_submit')(
        nd)]
    add = [nd for nd in g.nodes if q.has_call('self._add_task')(nd)]
    dl = [nd for nd in g.nodes if q.has_call('self._delayed_tasks.extend')(
        nd)]
    rep.count(3)
    rep.floor(L, len(wr), 2, 'writes of most_recent_read_submit')
    for nd in wr + add + dl:
        rep.check(
            locks.holds(IN, nd.id, lock), L,
            'Worker.recv_incoming:guarded', f.path, nd.lineno,
            f'`{nd.text()[:50]}` runs with read_receipt_mutex held',
            f'`{nd.text()[:50]}` runs without read_receipt_mutex: the '
            'read receipt sent with WAITING can disagree with the tasks '
            'actually enqueued', key=nd.text()[:40],
        )
    # every SUBMIT branch records the receipt before adding the task
    for nd in add:
        before = [w_ for w_ in wr if nd.id in g.reach(
            [w_.id], include_starts=False, labels_off=['continue'])]
        rep.check(
            bool(before), L, 'Worker.recv_incoming:order', f.path,
            nd.lineno, 'receipt recorded before the task is enqueued',
            'a task is enqueued before most_recent_read_submit is updated',
            key='receipt-first:' + nd.text()[:30],
        )
    # receipt value = id of the first task of the batch (what the boss
    # stores in submit_cache)
    vals = sorted({norm(nd.stmt.value) for nd in wr})
    rep.check(
        vals == ['task.unique_id', 'tasks[0].unique_id'], L,
        'Worker.recv_incoming:receipt', f.path, f.lineno,
        'receipt = unique id of the (first) task of the batch',
        f'read receipt values are {vals}; the boss caches '
        'assignment[0].unique_id', key='receipt-value',
    )
    f2 = ctx.fn(R.WORKER + '._get_next_ready_task')
    g2 = ctx.cfg(f2)
    IN2, _ = locks.held_at(g2, 'must')
    rep.seen(f.qualname, f2.qualname)
    gn = [nd for nd in g2.nodes if q.has_call(
        'self._ready_task_ids.get_nowait')(nd)]
    ws = [g2.node_containing(s.node) for s in R.sends_in(f2, 'Worker')
          if s.kind == 'WAITING']
    pl = [nd for nd in g2.nodes if isinstance(nd.stmt, ast.Assign) and (
        'self.most_recent_read_submit' in norm(nd.stmt.value))]
    rep.count(2)
    rep.check(
        len(gn) == 1 and len(ws) == 1 and all(
            locks.holds(IN2, x.id, lock) for x in gn + ws + pl), L,
        'Worker._get_next_ready_task:critical', f2.path, f2.lineno,
        'the empty-queue test, the receipt read and the WAITING send are '
        'one critical section',
        'get_nowait / reading most_recent_read_submit / sending WAITING '
        'are not all inside the read_receipt_mutex critical section',
        key='critical-section',
    )
    blocking = [nd for nd in g2.nodes if q.has_call(
        'self._ready_task_ids.get', [])(nd)]
    mayI, _ = locks.held_at(g2, 'may')
    rep.check(
        len(blocking) == 1 and not (
            mayI[blocking[0].id] and lock in mayI[blocking[0].id]), L,
        'Worker._get_next_ready_task:blocking', f2.path, f2.lineno,
        'the blocking get() runs with the mutex released',
        'the blocking queue get() can run with read_receipt_mutex held: '
        'the incoming thread can never enqueue (deadlock)',
        key='blocking-get',
    )


# ---------------------------------------------------------------------------
def _reach_methods(ctx: Ctx, cls, roots: list[str]) -> set[str]:
    seen: set[str] = set()
    todo = list(roots)
    while todo:
        m = todo.pop()
        if m in seen or m not in cls.methods:
            continue
        seen.add(m)
        for c in ast.walk(cls.methods[m].node):
            if isinstance(c, ast.Call) and isinstance(
                c.func, ast.Attribute,
            ) and norm(c.func.value) == 'self':
                todo.append(c.func.attr)
    return seen


def atom(ctx: Ctx, rep: Report) -> None:
    A = 'ATOM'
    w = ctx.cls(R.WORKER)
    # thread roots from the Thread(target=...) in __init__
    tgt = None
    for x in ast.walk(w.methods['__init__'].node):
        if isinstance(x, ast.Call) and norm(x.func) == 'Thread':
            for k in x.keywords:
                if k.arg == 'target':
                    tgt = norm(k.value).replace('self.', '')
    if tgt is None:
        raise AnalysisError('Worker.__init__: incoming Thread not found')
    incoming = _reach_methods(ctx, w, [tgt])
    main = _reach_methods(
        ctx, w, ['_loop', 'submit', 'map', 'cancel', 'next', 'communicate'])
    state = {'dest_addr', 'ready', 'has_task_waiting', 'num_results'}
    actors = {}
    for m in sorted((incoming | main)):
        f = w.methods[m]
        g = ctx.cfg(f)
        touches = [n for n in g.nodes for x in n.walk()
                   if isinstance(x, ast.Attribute) and x.attr in state
                   and norm(x.value) == 'box']
        acts = [n for n in g.nodes if q.has_call(
            'self._ready_task_ids.put')(n)]
        if touches and acts:
            actors[m] = (f, g, touches, acts)
    rep.count(len(actors))
    inc = [m for m in actors if m in incoming]
    mn = [m for m in actors if m in main and m not in incoming]
    rep.floor(A, len(actors), 2, 'check-then-wake functions')
    if not inc or not mn:
        rep.ok(A, 'Worker:wake-protocol', w.path, w.lineno,
               'the wake protocol is confined to one thread')
        return
    common = None
    for m in inc + mn:
        f, g, touches, acts = actors[m]
        IN, _ = locks.held_at(g, 'must')
        held = None
        for n in touches + acts:
            s = IN[n.id] or frozenset()
            held = s if held is None else held & s
        common = held if common is None else common & (held or frozenset())
    f0 = actors[mn[0]][0]
    rep.check(
        bool(common), A, 'Worker:wake-protocol', f0.path, f0.lineno,
        f'mailbox test-and-wake in {sorted(actors)} shares lock {common}',
        f'{mn} (main thread) and {inc} (incoming thread) both test the '
        'mailbox state (dest_addr / ready) and then enqueue the waiting '
        'task, with no common lock: a result landing between '
        '`box.dest_addr = ...` and `if box.ready` enqueues the task twice',
        key='no-common-lock',
    )


# ---------------------------------------------------------------------------
def precedes(ctx: Ctx, rep: Report) -> None:
    P = 'PRECEDES'
    for meth, kind in (('submit', 'SUBMIT'), ('map', 'SUBMIT_BATCH')):
        f = ctx.fn(R.WORKER + '.' + meth)
        g = ctx.cfg(f)
        rep.seen(f.qualname)
        box = lambda n: isinstance(n.stmt, ast.Assign) and norm(
            n.stmt.targets[0]) == 'self._mailboxes[mailbox_id]'
        snd = [g.node_containing(s.node) for s in R.sends_in(f, 'Worker')
               if s.kind == kind]
        own = q.has_call('self._active_task.owned_mailboxes.append',
                         ['mailbox_id'])
        rep.count()
        rep.check(
            len(snd) == 1 and not g.precedes(box, lambda n: n is snd[0])
            and not g.precedes(own, lambda n: n is snd[0]), P,
            f'Worker.{meth}', f.path, f.lineno,
            'the mailbox is created and owned before the task is sent out',
            f'{kind} can be sent before the mailbox exists / is owned: a '
            'fast result finds no mailbox and is dropped, the awaiting '
            'task waits forever', key='mailbox-first',
        )
        ret = [n for n in g.nodes if isinstance(n.stmt, ast.Return)]
        rep.count()
        rep.check(
            len(ret) == 1 and norm(ret[0].stmt.value) == (
                'RuntimeFuture(mailbox_id)'), P, f'Worker.{meth}:future',
            f.path, f.lineno, 'returns the future of the new mailbox',
            'does not return RuntimeFuture(mailbox_id) of the new mailbox',
            key='future',
        )
    f = ctx.fn(R.DET + '.handle_new_comp_task')
    g = ctx.cfg(f)
    rep.seen(f.qualname)
    sched = q.has_call('self.schedule_tasks')
    for tgt in ('self.tasks[task.task_id]',
                'self.mailbox_to_task_dict[mailbox_id]',
                'self.mailboxes[mailbox_id]'):
        pre = lambda n, tgt=tgt: isinstance(n.stmt, ast.Assign) and norm(
            n.stmt.targets[0]) == tgt
        rep.count()
        rep.check(
            g.must(pre) and not g.precedes(pre, sched), P,
            'DetachedServer.handle_new_comp_task', f.path, f.lineno,
            f'`{tgt}` registered before the task is scheduled',
            f'`{tgt}` is not registered before schedule_tasks: a fast '
            'result would look like one for a cancelled task',
            key=tgt,
        )
    # the return address of the root task routes to this mailbox
    rt = [c for c in ast.walk(f.node) if isinstance(c, ast.Call)
          and norm(c.func) == 'RuntimeTask']
    rep.count()
    rep.check(
        len(rt) == 1 and len(rt[0].args) >= 3 and norm(
            rt[0].args[1]) == 'RuntimeAddress(-1, mailbox_id, 0)' and norm(
            rt[0].args[2]) == 'mailbox_id', P,
        'DetachedServer.handle_new_comp_task:address', f.path, f.lineno,
        'root task returns to (-1, its mailbox, 0) and is tagged with it',
        'the root task\'s return address / compilation id is not its own '
        'mailbox id', key='root-address',
    )


# ---------------------------------------------------------------------------
def sib(ctx: Ctx, rep: Report) -> None:
    S = 'SIB'
    a = ctx.fn(R.BASE + '.is_my_worker')
    b = ctx.fn(R.BASE + '.get_employee_responsible_for')
    rep.seen(a.qualname, b.qualname)

    def idx_expr(f):
        for n in ast.walk(f.node):
            if isinstance(n, ast.Assign) and norm(
                n.targets[0]) == 'employee_id':
                return norm(n.value)
        rets = valnum.returns(ctx, f)
        return valnum.canon(rets[0][1]) if rets else ''
    ea, eb = idx_expr(a), idx_expr(b)
    rep.count()
    rep.check(
        ea == eb and 'worker_id' in ea, S, 'ServerBase.routing', a.path,
        a.lineno, f'both use `{ea}` as the employee index',
        f'is_my_worker computes `{ea}` but get_employee_responsible_for '
        f'computes `{eb}`: results are routed to a different employee '
        'than the membership test assumed', key='employee-index',
    )
    rb = [valnum.canon(e) for _g, e, _n in valnum.returns(ctx, b)]
    rep.count()
    rep.check(
        rb == ['self.employees[(worker_id - self.lower_id_bound) // '
               'self.step_size]'] or rb == ['self.employees[employee_id]'],
        S, 'ServerBase.get_employee_responsible_for', b.path, b.lineno,
        'returns the employee at that index',
        f'returns {rb}', key='employee-lookup',
    )
    ra = [valnum.canon(e) for _g, e, _n in valnum.returns(ctx, a)]
    rep.count()
    rep.check(
        any('0 <=' in r and '< len(self.employees)' in r for r in ra), S,
        'ServerBase.is_my_worker', a.path, a.lineno,
        'membership = index within [0, number of employees)',
        f'membership test is {ra}', key='membership',
    )
    sr = ctx.fn(R.BASE + '.send_result_down')
    rep.seen(sr.qualname)
    t = norm(sr.node)
    rep.count()
    rep.check(
        'dest_worker_id = result.return_address.worker_id' in t
        and 'self.get_employee_responsible_for(dest_worker_id)' in t
        and '(employee.conn, RuntimeMessage.RESULT, result)' in t, S,
        'ServerBase.send_result_down', sr.path, sr.lineno,
        'a result goes to the employee responsible for its return '
        'address\'s worker',
        'send_result_down no longer routes by '
        'result.return_address.worker_id', key='route',
    )
    # map: slot i <-> argument i
    m = ctx.fn(R.WORKER + '.map')
    rep.seen(m.qualname)
    comp = None
    for n in ast.walk(m.node):
        if isinstance(n, ast.Assign) and norm(n.targets[0]) == 'tasks' and (
            isinstance(n.value, ast.ListComp)
        ):
            comp = n.value
    ok = False
    if comp is not None and len(comp.generators) == 1:
        gen = comp.generators[0]
        ok = norm(gen.iter) == 'enumerate(fnargs)' and norm(
            gen.target) == '(i, fnarg)' and isinstance(
            comp.elt, ast.Call) and len(comp.elt.args) >= 2 and norm(
            comp.elt.args[0]) == 'fnarg' and norm(
            comp.elt.args[1]) == 'RuntimeAddress(self._id, mailbox_id, i)'
    rep.count()
    rep.check(
        ok, S, 'Worker.map', m.path, m.lineno,
        'task i carries argument i and returns to slot i of the new mailbox',
        'map no longer numbers return slots with the index of the '
        'argument tuple they were built from (results would come back in '
        'the wrong positions)', key='slot-index',
    )
    # ... and the mailbox waits for exactly as many results as tasks are
    # sent: its size is the length of the very sequence the tasks are
    # enumerated from (zip() may have shortened it below len(args[0]))
    mg = ctx.cfg(m)
    nb = [(nd, c) for nd in mg.nodes for c in nd.calls()
          if norm(c.func) == 'WorkerMailbox.new_mailbox']
    seq = None
    if comp is not None and len(comp.generators) == 1:
        it = comp.generators[0].iter
        if isinstance(it, ast.Call) and norm(it.func) == 'enumerate' and (
                it.args):
            seq = norm(it.args[0])
    ok = len(nb) == 1 and seq is not None and len(nb[0][1].args) == 1 and norm(
        valnum.subst(ctx, m, nb[0][0], nb[0][1].args[0])) == f'len({seq})'
    rep.count()
    rep.check(
        ok, S, 'Worker.map:slots', m.path, m.lineno,
        'the new mailbox has one slot per task sent',
        'the mailbox created by map() is not sized by the length of the '
        f'sequence the tasks are built from (len({seq})): with argument '
        'lists of different lengths it waits for results that no task will '
        'ever send and the awaiting task never resumes', key='slot-count',
    )
    # a manager keeps a result from below only if the addressee is one of
    # its own workers; anything else goes to its boss
    hb = ctx.fn(R.MGR + '.handle_result_from_below')
    gb = ctx.cfg(hb)
    rep.seen(hb.qualname)
    down = [nd for nd in gb.nodes if q.has_call(
        'self.send_result_down', ['result'])(nd)]
    mine = [t for t in gb.nodes if t.kind == 'test' and norm(
        t.stmt.test) == 'self.is_my_worker(result.return_address.worker_id)']
    ups = [gb.node_containing(x.node) for x in R.sends_in(hb, 'Manager')
           if x.kind == 'RESULT' and x.via != 'down']
    rep.count()
    rep.check(
        len(mine) == 1 and len(down) == 1 and gb.edge_dominates(
            mine[0].id, 'true', down[0].id) and bool(ups) and all(
            u is not None and gb.edge_dominates(mine[0].id, 'false', u.id)
            for u in ups), S, 'Manager.handle_result_from_below', hb.path,
        hb.lineno,
        'a result from below goes down only to one of my workers, otherwise '
        'up',
        'Manager.handle_result_from_below does not route by '
        'is_my_worker(result.return_address.worker_id): a result addressed '
        'to a worker of another manager is sent down (send_result_down '
        'raises "unmanaged worker") instead of up', key='route-below',
    )
    s = ctx.fn(R.WORKER + '.submit')
    rt = [c for c in ast.walk(s.node) if isinstance(c, ast.Call)
          and norm(c.func) == 'RuntimeTask']
    rep.count()
    rep.check(
        len(rt) == 1 and norm(rt[0].args[1]) == (
            'RuntimeAddress(self._id, mailbox_id, 0)'), S, 'Worker.submit',
        s.path, s.lineno, 'submitted task returns to (me, new mailbox, 0)',
        'submitted task does not return to this worker\'s new mailbox',
        key='submit-address',
    )
    # breadcrumbs extend the parent's with the parent's own address
    for f_, txts in ((s, ['self._active_task.breadcrumbs + '
                          '(self._active_task.return_address,)']),
                     (m, ['breadcrumbs += '
                          '(self._active_task.return_address,)'])):
        t = norm(f_.node)
        rep.count()
        rep.check(
            any(x in t for x in txts), S, f'Worker.{f_.name}:breadcrumbs',
            f_.path, f_.lineno,
            'child breadcrumbs = parent breadcrumbs + parent address',
            'child tasks no longer inherit breadcrumbs + the parent\'s '
            'address (cancellation of an ancestor would miss them)',
            key='breadcrumbs',
        )
