"""Grammar hygiene and list-walk agreement of the OpenQASM 2 reader (part of
C17), written from the discovery campaign (DESIGN 8.10, F59).

The lark grammar is a string literal in bqskit/ir/lang/qasm2/parser.py; it is
read as data.

UNUSED    every rule is referenced by another rule (or is the start rule): a
          rule nobody references, and its visitor method, can never run
          (`barrierp`).
LITRULE   no string literal spells the name of a rule: `"barrierp"` where
          `barrierp` was meant makes the keyword `barrierp` part of the
          language and leaves the rule unused.
INLINEKW  lark calls visitor methods by rule name.  An alternative that
          carries a keyword of its own (`"if" ... qop`, `goplist "barrier"
          ...`) inside a rule that has no visitor method is invisible to the
          visitor: its inner rules are visited as if the keyword were not
          there (the conditional is read as unconditional, the barrier is
          dropped).  Such an alternative must be a named rule.  `opaque`
          declarations have no body and are exempt.
LISTWALK  list rules are left-recursive (`idlist: ID | idlist "," ID`): in
          a two-child node the nested list is child 0 and the identifier
          child 1.  Every loop of the visitor that walks such a list by
          `len(x.children)` descends into `children[0]`.
"""
from __future__ import annotations

import ast
import re

from ..engine import Ctx
from ..report import Report
from ..source import AnalysisError
from ..source import norm
from .C17 import PAR
from .C17 import VIS
from .C17 import grammar_text

EXEMPT_KW = {'opaque': 'a declaration without a body; nothing to read'}
# reserved words of the OpenQASM 2.0 specification (arXiv:1707.03429, fig. 1)
SPEC_KEYWORDS = {
    'OPENQASM', 'include', 'qreg', 'creg', 'gate', 'opaque', 'barrier',
    'measure', 'reset', 'if', 'U', 'CX', 'pi', 'sin', 'cos', 'tan', 'exp',
    'ln', 'sqrt',
}
START = 'mainprogram'


def parse_grammar(g: str) -> dict[str, list[list[str]]]:
    """rule -> alternatives -> symbols ('"lit"', '/re/', NAME, name)."""
    rules: dict[str, list[list[str]]] = {}
    cur = None
    buf = ''
    for line in g.splitlines():
        m = re.match(r'^([a-z_]\w*)\s*:(.*)$', line)
        if m:
            if cur is not None:
                rules[cur] = buf
            cur, buf = m.group(1), m.group(2)
        elif re.match(r'^[A-Z_]+\s*:', line) or line.startswith('%'):
            if cur is not None:
                rules[cur] = buf
            cur = None
        elif cur is not None:
            buf += ' ' + line.strip()
    if cur is not None:
        rules[cur] = buf
    out: dict[str, list[list[str]]] = {}
    tok = re.compile(r'"(?:[^"\\]|\\.)*"|/(?:[^/\\]|\\.)*/|[A-Za-z_]\w*|[|()*+?]')
    for r, body in rules.items():
        alts: list[list[str]] = [[]]
        depth = 0
        for t in tok.findall(body):
            if t == '(':
                depth += 1
            elif t == ')':
                depth -= 1
            elif t == '|' and depth == 0:
                alts.append([])
                continue
            alts[-1].append(t)
        out[r] = alts
    return out


def hygiene(ctx: Ctx, rep: Report) -> None:
    g = parse_grammar(grammar_text(ctx))
    if START not in g or len(g) < 25:
        raise AnalysisError('grammar not understood (rules: %d)' % len(g))
    vis = ctx.cls(f'{VIS}:OPENQASMVisitor')
    refs = {
        s for alts in g.values() for a in alts for s in a
        if re.fullmatch(r'[a-z_]\w*', s)
    }
    for r in sorted(g):
        rep.count()
        rep.check(
            r == START or r in refs, 'UNUSED', f'grammar:{r}', PAR, 0,
            f'rule `{r}` is referenced',
            f'grammar rule `{r}` is defined but no rule references it: it '
            'can never match, and its visitor method '
            + ('(which exists) ' if r in vis.methods else '')
            + 'never runs', key='unreferenced',
        )
    lits = {
        s[1:-1] for alts in g.values() for a in alts for s in a
        if s.startswith('"') and re.fullmatch(r'[A-Za-z_]\w*', s[1:-1])
    }
    foreign = sorted(lits - SPEC_KEYWORDS)
    for name in foreign:
        rep.count()
        rep.fail(
            'LITRULE', f'grammar:"{name}"', PAR, 0,
            f'the grammar contains the keyword literal "{name}", which is '
            'not a word of OpenQASM 2'
            + (f' but the name of the grammar rule `{name}`: a rule '
               'reference was quoted, the word became part of the accepted '
               'language and the rule is bypassed' if name in g else ''),
            key='literal',
        )
    rep.count()
    rep.check(
        not foreign, 'LITRULE', 'grammar', PAR, 0,
        f'{len(lits)} keyword literals, all are OpenQASM 2 words',
        'see the individual literals', key='summary',
    )
    n = 0
    for r, alts in sorted(g.items()):
        if len(alts) < 2 or r in vis.methods:
            continue
        for a in alts:
            kws = [s[1:-1] for s in a if s.startswith('"')
                   and re.fullmatch(r'[A-Za-z_]\w*', s[1:-1])]
            inner = [s for s in a if re.fullmatch(r'[a-z_]\w*', s)]
            if not kws or not inner:
                continue
            n += 1
            rep.count()
            exempt = [k for k in kws if k in EXEMPT_KW]
            rep.check(
                bool(exempt) and len(exempt) == len(kws), 'INLINEKW',
                f'grammar:{r}:{" ".join(a)[:40]}', PAR, 0,
                f'keyword alternative exempt ({"; ".join(EXEMPT_KW[k] for k in exempt)})',
                f'rule `{r}` (no visitor method) has the inline alternative '
                f'`{" ".join(a)}`: the keyword `{kws[0]}` reaches no visitor, '
                f'only the inner rule(s) {inner} are visited - the statement '
                'is read as if the keyword were absent',
                key='inline',
            )
    rep.floor('UNUSED', len(g), 25, 'grammar rules')


_POS_UNWRAP = '''
def leaf(tree):
    node = tree
    while isinstance(node, lark.Tree) and len(node.children) == 1:
        node = node.children[0]
    return node
'''


def _unwraps(fn: ast.AST) -> list[ast.While]:
    out = []
    for w in ast.walk(fn):
        if not isinstance(w, ast.While):
            continue
        one = any(
            isinstance(k, ast.Compare) and 'children' in norm(k.left)
            and any(isinstance(c, ast.Constant) and c.value == 1
                    for c in k.comparators)
            and any(isinstance(o, ast.Eq) for o in k.ops)
            for k in ast.walk(w.test)
        )
        step = any(
            isinstance(s, ast.Assign) and isinstance(s.targets[0], ast.Name)
            and norm(s.value) == f'{s.targets[0].id}.children[0]'
            for s in ast.walk(w)
        )
        names = any(
            isinstance(x, ast.Attribute) and x.attr == 'data'
            for x in ast.walk(w)
        )
        if one and step and not names:
            out.append(w)
    return out


def unwrap(ctx: Ctx, rep: Report) -> None:
    """UNWRAP: lark drops punctuation, so `usub: "-" exp` is a tree node with
    exactly one child, like the pure wrappers (`parenexp`, `exp` with one
    operand).  A loop that descends through single-child nodes without
    looking at `.data` walks straight through a negation: `-theta` is read as
    `theta`.  The premise is taken from the grammar: some rule whose only
    non-literal symbol is another rule carries a meaning-bearing literal."""
    R = 'UNWRAP'
    if len(_unwraps(ast.parse(_POS_UNWRAP))) != 1:
        raise AnalysisError('UNWRAP no longer matches its positive example')
    g = parse_grammar(grammar_text(ctx))
    semantic_unary = sorted(
        r for r, alts in g.items() for a in alts
        if len([s for s in a if not s.startswith(('"', '/'))]) == 1
        and any(s.startswith('"') and s[1:-1] in ('-', '!', '~')
                for s in a)
    )
    if not semantic_unary:
        raise AnalysisError('no one-child semantic rule (usub) in the grammar')
    m = ctx.index.module(VIS)
    n = 0
    bad = []
    for fn in [x for x in ast.walk(m.tree) if isinstance(
            x, (ast.FunctionDef, ast.AsyncFunctionDef))]:
        n += 1
        for w in _unwraps(fn):
            bad.append((fn.name, w.lineno))
    rep.count()
    rep.check(
        not bad, R, 'visitor', VIS, bad[0][1] if bad else 0,
        f'{n} functions: no blind descent through single-child nodes '
        f'(one-child semantic rules: {", ".join(semantic_unary)})',
        (f'`{bad[0][0]}` descends through single-child tree nodes without '
         f'testing `.data`: the grammar rule(s) {", ".join(semantic_unary)} '
         'also have exactly one child, so a negated argument is read '
         'without its sign') if bad else None,
        key='blind-descent',
    )
    rep.floor(R, n, 20, 'functions of the visitor module')


def gate_ident(ctx: Ctx, rep: Report) -> None:
    """IDENT: a CircuitGate is written as a `gate` definition under a
    generated identifier; two different blocks must get two identifiers, or
    the later definition silently replaces the earlier one on reading.  In
    every method of CircuitGate that spells an identifier with the literal
    prefix `circuitgate_`, the variable part is derived from `hash(<gate>)`
    or from `_circuit` (what `__eq__` compares) - not from a display string
    such as `self.name`, which abbreviates the circuit."""
    R = 'IDENT'
    c = ctx.index.cls('bqskit/ir/gates/circuitgate.py:CircuitGate')
    n = 0
    # methods of CircuitGate and helper functions of its module
    fns = list(c.methods.values()) + [
        x for x in ctx.index.all_functions()
        if x.path == c.path and x.cls is None
    ]
    for f in fns:
        js = [j for j in ast.walk(f.node) if isinstance(j, ast.JoinedStr)
              and any(isinstance(v, ast.Constant) and 'circuitgate_' in str(
                  v.value) for v in j.values)]
        for j in js:
            n += 1
            rep.count()
            rep.seen(f.qualname)
            names = {x.id for v in j.values if isinstance(
                v, ast.FormattedValue) for x in ast.walk(v.value)
                if isinstance(x, ast.Name)}
            attrs = {norm(x) for v in j.values if isinstance(
                v, ast.FormattedValue) for x in ast.walk(v.value)
                if isinstance(x, (ast.Attribute, ast.Call))}
            srcs: list[ast.AST] = [v.value for v in j.values
                                   if isinstance(v, ast.FormattedValue)]
            seen: set[str] = set()
            todo = list(names)
            while todo:
                v = todo.pop()
                if v in seen:
                    continue
                seen.add(v)
                for s in ast.walk(f.node):
                    if isinstance(s, (ast.Assign, ast.AugAssign)) and any(
                            isinstance(t, ast.Name) and t.id == v
                            for t in (s.targets if isinstance(
                                s, ast.Assign) else [s.target])):
                        srcs.append(s.value)
                        todo += [x.id for x in ast.walk(s.value)
                                 if isinstance(x, ast.Name)]
            good = any(
                (isinstance(x, ast.Call) and norm(x.func) == 'hash')
                or (isinstance(x, ast.Attribute) and x.attr == '_circuit')
                for v in srcs for x in ast.walk(v)
            )
            rep.check(
                good, R, f'CircuitGate.{f.name}', f.path, j.lineno,
                'the generated identifier is derived from hash(gate) / '
                '_circuit',
                f'CircuitGate.{f.name} spells the identifier `{norm(j)[:50]}` '
                'from something other than hash(<gate>) or the gate\'s '
                f'circuit ({", ".join(sorted(attrs))[:60] or "?"}): two '
                'different blocks can get the same name, and the reader '
                'keeps only the later definition',
                key='identifier-source',
            )
    rep.floor(R, n, 1, 'generated gate identifiers')


def eqqasm(ctx: Ctx, rep: Report) -> None:
    """EQQASM: two gates that `__eq__` tells apart must not be written with
    the same OpenQASM text.  For every gate class that defines both
    `__eq__` and a QASM writer (`qasm_name`, `get_qasm`,
    `get_qasm_gate_def`), each `self.<attr>` that `__eq__` compares is read
    by the writer (to spell it, or to refuse).  Exempt: radix attributes
    (the encoder refuses non-qubit circuits as a whole) and attributes that
    `Operation.get_qasm` reads from the gate on the class's behalf
    (`frozen_params`)."""
    R = 'EQQASM'
    opq = ctx.fn('bqskit/ir/operation.py:Operation.get_qasm')
    by_operation = {x.attr for x in ast.walk(opq.node)
                    if isinstance(x, ast.Attribute)}
    n = 0
    for c in ctx.index.classes.values():
        if not c.path.startswith('bqskit/ir/gates/'):
            continue
        eq = c.methods.get('__eq__')
        writers = [c.methods[k] for k in (
            'qasm_name', 'get_qasm', 'get_qasm_gate_def') if k in c.methods]
        if eq is None or not writers:
            continue
        n += 1
        rep.count()
        rep.seen(eq.qualname)

        def attrs(fn) -> set[str]:
            return {
                x.attr for x in ast.walk(fn.node)
                if isinstance(x, ast.Attribute)
                and isinstance(x.value, ast.Name) and x.value.id == 'self'
            }
        compared = attrs(eq)
        written = set().union(*[attrs(w) for w in writers])
        # methods Operation.get_qasm calls on the gate write on its behalf
        for k in ast.walk(opq.node):
            if isinstance(k, ast.Call) and isinstance(
                    k.func, ast.Attribute):
                # (whatever the receiver is spelled like: `self.gate.m()`
                # or a local alias `gate.m()`)
                m = ctx.index.lookup_method(c, k.func.attr)
                if m is not None and m.cls is c:
                    written |= attrs(m)
        missing = sorted(
            a for a in compared - written
            if 'radix' not in a and a not in by_operation
        )
        rep.check(
            not missing, R, c.name, c.path, writers[0].lineno,
            f'every attribute __eq__ compares ({", ".join(sorted(compared))}) '
            'is read by the QASM writer',
            f'{c.name}.__eq__ distinguishes gates by `{", ".join(missing)}` '
            'but the QASM writer never reads it: unequal gates are written '
            'with the same text, and what is read back is a different gate',
            key='ignored:' + ','.join(missing),
        )
    rep.floor(R, n, 4, 'gate classes with both __eq__ and a QASM writer')


def listwalk(ctx: Ctx, rep: Report) -> None:
    R = 'LISTWALK'
    g = parse_grammar(grammar_text(ctx))
    lists = {r for r, alts in g.items() if any(a and a[0] == r for a in alts)}
    right = {r for r, alts in g.items()
             if any(a and a[-1] == r and a[0] != r for a in alts)}
    if 'idlist' not in lists or right & {'idlist', 'mixedlist', 'explist'}:
        raise AnalysisError(
            'list rules are no longer left-recursive; LISTWALK must be '
            're-derived')
    vis = ctx.cls(f'{VIS}:OPENQASMVisitor')
    n = 0
    for f in vis.methods.values():
        for w in [x for x in ast.walk(f.node) if isinstance(x, ast.While)]:
            tested = {
                norm(c.args[0].value) for c in ast.walk(w.test)
                if isinstance(c, ast.Call) and norm(c.func) == 'len'
                and c.args and isinstance(c.args[0], ast.Attribute)
                and c.args[0].attr == 'children'
            }
            steps = []
            for s in ast.walk(w):
                if not isinstance(s, ast.Assign) or not isinstance(
                        s.targets[0], ast.Name):
                    continue
                v = s.targets[0].id
                for sub in ast.walk(s.value):
                    if isinstance(sub, ast.Subscript) and norm(
                            sub.value) == f'{v}.children' and isinstance(
                                sub.slice, ast.Constant):
                        steps.append((v, sub.slice.value, s.lineno))
            steps = [t for t in steps if t[0] in tested or not tested]
            if not steps:
                continue
            n += 1
            rep.count()
            rep.seen(f.qualname)
            bad = [t for t in steps if t[1] != 0]
            rep.check(
                not bad, R, f'OPENQASMVisitor.{f.name}:{steps[0][0]}', f.path,
                steps[0][2],
                f'the list walk over `{steps[0][0]}` descends into children[0]',
                (f'OPENQASMVisitor.{f.name} walks a left-recursive list and '
                 f'descends into `{bad[0][0]}.children[{bad[0][1]}]`: in a '
                 'two-child node of `idlist: ID | idlist "," ID` child 0 is '
                 'the nested list and child 1 the identifier (a list of two '
                 'or more whole registers raises AttributeError)'
                 ) if bad else None,
                key='descend',
            )
    rep.floor(R, n, 2, 'list walks in the visitor')
