"""C19 — Cost functions and instantiation are faithful to circuit semantics.

Decided statically (DESIGN 4/C19):
  RET     Circuit.instantiate returns the receiver on every normal path
  EFF     from Circuit.instantiate and every instantiater method the only
          structure-relevant effect on the circuit is set_params
  ARGMIN  the four sibling multi-start selectors keep the candidate of least
          Hilbert-Schmidt cost against (circuit, target)
  GEN     cost generators build the native objects from (circuit, target)
The native cost engine (compiled bqskitrs) is outside the source tree.
"""
from __future__ import annotations

import ast

from ..engine import Ctx
from ..report import Report
from ..rules import q
from ..rules import valnum
from ..rules import small
from ..source import AnalysisError
from ..source import norm

OPT = 'bqskit/ir/opt/'
CIRCUIT_MUTATORS = None  # derived from circuit.py at run time


def circuit_mutators(ctx: Ctx) -> set[str]:
    """Public Circuit methods that (transitively) write a structural view:
    derived from circuit.py, not listed by hand."""
    from ..rules import effects
    circ = ctx.cls('bqskit/ir/circuit.py:Circuit')
    structural = {'_circuit', '_dag', '_front', '_rear', '_gate_info',
                  '_graph_info', '_num_qudits', '_radixes'}
    direct = {
        name for name, f in circ.methods.items()
        if effects.fields_written(f.node) & structural
        or any(isinstance(n, ast.Assign) and any(
            norm(t) == 'op._location' for t in n.targets)
            for n in ast.walk(f.node))
    }
    mut = set(direct)
    changed = True
    while changed:
        changed = False
        for name, f in circ.methods.items():
            if name in mut:
                continue
            for c in ast.walk(f.node):
                if isinstance(c, ast.Call) and isinstance(
                    c.func, ast.Attribute,
                ) and norm(c.func.value) == 'self' and c.func.attr in mut:
                    mut.add(name)
                    changed = True
                    break
    mut.discard('__init__')
    return mut


def run(ctx: Ctx, rep: Report) -> None:
    rep.explanation = (
        'Static clauses of C19: Circuit.instantiate returns self on every '
        'path (RET); no method reachable in the instantiaters calls a '
        'structure-mutating Circuit method on the circuit being '
        'instantiated - the set of mutators is derived from circuit.py by '
        'effect analysis - only set_params (EFF); the four multi-start '
        'selectors pick index 0 of an ascending sort keyed by a Hilbert-'
        'Schmidt cost function built from (circuit, target) (ARGMIN); cost '
        'generators pass (circuit, target) to the native objects (GEN). '
        'Values computed by the native engine are not decided.'
    )
    rep.assumptions += ['bqskitrs and the instantiate() of QFactor are '
                        'native code and opaque']
    f = ctx.fn('bqskit/ir/circuit.py:Circuit.instantiate')
    small.rule_returns_self(ctx, rep, f, 'RET')
    g = ctx.cfg(f)
    rep.count()
    rep.check(
        g.must(q.has_call(
            'instantiater.multi_start_instantiate_inplace',
            ['self', 'target', 'multistarts'])), 'RET',
        'Circuit.instantiate:delegates', f.path, f.lineno,
        'every normal path instantiates self against the given target with '
        'the requested number of starts',
        'some normal path returns without '
        'multi_start_instantiate_inplace(self, target, multistarts)',
        key='delegates',
    )
    eff(ctx, rep)
    argmin(ctx, rep)
    gen(ctx, rep)
    # the parameter vector the cost engine scores is in iteration order
    from .C06 import params_order
    params_order(ctx, rep)
    # gradients of the cost go through UnitaryBuilder.eval_apply_*: the
    # evaluating contraction is the in-place one (shared with C06)
    from .C06 import clone_rule
    clone_rule(ctx, rep)
    capable(ctx, rep)
    targetdim(ctx, rep)


def targetdim(ctx: Ctx, rep: Report) -> None:
    """TARGETDIM: `Circuit.instantiate` documents a ValueError for a target
    of the wrong dimension; the native engines abort the process or panic
    on one.  Every multi-start entry point (the base class's and every
    override) that classifies the target with `check_target` compares its
    dimension with the circuit's before anything else uses it."""
    R = 'TARGETDIM'
    n = 0
    for c in ctx.index.classes.values():
        if not c.path.startswith('bqskit/ir/opt/'):
            continue
        for name, f in c.methods.items():
            if not name.startswith('multi_start_instantiate'):
                continue
            calls = [k for k in ast.walk(f.node) if isinstance(k, ast.Call)]
            chk = [k for k in calls if norm(k.func) == 'self.check_target']
            if not chk:
                continue  # delegates to an entry point that does
            n += 1
            rep.count()
            rep.seen(f.qualname)
            dim = [
                k for k in calls
                if norm(k.func).endswith('check_target_dim')
            ] + [
                k for k in ast.walk(f.node) if isinstance(k, ast.Compare)
                and '.dim' in norm(k)
            ]
            # (helpers are inlined by the engine's de-extraction, so line
            # numbers do not order the check and the uses; presence decides)
            ok = bool(dim)
            rep.check(
                ok, R, f'{c.name}.{name}', f.path, f.lineno,
                'the target\'s dimension is compared with the circuit\'s '
                'before the target is used',
                f'{c.name}.{name} classifies the target and hands it to the '
                'start generator / the native engine without comparing its '
                'dimension with the circuit\'s: a wrong-size target aborts '
                'the interpreter (minimization), panics (qfactor) or is '
                'silently accepted (states)',
                key='no-dim-check',
            )
    rep.floor(R, n, 4, 'multi-start entry points')


def capable(ctx: Ctx, rep: Report) -> None:
    """CAPABLE: QFactor declares a circuit instantiable when every gate is a
    LocallyOptimizableUnitary.  The class hierarchy decides who is: the
    constant gates that do not derive from ConstantGate (which supplies the
    trivial `optimize`) are not.  Either every gate class under
    bqskit/ir/gates/constant derives from a locally optimisable base, or
    `is_capable` and `get_violation_report` both exempt parameter-free
    gates; otherwise every ansatz that contains such a gate (CNOT!) is
    rejected and the passes that hard-code the qfactor method cannot run."""
    R = 'CAPABLE'
    consts = [
        c for c in ctx.index.classes.values()
        if c.path.startswith('bqskit/ir/gates/constant/')
        and ctx.index.is_subclass(c, 'Gate')
    ]
    outside = sorted(
        c.name for c in consts
        if not ctx.index.is_subclass(c, 'LocallyOptimizableUnitary')
    )
    rep.floor(R, len(consts), 40, 'constant gate classes')
    qf = ctx.index.cls('bqskit/ir/opt/instantiaters/qfactor.py:QFactor')
    for name in ('is_capable', 'get_violation_report'):
        f = qf.methods[name]
        rep.seen(f.qualname)
        rep.count()
        mentions = {x.attr for x in ast.walk(f.node)
                    if isinstance(x, ast.Attribute)}
        # the predicate may live in a helper of the same module
        for k in ast.walk(f.node):
            if isinstance(k, ast.Call):
                r = ctx.index.resolve_call(k, f, qf)
                if r is not None and getattr(r, 'path', '') == f.path and (
                        hasattr(r, 'node')):
                    mentions |= {x.attr for x in ast.walk(r.node)
                                 if isinstance(x, ast.Attribute)}
        exempt = bool(mentions & {
            'num_params', 'is_constant', 'is_parameterized'})
        rep.check(
            exempt or not outside, R, f'QFactor.{name}', f.path, f.lineno,
            (f'{len(outside)} constant gate classes are not locally '
             'optimisable and the predicate exempts parameter-free gates'
             if outside else 'every constant gate is locally optimisable'),
            f'QFactor.{name} demands LocallyOptimizableUnitary of every '
            f'gate, but {len(outside)} parameter-free gate classes do not '
            f'derive from a locally optimisable base ({", ".join(outside[:6])}'
            ', ...): any ansatz containing one of them is rejected, so '
            'ExtractDiagonalPass and FullBlockZXZPass (which hard-code the '
            'qfactor method for circuits with CNOTs) cannot run',
            key='constant-gates',
        )


def eff(ctx: Ctx, rep: Report) -> None:
    E = 'EFF'
    muts = circuit_mutators(ctx) - {'set_params', 'set_param'}
    if len(muts) < 30:
        raise AnalysisError(
            f'only {len(muts)} Circuit mutators derived; effect analysis '
            'of circuit.py went blind')
    n = 0
    scope = [ctx.fn('bqskit/ir/circuit.py:Circuit.instantiate')]
    for m in ctx.index.modules.values():
        if m.path.startswith(OPT + 'instantiater') or m.path.startswith(
            OPT + 'minimizers') or m.path.startswith(OPT + 'multistartgens'):
            scope += list(m.functions.values())
            for c in m.classes.values():
                scope += list(c.methods.values())
    for f in scope:
        rep.seen(f.qualname)
        recv = 'self' if f.qualname.endswith('Circuit.instantiate') else (
            'circuit')
        bad = []
        for c in ast.walk(f.node):
            if isinstance(c, ast.Call) and isinstance(
                c.func, ast.Attribute,
            ) and norm(c.func.value) == recv and c.func.attr in muts:
                bad.append(c)
        for n_ in ast.walk(f.node):
            if isinstance(n_, (ast.Assign, ast.AugAssign)):
                ts = n_.targets if isinstance(n_, ast.Assign) else [n_.target]
                for t in ts:
                    if isinstance(t, ast.Attribute) and norm(
                        t.value) == recv and t.attr.startswith('_'):
                        bad.append(n_)
        n += 1
        rep.count()
        rep.check(
            not bad, E, f.qualname.split('bqskit.')[-1], f.path, f.lineno,
            f'no structural mutation of `{recv}`',
            'instantiation changes the structure of the circuit: '
            + '; '.join(f'line {b.lineno}: `{norm(b)[:50]}`' for b in bad),
            key='mutates',
        )
    rep.floor(E, n, 15, 'functions on the instantiation path')


def argmin(ctx: Ctx, rep: Report) -> None:
    A = 'ARGMIN'
    sites = [
        (OPT + 'instantiater.py', 'Instantiater',
         'multi_start_instantiate_inplace'),
        (OPT + 'instantiater.py', 'Instantiater',
         'multi_start_instantiate_async'),
        (OPT + 'instantiaters/minimization.py', 'Minimization',
         'multi_start_instantiate_inplace'),
        (OPT + 'instantiaters/minimization.py', 'Minimization',
         'multi_start_instantiate_async'),
    ]
    for path, cls, meth in sites:
        f = ctx.fn(f'{path}:{cls}.{meth}')
        g = ctx.cfg(f)
        rd = ctx.rd(f)
        rep.seen(f.qualname)
        qn = f'{cls}.{meth}'
        tracked = _tracking_loop(ctx, f, g, rd)
        if tracked is not None:
            # "keep the best so far" spelling of the same selection
            rep.count(4)
            for key, ok, good, bad in tracked:
                rep.check(ok, A, f'{qn}:{key}', f.path, f.lineno, good, bad,
                          key=key)
            continue
        # what is installed, read through its temporaries: the selection
        # expression is the (substituted) argument of circuit.set_params
        sp = [n for n in g.nodes if any(
            norm(c.func) == 'circuit.set_params' and len(c.args) == 1
            for c in n.calls())]
        sel = sp
        rep.count(4)
        ok = len(sp) == 1 and g.must(lambda n: n is sp[0])
        rep.check(
            ok, A, qn + ':install', f.path, f.lineno,
            'the selected parameters are installed with set_params on '
            'every path',
            'the selected parameters are not installed by '
            'circuit.set_params(params) on every path', key='install',
        )
        if not ok:
            continue
        inst = [c for c in sp[0].calls()
                if norm(c.func) == 'circuit.set_params'][0]
        def _one(name: str):
            ds = [d for d in rd.reaching(sp[0], name) if d.value is not None]
            return ds[0].value if len(ds) == 1 else None
        v = inst.args[0]
        if isinstance(v, ast.Name) and _one(v.id) is not None:
            v = _one(v.id)                       # params = sorted(...)[0]
        elif isinstance(v, ast.Subscript) and isinstance(
                v.value, ast.Name) and _one(v.value.id) is not None:
            v = ast.Subscript(                   # ranked = sorted(...); [0]
                value=_one(v.value.id), slice=v.slice, ctx=ast.Load())
        form = None
        if isinstance(v, ast.Subscript) and isinstance(
            v.value, ast.Call,
        ) and norm(v.value.func) == 'sorted':
            call = v.value
            rev = any(k.arg == 'reverse' and norm(k.value) == 'True'
                      for k in call.keywords)
            idx = norm(v.slice)
            form = ('min' if (idx == '0' and not rev) or (
                idx == '-1' and rev) else 'not-min')
            key = [k.value for k in call.keywords if k.arg == 'key']
            seq = call.args[0] if call.args else None
        elif isinstance(v, ast.Call) and norm(v.func) == 'min':
            form = 'min'
            key = [k.value for k in v.keywords if k.arg == 'key']
            seq = v.args[0] if v.args else None
        else:
            key, seq = [], None
        rep.check(
            form == 'min', A, qn + ':least', f.path, sel[0].lineno,
            'keeps the candidate with the least cost',
            f'`{norm(v)[:70]}` does not select the candidate of least '
            'cost (ascending sort, first element)', key='least',
        )
        kf = None
        if key and isinstance(key[0], ast.Lambda) and isinstance(
            key[0].body, ast.Call,
        ) and [norm(a) for a in key[0].body.args] == [
            key[0].args.args[0].arg,
        ]:
            kf = norm(key[0].body.func)
        elif key and isinstance(key[0], ast.Name):
            kf = key[0].id
        defs = [d for d in rd.reaching(sel[0], kf)] if kf else []
        vals = [norm(d.value) for d in defs if d.value is not None]
        hs = 'HilbertSchmidtCostGenerator().gen_cost(circuit, target)'
        okk = bool(vals) and hs in vals and all(
            x == hs or x == 'self.cost_fn_gen.gen_cost(circuit, target)'
            for x in vals)
        if len(vals) > 1:
            # the generic cost function may only survive when it is not a
            # residuals function (the HS replacement is guarded by that)
            t = [x for x in g.nodes if x.kind == 'test' and norm(
                x.stmt.test) == 'isinstance(cost_fn, ResidualsFunction)']
            okk = okk and len(t) == 1
        rep.check(
            okk, A, qn + ':cost', f.path, sel[0].lineno,
            'candidates are ranked by a Hilbert-Schmidt cost of '
            '(circuit, target)',
            f'candidates are ranked by `{kf}` = {vals}: not a scalar cost '
            'built from (circuit, target)', key='cost',
        )
        seq_ok = seq is not None and norm(seq) == 'params_list'
        pl = [d for d in rd.reaching(sel[0], 'params_list')
              if d.value is not None]
        src_ok = bool(pl) and all(
            'self.instantiate' in norm(d.value) for d in pl)
        rep.check(
            seq_ok and src_ok, A, qn + ':candidates', f.path, sel[0].lineno,
            'candidates = one instantiate() result per start',
            'the ranked list is not the list of instantiate() results',
            key='candidates',
        )
    rep.floor(A, 16, 16, 'selector obligations')


HS_COST = 'HilbertSchmidtCostGenerator().gen_cost(circuit, target)'


def _tracking_loop(ctx: Ctx, f, g, rd):
    """Recognise the running-minimum spelling of the selection:

        best, best_cost = None, inf
        for x0 in starts:
            p = <instantiate>;  c = cost_fn(p)
            if best is None or c < best_cost:
                best = p;  best_cost = c        # both, under the same test
        circuit.set_params(best)

    Returns None when the function is not written this way, else the four
    ARGMIN obligations [(key, ok, good, bad)]."""
    sps = [(n, c) for n in g.nodes for c in n.calls()
           if norm(c.func) == 'circuit.set_params' and len(c.args) == 1
           and isinstance(c.args[0], ast.Name)]
    if len(sps) != 1:
        return None
    spn, spc = sps[0]
    best = spc.args[0].id
    tests = []
    for t in g.nodes:
        if t.kind != 'test':
            continue
        for c in ast.walk(t.stmt.test):
            if isinstance(c, ast.Compare) and len(c.ops) == 1 and isinstance(
                    c.ops[0], (ast.Lt, ast.LtE, ast.Gt, ast.GtE)):
                lo, hi = (c.left, c.comparators[0]) if isinstance(
                    c.ops[0], (ast.Lt, ast.LtE)) else (
                    c.comparators[0], c.left)
                if isinstance(hi, ast.Name):
                    tests.append((t, lo, hi.id))
    upd = [n for n in g.nodes if isinstance(n.stmt, ast.Assign)
           and norm(n.stmt.targets[0]) == best and n.loop_depth > 0]
    if not tests or not upd:
        return None
    out = []
    t, cost_e, best_cost = tests[0]
    # the cost as an expression over the candidate (a temporary holding it
    # is looked through)
    cost_x = valnum.subst(ctx, f, t, cost_e)
    cost = norm(cost_e)
    under = [n for n in upd if g.edge_dominates(t.id, 'true', n.id)]
    installs = g.must(lambda n: n is spn) and all(
        spn.id not in g.in_loop_body(x) for x in g.nodes if x.kind == 'for')
    out.append((
        'install', installs and len(under) == len(upd),
        f'the kept candidate `{best}` is installed with set_params after '
        'the loop',
        f'`{best}` is not updated only under the comparison, or not '
        'installed by circuit.set_params after the loop'))
    kc = [n for n in g.nodes if isinstance(n.stmt, ast.Assign) and norm(
        n.stmt.targets[0]) == best_cost
        and g.edge_dominates(t.id, 'true', n.id)]
    least = len(tests) == 1 and bool(under) and bool(kc) and all(
        norm(valnum.subst(ctx, f, n, n.stmt.value)) == norm(cost_x)
        for n in kc) and all(
        isinstance(n.stmt.value, ast.Name) for n in under)
    out.append((
        'least', least,
        f'`{best}` and `{best_cost}` are updated together whenever '
        f'`{cost} < {best_cost}`',
        f'the running minimum is not maintained: under `{cost} < '
        f'{best_cost}` the code must record both the candidate and its '
        f'cost (`{best_cost} = {cost}`); otherwise a later, worse candidate '
        'replaces a better one'))
    kf = None
    cand = norm(under[0].stmt.value) if under else None
    if isinstance(cost_x, ast.Call) and len(cost_x.args) == 1 and (
            cand is not None) and norm(cost_x.args[0]) in (
            cand, norm(valnum.subst(ctx, f, t, ast.Name(cand, ast.Load())))):
        kf = norm(cost_x.func)
    vals = [norm(d.value) for d in rd.reaching(t, kf)
            if d.value is not None] if kf else []
    if kf and not vals:
        # substitution already replaced the name by its value (and `target`
        # by its validated form)
        vals = [kf.replace('self.check_target(target)', 'target')]
    okk = bool(vals) and HS_COST in vals and all(
        x in (HS_COST, 'self.cost_fn_gen.gen_cost(circuit, target)')
        for x in vals)
    out.append((
        'cost', okk,
        'candidates are ranked by a Hilbert-Schmidt cost of (circuit, '
        'target)',
        f'candidates are ranked by `{kf}` = {vals}: not a scalar cost built '
        'from (circuit, target) applied to the candidate'))
    pd = [d for d in rd.reaching(t, cand) if d.value is not None] if (
        cand) else []
    out.append((
        'candidates', bool(pd) and all(
            'self.instantiate' in norm(d.value) or 'instantiate' in norm(
                d.value) for d in pd),
        'each candidate is one instantiate() result',
        'the compared candidates are not instantiate() results'))
    return out


def gen(ctx: Ctx, rep: Report) -> None:
    G = 'GEN'
    n = 0
    for path, cls, native in (
        (OPT + 'cost/functions/cost/hilbertschmidt.py',
         'HilbertSchmidtCostGenerator', 'HilbertSchmidtCost'),
        (OPT + 'cost/functions/residuals/hilbertschmidt.py',
         'HilbertSchmidtResidualsGenerator', 'HilbertSchmidtResiduals'),
    ):
        f = ctx.fn(f'{path}:{cls}.gen_cost')
        rep.seen(f.qualname)
        rets = [r for r in ast.walk(f.node) if isinstance(r, ast.Return)]
        n += 1
        rep.count()
        rep.check(
            len(rets) == 1 and norm(rets[0].value) == (
                f'{native}(circuit, target)'), G, f'{cls}.gen_cost', f.path,
            f.lineno, f'builds {native}(circuit, target)',
            f'gen_cost returns `{norm(rets[0].value) if rets else "?"}`, '
            f'not {native}(circuit, target)', key='ctor',
        )
    rep.floor(G, n, 2, 'cost generators')
