"""C11 — Block-wise and control-flow passes apply bodies exactly as specified.

Decided statically (DESIGN 4/C11):
  SPEC    the CFG of each control pass's run() matches its specification
  COUP    ForEachBlockPass.run keeps point / replacement op / error together,
          builds points from positions captured before the body ran, and
          performs write-back, error update and record on every path
  FLOW    per-block sub-model/sub-data are derived from the block's location;
          _sub_do_work measures the error across the workflow run
  FIELDS  PassData.become / copy restore every field (incl. mappings)
  PAIR    capture before / restore on reject in DoThenDecide
"""
from __future__ import annotations

import ast

from ..engine import Ctx
from ..report import Report
from ..rules import fields
from ..rules import q
from ..rules import valnum
from ..source import AnalysisError
from ..source import norm

CTRL = 'bqskit/passes/control/'


def run(ctx: Ctx, rep: Report) -> None:
    rep.explanation = (
        'Static clauses of C11: every control pass\'s run() is checked '
        'against a path specification on its CFG (which body runs under '
        'which predicate edge, how often, with which arguments); '
        'ForEachBlockPass.run is checked for co-update of write-back lists, '
        'for data flow from the captured (cycle, op) to the write-back point '
        'and from the block location to the sub-model; rejected branches '
        'restore circuit and PassData, and PassData.become restores every '
        'field. Error-bound arithmetic is not decided.'
    )
    rep.assumptions += [
        'BasePass.run(circuit, data) is the only body entry point',
        'Circuit.become / PassData.become are decided under C16',
    ]
    spec_ifthenelse(ctx, rep)
    spec_loops(ctx, rep)
    spec_workflow(ctx, rep)
    spec_dothendecide(ctx, rep)
    spec_paralleldo(ctx, rep)
    foreach(ctx, rep)
    sub_do_work(ctx, rep)
    from ..rules.paramflow import rule_paramflow
    rule_paramflow(
        ctx, rep, 'bqskit/passes/control/foreach.py:ForEachBlockPass.run', {})
    filter_model(ctx, rep)
    pdata =ctx.cls('bqskit/compiler/passdata.py:PassData')
    n = fields.rule_become(ctx, rep, pdata)
    n += fields.rule_copy(ctx, rep, pdata)
    rep.floor('FIELDS', n, 8, 'PassData field obligations')


def filter_model(ctx: Ctx, rep: Report) -> None:
    """SAMECONN: ForEachBlockPass hands the body a sub-model cut from
    `data.connectivity` (the physical connectivity of the circuit's qudits
    under the current placement).  The named replace filters decide whether
    the *old* block respects the machine; they must look at the same
    connectivity, not at `data.model` (whose coupling graph is indexed by
    physical qudits - right only for the identity placement)."""
    R = 'SAMECONN'
    f = ctx.fn('bqskit/passes/control/foreach.py:ForEachBlockPass.run')
    g = ctx.cfg(f)
    rep.seen(f.qualname)
    sub = any(
        isinstance(s, ast.Assign) and 'data.connectivity' in norm(s.value)
        for s in ast.walk(f.node)
    )
    n = 0
    for node in g.nodes:
        for c in node.calls():
            if norm(c.func) != 'gen_replace_filter' or len(c.args) < 2:
                continue
            n += 1
            rep.count()
            arg = valnum.subst(ctx, f, node, c.args[1])
            t = norm(arg)
            rep.check(
                sub and 'data.connectivity' in t, R,
                'ForEachBlockPass.run:gen_replace_filter', f.path, node.lineno,
                'the replace filter is built over data.connectivity, like '
                'the sub-models of the body',
                f'the replace filter is built from `{t[:60]}` while the '
                'body\'s sub-models are cut from data.connectivity: under a '
                'non-identity placement a block on a real device edge is '
                'judged non-respecting (and replaced by a larger circuit) '
                'and a block on a non-edge is kept',
                key='filter-model',
            )
    rep.floor(R, n, 1, 'replace-filter constructions in ForEachBlockPass.run')


def _run(ctx: Ctx, path: str, cls: str):
    f = ctx.fn(f'{path}:{cls}.run')
    return f, ctx.cfg(f)


BODY_ARGS = ['circuit', 'data']


def _body_calls(g, recv: str):
    return [n for n in g.nodes if q.has_call(f'{recv}.run')(n)]


def _args_ok(n, recv: str) -> bool:
    return any(fn == f'{recv}.run' and a == BODY_ARGS
               for fn, a, _c in q.call_texts(n))


def spec_ifthenelse(ctx: Ctx, rep: Report) -> None:
    R = 'SPEC'
    f, g = _run(ctx, CTRL + 'ifthenelse.py', 'IfThenElsePass')
    rep.seen(f.qualname)
    qn = 'IfThenElsePass.run'
    cond = [t for t in g.nodes if q.is_test_with_call(
        'self.condition', BODY_ARGS)(t)]
    tb = _body_calls(g, 'self.on_true')
    fb = _body_calls(g, 'self.on_false')
    rep.count(3)
    ok = len(cond) == 1
    rep.check(ok, R, qn, f.path, f.lineno,
              'one evaluation of self.condition(circuit, data) decides',
              f'{len(cond)} predicate tests of self.condition(circuit, data) '
              'found; the branch is not decided by the predicate',
              key='predicate')
    if not ok:
        return
    c = cond[0]
    rep.check(
        len(tb) == 1 and q.dominated(g, tb[0], c, 'true') and _args_ok(
            tb[0], 'self.on_true'), R, qn, f.path, c.lineno,
        'on_true runs exactly under the true edge, with (circuit, data)',
        'on_true.run is not executed exactly once under the true edge of '
        'the predicate with (circuit, data)', key='true-branch',
    )
    guard = [t for t in g.nodes if t.kind == 'test' and norm(
        t.stmt.test) == 'self.on_false is not None']
    rep.check(
        len(fb) == 1 and q.dominated(g, fb[0], c, 'false') and bool(guard)
        and q.dominated(g, fb[0], guard[0], 'true')
        and _args_ok(fb[0], 'self.on_false'), R, qn, f.path, c.lineno,
        'on_false runs exactly under the false edge when present',
        'on_false.run is not executed exactly under the false edge of the '
        'predicate (and only when an else-branch exists)', key='false-branch',
    )
    # both bodies never on one path
    r = g.reach([tb[0].id], include_starts=False) if tb else set()
    rep.check(
        not (fb and fb[0].id in r), R, qn, f.path, c.lineno,
        'the two branches are mutually exclusive',
        'a path runs on_true and then on_false', key='exclusive',
    )


def spec_loops(ctx: Ctx, rep: Report) -> None:
    R = 'SPEC'
    for path, cls, pre in (
        (CTRL + 'whileloop.py', 'WhileLoopPass', 0),
        (CTRL + 'dowhileloop.py', 'DoWhileLoopPass', 1),
    ):
        f, g = _run(ctx, path, cls)
        rep.seen(f.qualname)
        qn = f'{cls}.run'
        loops = [t for t in g.nodes if t.kind == 'test' and isinstance(
            t.stmt, ast.While)]
        body = _body_calls(g, 'self.workflow')
        rep.count(3)
        ok = len(loops) == 1 and norm(loops[0].stmt.test) == (
            'self.condition(circuit, data)')
        rep.check(
            ok, R, qn, f.path, f.lineno,
            'one while-loop tested by self.condition(circuit, data)',
            'the loop is not (only) controlled by '
            'self.condition(circuit, data)', key='loop-test',
        )
        if not ok:
            continue
        lp = loops[0]
        inside = [b for b in body if q.dominated(g, b, lp, 'true')
                  and b.id in g.in_loop_body(lp)]
        outside = [b for b in body if b not in inside]
        rep.check(
            len(inside) == 1 and _args_ok(inside[0], 'self.workflow'), R, qn,
            f.path, lp.lineno,
            'the body runs once per true evaluation of the predicate',
            f'{len(inside)} body calls inside the loop (expected 1, with '
            '(circuit, data))', key='loop-body',
        )
        pre_ok = len(outside) == pre and all(
            b.id not in g.reach([lp.id]) or True for b in outside)
        if pre:
            pre_ok = pre_ok and g.must(lambda n: n in outside) and not (
                g.precedes(lambda n: n in outside, lambda n: n is lp))
        rep.check(
            pre_ok, R, qn, f.path, f.lineno,
            f'{pre} unconditional body run(s) before the first test',
            f'{len(outside)} body run(s) outside the loop (expected {pre}, '
            'unconditional and before the first predicate test)',
            key='pre-body',
        )


def spec_workflow(ctx: Ctx, rep: Report) -> None:
    R = 'SPEC'
    f = ctx.fn('bqskit/compiler/workflow.py:Workflow.run')
    g = ctx.cfg(f)
    rep.seen(f.qualname)
    loops = [n for n in g.nodes if n.kind == 'for']
    rep.count(2)
    ok = len(loops) == 1 and norm(loops[0].stmt.iter) == 'self._passes'
    rep.check(
        ok, R, 'Workflow.run', f.path, f.lineno,
        'iterates self._passes in list order',
        'does not iterate self._passes forward exactly once', key='order',
    )
    if not ok:
        return
    lp = loops[0]
    v = norm(lp.stmt.target)
    calls = [n for n in g.nodes if n.id in g.in_loop_body(lp) and any(
        fn == f'{v}.run' and a == BODY_ARGS and isinstance(
            _parent_await(n, c), ast.Await)
        for fn, a, c in q.call_texts(n))]
    uncond = calls and not any(
        g.edge_dominates(t.id, lab, calls[0].id)
        for t in g.nodes if t.kind == 'test' and t.id in g.in_loop_body(lp)
        for lab in ('true', 'false'))
    rep.check(
        len(calls) == 1 and bool(uncond), R, 'Workflow.run', f.path,
        lp.lineno, 'each pass is awaited once, unconditionally, with '
        '(circuit, data) before the next starts',
        'a pass is skipped, run conditionally, or not awaited in sequence',
        key='await-each',
    )


def _parent_await(n, call):
    for x in n.walk():
        if isinstance(x, ast.Await) and x.value is call:
            return x
    return None


def spec_dothendecide(ctx: Ctx, rep: Report) -> None:
    R = 'SPEC'
    f, g = _run(ctx, CTRL + 'dothendecide.py', 'DoThenDecide')
    rep.seen(f.qualname)
    qn = 'DoThenDecide.run'
    cap_c = q.assigns('old_circuit', 'circuit.copy()')
    cap_d = q.assigns('old_data', 'data.copy()')
    body = q.has_call('self.workflow.run', BODY_ARGS)
    rep.count(5)
    rep.check(
        g.must(cap_c) and g.must(cap_d) and not g.precedes(cap_c, body)
        and not g.precedes(cap_d, body) and g.must(body), 'PAIR', qn, f.path,
        f.lineno, 'circuit and data are captured (copy) before the body runs',
        'the body can run before the old circuit/data are captured by '
        'copy(): a rejected result cannot be undone', key='capture',
    )
    cond = [t for t in g.nodes if q.is_test_with_call(
        'self.condition', ['old_circuit', 'circuit'])(t)]
    ok = len(cond) == 1 and not g.precedes(body, lambda n: n is cond[0])
    rep.check(
        ok, R, qn, f.path, f.lineno,
        'decision = self.condition(old_circuit, circuit) after the body',
        'the decision is not self.condition(old_circuit, circuit) evaluated '
        'after the body', key='decision',
    )
    if not ok:
        return
    c = cond[0]
    rc = [n for n in g.nodes if q.has_call('circuit.become',
                                           ['old_circuit'])(n)]
    rd_ = [n for n in g.nodes if q.has_call('data.become', ['old_data'])(n)]
    rej_all = g.reach([b for b, lab in g.succ[c.id] if lab == 'false'])
    rep.check(
        len(rc) == 1 and len(rd_) == 1
        and q.dominated(g, rc[0], c, 'false')
        and q.dominated(g, rd_[0], c, 'false')
        and g.must(lambda n: n is rc[0], start=_succ(g, c, 'false'))
        and g.must(lambda n: n is rd_[0], start=_succ(g, c, 'false')),
        'PAIR', qn, f.path, c.lineno,
        'the reject edge restores both circuit and data on every path',
        'the reject edge does not restore both the circuit '
        '(become(old_circuit)) and the pass data (become(old_data)) on '
        'every path', key='restore',
    )
    acc = g.reach([_succ(g, c, 'true')])
    rep.check(
        not any(n.id in acc for n in rc + rd_), R, qn, f.path, c.lineno,
        'the accept edge leaves circuit and data as the body produced them',
        'the accept edge also restores the old state', key='accept',
    )
    _ = rej_all


def _succ(g, t, label: str) -> int:
    for b, lab in g.succ[t.id]:
        if lab == label:
            return b
    raise AnalysisError(f'no {label} edge at line {t.lineno}')


def spec_paralleldo(ctx: Ctx, rep: Report) -> None:
    R = 'SPEC'
    f, g = _run(ctx, CTRL + 'paralleldo.py', 'ParallelDo')
    rep.seen(f.qualname)
    qn = 'ParallelDo.run'
    rep.count(5)
    mp = [c for n in g.nodes for fn, a, c in q.call_texts(n)
          if fn == 'runtime.map']
    kws = {k.arg: norm(k.value) for c in mp for k in c.keywords}
    rep.check(
        len(mp) == 1 and [norm(a) for a in mp[0].args] == [
            '_sub_do_work', 'self.workflows'] and kws == {
            'circuit': 'circuit', 'data': 'data'}, R, qn, f.path, f.lineno,
        'every workflow is mapped over the same (circuit, data)',
        'runtime.map is not called as map(_sub_do_work, self.workflows, '
        'circuit=circuit, data=data)', key='map',
    )
    bc = q.has_call('circuit.become', ['best_circ'])
    bd = q.has_call('data.become', ['best_data'])
    rep.check(
        g.must(bc) and g.must(bd), 'PAIR', qn, f.path, f.lineno,
        'circuit and data both become the selected result on every path',
        'circuit.become(best_circ) and data.become(best_data) are not both '
        'performed on every path', key='become-both',
    )
    # selection keeps circuit and data together
    lt = [t for t in g.nodes if q.is_test_with_call(
        'self.less_than', ['_circ', 'best_circ'])(t)]
    sc = [n for n in g.nodes if q.assigns('best_circ', '_circ')(n)]
    sd = [n for n in g.nodes if q.assigns('best_data', '_data')(n)]
    rep.check(
        len(lt) == 1 and len(sc) == 1 and len(sd) == 1
        and q.dominated(g, sc[0], lt[0], 'true')
        and q.dominated(g, sd[0], lt[0], 'true'), 'COUP', qn, f.path,
        f.lineno,
        'best circuit and its data are replaced together under less_than',
        'the best circuit and its pass data are not updated together under '
        'self.less_than(_circ, best_circ)', key='select-pair',
    )
    pf = [t for t in g.nodes if t.kind == 'test' and norm(
        t.stmt.test) == 'self.pick_first']
    cancel = [n for n in g.nodes if q.has_call('runtime.cancel',
                                               ['future'])(n)]
    nxt = [n for n in g.nodes if q.has_call('runtime.next', ['future'])(n)]
    rep.check(
        len(pf) == 1 and len(cancel) == 1 and len(nxt) == 1
        and q.dominated(g, cancel[0], pf[0], 'true')
        and not g.precedes(lambda n: n is nxt[0], lambda n: n is cancel[0]),
        R, qn, f.path, f.lineno,
        'remaining work is cancelled only in pick-first mode, after the '
        'first batch arrived',
        'runtime.cancel(future) is not confined to the pick_first branch '
        'after runtime.next(future)', key='cancel',
    )
    aw = [n for n in g.nodes if any(
        isinstance(x, ast.Await) and norm(x.value) == 'future'
        for x in n.walk())]
    rep.check(
        len(aw) == 1 and bool(pf) and q.dominated(g, aw[0], pf[0], 'false'),
        R, qn, f.path, f.lineno,
        'without pick-first every result is awaited',
        'the non-pick-first branch does not await the whole future',
        key='await-all',
    )


def foreach(ctx: Ctx, rep: Report) -> None:
    f, g = _run(ctx, CTRL + 'foreach.py', 'ForEachBlockPass')
    rep.seen(f.qualname)
    rd = ctx.rd(f)
    qn = 'ForEachBlockPass.run'
    # collection: blocks hold (cycle, op) of ops passing the filter
    # (the engine reads the append loop and the list comprehension as the
    # same comprehension)
    coll = [a for a in ast.walk(f.node) if isinstance(a, ast.Assign)
            and norm(a.targets[0]) == 'blocks'
            and isinstance(a.value, ast.ListComp)]
    rep.count(10)
    ok = len(coll) == 1 and len(coll[0].value.generators) == 1
    if ok:
        gen = coll[0].value.generators[0]
        ok = (
            norm(gen.iter) == 'circuit.operations_with_cycles()'
            and norm(gen.target) == '(cycle, op)'
            and [norm(x) for x in gen.ifs] == ['self.collection_filter(op)']
            and norm(coll[0].value.elt) == '(cycle, op)'
        )
    rep.check(
        ok, 'SPEC', qn, f.path, f.lineno,
        'blocks = the (cycle, op) pairs accepted by the collection filter, '
        'in iteration order',
        'the block list is not exactly the (cycle, op) pairs of the '
        'operations accepted by self.collection_filter(op)',
        key='collection',
    )
    # body runs once per block on the block's subcircuit
    mp = [c for n in g.nodes for fn, a, c in q.call_texts(n)
          if fn.endswith('.map')]
    ok = len(mp) == 1 and [norm(a) for a in mp[0].args] == [
        '_sub_do_work', '[self.workflow] * len(subcircuits)', 'subcircuits',
        'block_datas']
    rep.check(
        ok, 'SPEC', qn, f.path, f.lineno,
        'the workflow is mapped once over every block\'s sub-circuit and '
        'sub-data', 'the body is not mapped as map(_sub_do_work, '
        '[self.workflow] * len(subcircuits), subcircuits, block_datas)',
        key='map',
    )
    # post-processing loop
    post = [n for n in g.nodes if n.kind == 'for' and norm(
        n.stmt.iter) == 'enumerate(blocks)']
    if len(post) != 2:
        raise AnalysisError(
            'ForEachBlockPass.run: expected pre- and post-processing loops '
            f'over enumerate(blocks), found {len(post)}')
    pre_lp, post_lp = post
    body = g.in_loop_body(post_lp)
    rf = [t for t in g.nodes if t.id in body and q.is_test_with_call(
        'replace_filter', ['subcircuit', 'op'])(t)]
    pa = [n for n in g.nodes if n.id in body and q.has_call(
        'points.append')(n)]
    oa = [n for n in g.nodes if n.id in body and q.has_call(
        'ops.append')(n)]
    ea = [n for n in g.nodes if n.id in body and isinstance(
        n.stmt, ast.AugAssign) and norm(n.stmt.target) == 'error_sum']
    ok = len(rf) == 1 and len(pa) == 1 and len(oa) == 1 and len(ea) == 1
    if ok:
        t = rf[0]
        ok = all(q.dominated(g, n, t, 'true') for n in (pa[0], oa[0], ea[0]))
        # together: each is on every path through the true branch
        st = _succ(g, t, 'true')
        ok = ok and all(
            g.must(lambda n, m=m: n is m, start=st, ends={post_lp.id})
            for m in (pa[0], oa[0], ea[0]))
    rep.check(
        ok, 'COUP', qn, f.path, post_lp.lineno,
        'point, replacement op and error term are recorded together, '
        'exactly when replace_filter(subcircuit, op) accepts',
        'the write-back point, the replacement operation and the error '
        'term are not recorded together under the true edge of '
        'replace_filter(subcircuit, op)', key='accept-together',
    )
    if ok:
        # data flow: point from the captured (cycle, op); op from result i
        ptxt = [a for fn, a, _c in q.call_texts(pa[0])
                if fn == 'points.append'][0]
        rep.check(
            ptxt == ['CircuitPoint(cycle, op.location[0])']
            and norm(post_lp.stmt.target) == '(i, (cycle, op))', 'FLOW', qn,
            f.path, pa[0].lineno,
            'write-back point = position captured before the body ran',
            f'write-back point is `{ptxt}`; it must be the (cycle, '
            'op.location[0]) captured in blocks before the body ran',
            key='point-flow',
        )
        otxt = [c for fn, a, c in q.call_texts(oa[0])
                if fn == 'ops.append'][0]
        o = otxt.args[0]
        good = isinstance(o, ast.Call) and norm(o.func) == 'Operation' and (
            len(o.args) == 3 and norm(o.args[0]).startswith(
                'CircuitGate(subcircuit')
            and norm(o.args[1]) == 'op.location'
            and norm(o.args[2]) == 'subcircuit.params')
        sub = [n for n in g.nodes if n.id in body and q.assigns(
            'subcircuit', 'completed_subcircuits[i]')(n)]
        rep.check(
            good and len(sub) == 1, 'FLOW', qn, f.path, oa[0].lineno,
            'replacement = result i as a CircuitGate at the original '
            'location with its own parameters',
            'the replacement operation is not Operation(CircuitGate('
            'completed_subcircuits[i]), op.location, subcircuit.params)',
            key='op-flow',
        )
        etxt = norm(ea[0].stmt.value)
        bd = [n for n in g.nodes if n.id in body and q.assigns(
            'block_data', 'completed_block_datas[i]')(n)]
        rep.check(
            etxt == 'block_data.error' and isinstance(
                ea[0].stmt.op, ast.Add) and len(bd) == 1, 'FLOW', qn, f.path,
            ea[0].lineno, 'error term = error reported by block i',
            f'the accumulated error term is `{etxt}`, not the error '
            'reported for block i', key='error-flow',
        )
    # after the loop: write-back, record, error update on every path with
    # blocks
    br = q.has_call('circuit.batch_replace', ['points', 'ops'])
    ue = q.has_call('data.update_error_mul', ['error_sum'])
    rec = q.has_call('data[self.key].append', ['completed_block_datas'])
    start = post_lp.id
    after = lambda p: g.must(p, start=start) and not [
        n for n in g.where(p) if n.id in body]
    rep.check(
        after(br), 'COUP', qn, f.path, post_lp.lineno,
        'accepted results are written back with one batch_replace after '
        'the loop', 'circuit.batch_replace(points, ops) is not performed '
        'once after the decision loop on every path', key='write-back',
    )
    rep.check(
        after(ue), 'COUP', qn, f.path, post_lp.lineno,
        'the summed block error is folded into data.error',
        'data.update_error_mul(error_sum) is not performed after the loop',
        key='error-update',
    )
    rep.check(
        after(rec), 'COUP', qn, f.path, post_lp.lineno,
        'block data recorded', 'the block data record is not appended',
        key='record',
    )
    es0 = [n for n in g.nodes if q.assigns('error_sum', '0.0')(n)]
    rep.check(
        len(es0) == 1 and es0[0].id not in body, 'COUP', qn, f.path,
        post_lp.lineno, 'error_sum starts at 0.0 outside the loop',
        'error_sum is not initialised to 0.0 once before the loop',
        key='error-init',
    )
    # FLOW: sub-model from the block's location
    pre_body = g.in_loop_body(pre_lp)
    sm = [n for n in g.nodes if n.id in pre_body and isinstance(
        n.stmt, ast.Assign) and norm(n.stmt.targets[0]) == 'submodel']
    rep.count(4)
    if len(sm) != 1 or not isinstance(sm[0].stmt.value, ast.Call):
        rep.fail('FLOW', qn, f.path, pre_lp.lineno,
                 'the per-block sub-model is not built in the loop',
                 key='submodel')
    else:
        c = sm[0].stmt.value
        deps = [rd.closure(sm[0], a)[0] for a in c.args]
        a = [norm(x) for x in c.args]
        ok = (
            norm(c.func) == 'MachineModel' and len(c.args) == 4
            and a[0] == 'len(op.location)'
            and a[1] == 'coupling_graph.get_subgraph(op.location, '
            'subnumbering)'
            and 'data.connectivity' in deps[1]
            and 'data.model' in deps[2] and a[2].endswith('.gate_set')
            and 'circuit.radixes' in deps[3] and 'op.location' in deps[3]
        )
        rep.check(
            ok, 'FLOW', qn, f.path, sm[0].lineno,
            'sub-model = (block width, induced sub-graph of the current '
            'connectivity at op.location, the model\'s gate set, the '
            'block\'s radixes)',
            f'sub-model built as MachineModel({", ".join(a)}); it must use '
            'the block width, data.connectivity.get_subgraph(op.location, '
            'subnumbering), data.model.gate_set and the radixes at '
            'op.location', key='submodel',
        )
        sn = [n for n in g.nodes if n.id in pre_body and isinstance(
            n.stmt, ast.Assign) and norm(n.stmt.targets[0]) == 'subnumbering']
        def _subnum(v: ast.AST) -> bool:
            """{L[i]: i for i in range(len(L))} or its spellings
            {q: i for i, q in enumerate(L)}, dict(zip(L, range(len(L)))),
            with L = op.location."""
            L = 'op.location'
            if isinstance(v, ast.DictComp) and len(v.generators) == 1:
                gen = v.generators[0]
                if gen.ifs:
                    return False
                if norm(gen.iter) == f'range(len({L}))' and isinstance(
                        gen.target, ast.Name):
                    i = gen.target.id
                    return norm(v.key) == f'{L}[{i}]' and norm(v.value) == i
                if norm(gen.iter) == f'enumerate({L})' and isinstance(
                        gen.target, ast.Tuple) and len(gen.target.elts) == 2:
                    i, qn_ = (norm(x) for x in gen.target.elts)
                    return norm(v.key) == qn_ and norm(v.value) == i
            return norm(v) in (f'dict(zip({L}, range(len({L}))))',)
        rep.check(
            len(sn) == 1 and _subnum(sn[0].stmt.value),
            'FLOW', qn, f.path, pre_lp.lineno,
            'sub-numbering maps the i-th qudit of the location to i',
            'the block renumbering is not {op.location[i]: i}',
            key='subnumbering',
        )
        st = [n for n in g.nodes if n.id in pre_body and isinstance(
            n.stmt, ast.Assign) and norm(
            n.stmt.targets[0]) == "block_data['model']"]
        rep.check(
            len(st) == 1 and norm(st[0].stmt.value) == 'submodel', 'FLOW',
            qn, f.path, pre_lp.lineno, 'sub-model stored in the block data',
            'the sub-model is not stored under block_data[\'model\']',
            key='submodel-store',
        )
        sp = [n for n in g.nodes if n.id in pre_body and q.has_call(
            'subcircuit.set_params', ['op.params'])(n)]
        rep.check(
            len(sp) == 1, 'FLOW', qn, f.path, pre_lp.lineno,
            'block parameters are written into the sub-circuit copy',
            'the block\'s parameters are not applied to its sub-circuit',
            key='sub-params',
        )


def sub_do_work(ctx: Ctx, rep: Report) -> None:
    f = ctx.fn('bqskit/compiler/basepass.py:_sub_do_work')
    g = ctx.cfg(f)
    rep.seen(f.qualname)
    qn = '_sub_do_work'
    body = q.has_call('workflow.run', ['circuit', 'data'])
    old = q.assigns('old_utry', 'circuit.get_unitary()')
    new = q.assigns('new_utry', 'circuit.get_unitary()')
    err = q.assigns('data.error', 'new_utry.get_distance_from(old_utry)')
    rep.count(2)
    oldn, newn, errn = g.where(old), g.where(new), g.where(err)
    bn = g.where(body)
    ok = (
        len(oldn) == 1 and len(newn) == 1 and len(errn) == 1 and len(bn) == 1
        and g.must(body)
        and bn[0].id in g.reach([oldn[0].id])
        and oldn[0].id not in g.reach([bn[0].id], include_starts=False)
        and newn[0].id in g.reach([bn[0].id], include_starts=False)
        and bn[0].id not in g.reach([newn[0].id], include_starts=False)
        and errn[0].id in g.reach([newn[0].id], include_starts=False)
    )
    rep.check(
        ok, 'FLOW', qn, f.path, f.lineno,
        'error = distance between the unitaries taken before and after '
        'the workflow ran',
        'data.error is not new_utry.get_distance_from(old_utry) with the '
        'two unitaries taken immediately before and after workflow.run',
        key='error-measure',
    )
    ret = [n for n in g.nodes if isinstance(n.stmt, ast.Return)]
    rep.check(
        len(ret) == 1 and norm(ret[0].stmt.value) == '(circuit, data)',
        'FLOW', qn, f.path, f.lineno, 'returns (circuit, data)',
        'does not return (circuit, data)', key='return',
    )
