"""C01 — compile() preserves circuit semantics under the reported mappings.

The statement is numerical.  Decided statically (DESIGN 4/C01), all
necessary structural clauses:
  WF    typestate of every standard circuit workflow configuration:
        measurements extracted before any rewriting pass and restored last,
        SetModelPass before every model reader, balanced connectivity
        extraction, final facts
  GA    block rewrites are accepted only under cost < success_threshold
  IXT   mapping bookkeeping is well typed: routing composes
        final_mapping with pi, ApplyPlacement composes both mappings with
        the placement, emitted locations are physical
  PAIR  measurements: exactly the recorded points are removed; they are
        re-appended on the qudits named by the final mapping
"""
from __future__ import annotations

import ast

from ..engine import Ctx
from ..report import Report
from ..rules import ga
from ..rules import q
from ..rules import wf
from ..source import norm
from . import C09


def run(ctx: Ctx, rep: Report) -> None:
    rep.explanation = (
        'Static clauses of C01: the workflow typestate over the 8 circuit '
        'workflow configurations (ordering of measurement handling, model '
        'setting, connectivity extraction, final facts) (WF); the guarded-'
        'accept analysis of all numerical passes (GA); the index-space '
        'checks of the mapping bookkeeping in routing, layout and '
        'ApplyPlacement and of emitted locations in both forward passes '
        '(IXT); measurement extraction / restoration (PAIR). Numerical '
        'equality of the compiled circuit with its input is not decided.'
    )
    rep.assumptions += [
        'pass effect table in sa/rules/wftypestate.py',
        'index spaces of PassData fields as documented in passdata.py',
    ]
    wf_rule(ctx, rep)
    n = ga.rule_ga(ctx, rep)
    rep.floor('GA', n, 13, 'functions comparing against the threshold')
    for qual, tag in C09.FWD:
        C09.ixt_flow(ctx, rep, qual, tag)
        C09.pair(ctx, rep, qual, tag)
    C09.publish(ctx, rep)
    from ..rules.undo import rule_undo
    rule_undo(ctx, rep, ('bqskit/passes/mapping/',), 1)
    measure(ctx, rep)
    # single-qudit retargeting (ZXZXZ) spells the same rotation two ways
    from ..rules.branchsib import rule_altspell
    rule_altspell(ctx, rep, 'bqskit/passes/', 3)


def wf_rule(ctx: Ctx, rep: Report) -> None:
    R = 'WF'
    cfgs = wf.circuit_configs(ctx)
    rep.floor(R, len(cfgs), 8, 'circuit workflow configurations')
    for label, tree, dec in cfgs:
        out, a = wf.analyse(ctx, tree, circuit=True)
        rep.count(a.leaves)
        wf.report_issues(rep, R, label, a)
        wf.final_facts(rep, R, label, out, wf.CIRCUIT_FINAL, wf.WHY)
        seq = wf.top_sequence(tree)
        rep.count(3)
        idle = ('LogPass', 'LogErrorPass', 'NOOPPass', 'SetRandomSeedPass')
        tail = [c for c in seq if c not in idle]
        rep.check(
            bool(tail) and tail[-1] == 'RestoreMeasurements', R,
            f'{label}:restore-last', wf.COMPILE, 0,
            'RestoreMeasurements is the last pass that touches the circuit',
            f'the workflow ends with {tail[-2:]}: measurements are restored '
            'before the last rewriting pass', key='restore-last',
        )
        rep.check(
            not out.has('MEAS_OUT'), R, f'{label}:restored', wf.COMPILE, 0,
            'extracted measurements are restored on every branch',
            'measurements are extracted but not restored on some branch',
            key='restored',
        )
        i_e = seq.index('ExtractMeasurements') if (
            'ExtractMeasurements' in seq) else -1
        # unfolding and passes that do not touch the circuit may come first
        before = [c for c in seq[:max(i_e, 0)] if c not in (
            'UnfoldPass', 'SetRandomSeedPass', 'LogPass', 'LogErrorPass',
            'NOOPPass', 'SetModelPass')]
        rep.check(
            i_e >= 0 and not before, R, f'{label}:extract-first',
            wf.COMPILE, 0,
            'measurements are extracted before anything but unfolding',
            f'passes {before} run before ExtractMeasurements',
            key='extract-first',
        )


def measure(ctx: Ctx, rep: Report) -> None:
    P = 'PAIR'
    f = ctx.fn('bqskit/passes/measure.py:ExtractMeasurements.run')
    g = ctx.cfg(f)
    rep.seen(f.qualname)
    t = [x for x in g.nodes if x.kind == 'test' and norm(
        x.stmt.test) == 'isinstance(op.gate, MeasurementPlaceholder)']
    app = [n for n in g.nodes if q.has_call(
        'points_to_remove.append',
        ['CircuitPoint(cycle, op.location[0])'])(n)]
    rec = [n for n in g.nodes if q.has_call(
        'measurements.update', ['op.gate.measurements'])(n)]
    pop = [n for n in g.nodes if q.has_call(
        'circuit.batch_pop', ['points_to_remove'])(n)]
    store = [n for n in g.nodes if isinstance(n.stmt, ast.Assign) and norm(
        n.stmt.targets[0]) == 'data[self.key]']
    rep.count(3)
    rep.check(
        len(t) == 1 and len(app) == 1 and len(rec) == 1
        and g.edge_dominates(t[0].id, 'true', app[0].id)
        and g.edge_dominates(t[0].id, 'true', rec[0].id), P,
        'ExtractMeasurements.run:collect', f.path, f.lineno,
        'exactly the measurement placeholders are collected, each with '
        'its measurement map',
        'the points collected for removal are not exactly the '
        'MeasurementPlaceholder operations (with their maps recorded)',
        key='collect',
    )
    rep.check(
        len(pop) == 1 and len(store) == 1 and norm(
            store[0].stmt.value) == '(cregs, measurements)' and {
            (x.id, l) for x, l in g.guards_of(pop[0].id)} == {
            (x.id, l) for x, l in g.guards_of(store[0].id)}, P,
        'ExtractMeasurements.run:remove', f.path, f.lineno,
        'the collected points are removed and recorded together',
        'measurements are removed without being recorded (or recorded '
        'without being removed)', key='remove-record',
    )
    r = ctx.fn('bqskit/passes/measure.py:RestoreMeasurements.run')
    gr = ctx.cfg(r)
    rep.seen(r.qualname)
    tx = norm(r.node)
    rep.check(
        "pi = data['final_mapping']" in tx
        and 'measurements = {pi[q]: c for q, c in measurements.items()}'
        in tx and 'circuit.append_gate(mph, list(measurements.keys()))'
        in tx and 'MeasurementPlaceholder(list(cregs.items()), '
        'measurements)' in tx, P, 'RestoreMeasurements.run', r.path,
        r.lineno,
        'each measured logical qudit q is re-measured at final_mapping[q], '
        'appended at the end',
        'measurements are not re-appended at the qudits '
        'final_mapping[q] of the measured logical qudits', key='restore',
    )
    _ = gr
