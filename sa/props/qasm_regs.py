"""REGOFF — register-local qubit indices never reach the circuit unshifted
(part of C17).

An OpenQASM program may declare several quantum registers; BQSKit lays them
out one after the other, so the circuit index of `r[i]` is (sum of the sizes
of the registers declared before r) + i.  In the reader
(bqskit/ir/lang/qasm2/visitor.py) that sum is always computed the same way:
a cursor that starts at 0, walks `self.qubit_regs` in order and is advanced
by the size of every register that is passed over, or one of the two helper
methods that do exactly this.  The rule has three parts, all on
OPENQASMVisitor:

  cursor   every loop over self.qubit_regs that maintains a cursor starts it
           at 0 before the loop and advances it by the register's size on
           every path that goes on to the next register (CURSOR discipline,
           siblings compared)
  local    an index read from the parse tree (`int(<node>[k])`) is local to
           its register; it may reach a circuit-index sink - CircuitLocation
           arguments, keys of the measurement map, elements of a returned
           index list - only as `offset + local`, where offset is a cursor
           or the result of convert_qubit_id_to_first_index
  first    nothing addresses `self.qubit_regs[<constant>]`: code that does
           assumes a single register
"""
from __future__ import annotations

import ast

from ..engine import Ctx
from ..report import Report
from ..source import norm

VIS = 'bqskit/ir/lang/qasm2/visitor.py'
R = 'REGOFF'
FIRST_INDEX = 'self.convert_qubit_id_to_first_index'


def _names(e: ast.AST) -> set[str]:
    return {x.id for x in ast.walk(e) if isinstance(x, ast.Name)}


def _is_local_src(e: ast.AST) -> bool:
    """`int(<subscript>)`: a number taken from a parse-tree node."""
    return (isinstance(e, ast.Call) and norm(e.func) == 'int'
            and len(e.args) == 1 and isinstance(e.args[0], ast.Subscript))


def regoff(ctx: Ctx, rep: Report) -> None:
    cls = ctx.cls(f'{VIS}:OPENQASMVisitor')
    n_cursor = n_sink = 0
    for name, f in sorted(cls.methods.items()):
        g = ctx.cfg(f)
        fn = f.node
        # ---- classify names ------------------------------------------------
        local: set[str] = set()
        offset: set[str] = set()
        for s in ast.walk(fn):
            if not isinstance(s, ast.Assign):
                continue
            tg, v = s.targets[0], s.value
            if isinstance(tg, ast.Name):
                if _is_local_src(v):
                    local.add(tg.id)
                if isinstance(v, ast.Call) and norm(v.func) == FIRST_INDEX:
                    offset.add(tg.id)
            elif isinstance(tg, ast.Tuple) and isinstance(v, ast.Tuple) and (
                    len(tg.elts) == len(v.elts)):
                for t, x in zip(tg.elts, v.elts):
                    if isinstance(t, ast.Name) and _is_local_src(x):
                        local.add(t.id)
        # ---- which parse-tree node a name / index was read from -------------
        node_of: dict[str, str] = {}

        def base_of(e: ast.AST) -> str | None:
            if isinstance(e, ast.Name):
                return node_of.get(e.id)
            if isinstance(e, ast.Call) and norm(e.func) in ('int', 'str') \
                    and len(e.args) == 1:
                return base_of(e.args[0])
            if isinstance(e, ast.Subscript):
                return norm(e.value)
            return None
        for s in ast.walk(fn):
            if not isinstance(s, ast.Assign):
                continue
            tg, v = s.targets[0], s.value
            pairs = []
            if isinstance(tg, ast.Name):
                pairs = [(tg, v)]
            elif isinstance(tg, ast.Tuple) and isinstance(v, ast.Tuple) and (
                    len(tg.elts) == len(v.elts)):
                pairs = list(zip(tg.elts, v.elts))
            for t, x in pairs:
                if isinstance(t, ast.Name) and not isinstance(x, ast.Name):
                    b = base_of(x)
                    if b:
                        node_of[t.id] = b
        # offset and index must come from the same qubit reference
        for s in ast.walk(fn):
            if not (isinstance(s, ast.BinOp) and isinstance(s.op, ast.Add)):
                continue
            for a, o in ((s.left, s.right), (s.right, s.left)):
                if not (isinstance(o, ast.Call) and norm(o.func) == (
                        FIRST_INDEX) and o.args):
                    continue
                if not (_is_local_src(a) or (
                        isinstance(a, ast.Name) and a.id in local)):
                    continue
                n_sink += 1
                rep.count()
                bi, bn = base_of(a), base_of(o.args[0])
                rep.check(
                    bi is None or bn is None or bi == bn, R,
                    f'OPENQASMVisitor.{name}:pair:{norm(a)}', f.path,
                    s.lineno,
                    f'index `{norm(a)}` is shifted by the offset of its own '
                    'register',
                    f'`{norm(s)}` adds the index `{norm(a)}` (read from '
                    f'`{bi}`) to the offset of the register named by '
                    f'`{norm(o.args[0])}` (read from `{bn}`): the index of '
                    'one qubit reference is shifted by the register of '
                    'another', key=f'pair:{norm(a)}',
                )
        # ---- cursors -------------------------------------------------------
        loops = [n for n in g.nodes if n.kind == 'for' and norm(
            n.stmt.iter) == 'self.qubit_regs']
        for lp in loops:
            tgt = lp.stmt.target
            size_txt = None
            if isinstance(tgt, ast.Name):
                size_txt = f'{tgt.id}.size'
            elif isinstance(tgt, ast.Tuple) and len(tgt.elts) == 2:
                size_txt = norm(tgt.elts[1])
            body = g.in_loop_body(lp)
            steps = [m for m in g.nodes if m.id in body and isinstance(
                m.stmt, ast.AugAssign) and isinstance(m.stmt.op, ast.Add)
                and isinstance(m.stmt.target, ast.Name)]
            if steps:
                cur = steps[0].stmt.target.id
            else:
                # a name that enters the loop as the constant 0 and is read
                # inside it is a cursor whose advance is missing
                cands = sorted({
                    x.id for m in g.nodes if m.id in body for x in m.walk()
                    if isinstance(x, ast.Name) and isinstance(
                        x.ctx, ast.Load)
                    and any(d.kind == 'assign' and isinstance(
                        d.value, ast.Constant) and d.value.value == 0
                        and type(d.value.value) is int
                        for d in ctx.rd(f).reaching(lp, x.id))})
                if not cands:
                    continue  # a lookup loop without a cursor
                cur = cands[0]
            offset.add(cur)
            n_cursor += 1
            rep.count()
            inits = [d for d in ctx.rd(f).reaching(lp, cur)
                     if d.node.id not in body and d.node.id != lp.id]
            ok_init = bool(inits) and all(
                d.kind == 'assign' and isinstance(d.value, ast.Constant)
                and d.value.value == 0 for d in inits)
            ok_step = all(norm(m.stmt.value) == size_txt for m in steps)
            # every way round the loop (iter edge -> back to the header)
            # advances the cursor exactly once: at least once ...
            st = [b for b, l in g.succ[lp.id] if l == 'iter']
            ok_once = bool(st) and g.must(
                lambda m: m in steps, start=st[0], ends={lp.id})
            # ... and not twice
            for m in steps:
                again = g.reach([m.id], blocked={lp.id},
                                include_starts=False)
                if any(x.id in again for x in steps):
                    ok_once = False
            # ... and the cursor is what the result is built from
            used = any(
                isinstance(x, ast.Name) and x.id == cur
                and isinstance(x.ctx, ast.Load)
                for m in g.nodes if m not in steps for x in m.walk())
            ok_once = ok_once and used
            rep.check(
                ok_init and ok_step and ok_once, R,
                f'OPENQASMVisitor.{name}:cursor:{cur}', f.path, lp.lineno,
                f'`{cur}` starts at 0 and is advanced by {size_txt} once per '
                'register passed',
                f'the register cursor `{cur}` is not (0, then += {size_txt} '
                'exactly once for every register passed over): qubits of '
                'every register but the first get the wrong circuit index',
                key='cursor',
            )
            # inside the walk: `cursor + index` happens under the match test
            # of the register that the index belongs to
            for m in g.nodes:
                if m.id not in body or m.stmt is None:
                    continue
                for s in m.walk():
                    if not (isinstance(s, ast.BinOp) and isinstance(
                            s.op, ast.Add)):
                        continue
                    for a, o in ((s.left, s.right), (s.right, s.left)):
                        if not (isinstance(o, ast.Name) and o.id == cur
                                and isinstance(a, ast.Name)
                                and a.id in local):
                            continue
                        names = []
                        for t, lab in g.guards_of(m.id):
                            if t.kind != 'test' or not isinstance(
                                    t.stmt.test, ast.Compare):
                                continue
                            c = t.stmt.test
                            sides = [c.left, c.comparators[0]]
                            if len(c.ops) == 1 and (
                                (isinstance(c.ops[0], ast.Eq)
                                 and lab == 'true')
                                or (isinstance(c.ops[0], ast.NotEq)
                                    and lab == 'false')):
                                names += [x for x in sides
                                          if base_of(x) is not None]
                        if not names:
                            continue
                        n_sink += 1
                        rep.count()
                        bi = base_of(a)
                        rep.check(
                            bi is None or any(
                                base_of(x) == bi for x in names), R,
                            f'OPENQASMVisitor.{name}:pair:{a.id}', f.path,
                            m.lineno,
                            f'`{a.id}` is shifted under the match of its own '
                            'register name',
                            f'`{norm(s)}` shifts the index `{a.id}` (read '
                            f'from `{bi}`) under a match of '
                            f'`{norm(names[0])}` (read from '
                            f'`{base_of(names[0])}`): the index of one qubit '
                            'reference is shifted by the register of '
                            'another', key=f'pair:{a.id}',
                        )
        # a name assigned an expression that still carries an unshifted
        # local index is itself register-local (flow-insensitive fixpoint)
        changed = True
        while changed:
            changed = False
            for s in ast.walk(fn):
                if isinstance(s, (ast.Assign, ast.AnnAssign)):
                    tg = s.targets[0] if isinstance(s, ast.Assign) \
                        else s.target
                    if isinstance(tg, ast.Name) and tg.id not in local and (
                            s.value is not None) and tg.id not in offset \
                            and _unshifted(s.value, local, offset):
                        local.add(tg.id)
                        changed = True
        # ---- sinks ---------------------------------------------------------
        sinks: list[tuple[ast.AST, str, int]] = []
        for s in ast.walk(fn):
            if isinstance(s, ast.Call) and norm(s.func) == 'CircuitLocation':
                for a in s.args:
                    sinks.append((a, 'CircuitLocation argument', s.lineno))
            if isinstance(s, ast.Assign) and isinstance(
                    s.targets[0], ast.Subscript) and norm(
                    s.targets[0].value) == 'measurements':
                sinks.append((s.targets[0].slice, 'key of the measurement '
                              'map (a circuit qudit index)', s.lineno))
            if isinstance(s, ast.Return) and s.value is not None and (
                    name.startswith('convert_qubit_id')):
                sinks.append((s.value, 'returned circuit index', s.lineno))
        for e, what, line in sinks:
            n_sink += 1
            rep.count()
            bad = _unshifted(e, local, offset)
            rep.check(
                not bad, R, f'OPENQASMVisitor.{name}:{what.split()[0]}',
                f.path, line,
                f'`{norm(e)}` carries no unshifted register-local index',
                f'`{norm(e)}` ({what}) uses the register-local index '
                f'`{bad}` without adding the offset of its register: correct '
                'only for qubits of the first declared register',
                key=f'local:{bad}',
            )
        # ---- first-register assumption --------------------------------------
        for s in ast.walk(fn):
            if isinstance(s, ast.Subscript) and norm(
                    s.value) == 'self.qubit_regs' and isinstance(
                    s.slice, ast.Constant):
                n_sink += 1
                rep.count()
                rep.fail(
                    R, f'OPENQASMVisitor.{name}:first-register', f.path,
                    s.lineno,
                    f'`{norm(s)}` addresses one fixed register: a statement '
                    'naming any other register is applied to the qubits of '
                    'that one', key='fixed-register',
                )
    # (the two convert_qubit_id_* helpers; the statement visitors may use
    # their own cursor or the helpers)
    rep.floor(R, n_cursor, 2, 'register cursors in OPENQASMVisitor')
    rep.floor(R, n_sink, 6, 'circuit-index sinks in OPENQASMVisitor')


def declonce(ctx: Ctx, rep: Report) -> None:
    """DECLONCE: a name is declared once in the written program.

    OPENQASM2Language.encode writes one declaration block per element of
    `circuit.gate_set`.  gate_set holds one representative per *equality
    class* of gates, so two unequal gates whose get_qasm_gate_def() texts
    coincide (two MeasurementPlaceholders over the same classical registers
    but with different measurement maps) declare the same name twice and the
    output is not a valid program (BQSKit's own reader: "Classical register
    redeclared").  Either
      (A) encode passes every declaration block through a membership test
          on a set of blocks already written, or
      (B) every get_qasm_gate_def override reads at least the attributes
          its class's __eq__ compares (equal text implies equal gates).
    """
    D = 'DECLONCE'
    f = ctx.fn('bqskit/ir/lang/qasm2/qasm2.py:OPENQASM2Language.encode')
    g = ctx.cfg(f)
    rd = ctx.rd(f)
    rep.seen(f.qualname)
    writes = []
    for n in g.nodes:
        st = n.stmt
        if isinstance(st, ast.AugAssign) and isinstance(st.op, ast.Add):
            atoms_, defs = rd.closure(n, st.value)
            srcs = [st.value] + [d.value for d in defs if d.value is not None]
            if any(isinstance(c, ast.Call) and isinstance(
                    c.func, ast.Attribute)
                    and c.func.attr == 'get_qasm_gate_def'
                    for s in srcs for c in ast.walk(s)):
                writes.append(n)
    rep.floor(D, len(writes), 1, 'declaration writes in encode')
    deduped = bool(writes)
    for n in writes:
        v = norm(n.stmt.value)
        gd = {(norm(t.stmt.test), lab) for t, lab in g.guards_of(n.id)
              if t.kind == 'test'}
        sets = {t.split(' not in ')[1] for t, lab in gd
                if lab == 'true' and t.startswith(v + ' not in ')} | {
                t.split(' in ')[1] for t, lab in gd
                if lab == 'false' and t.startswith(v + ' in ')
                and ' not in ' not in t}
        recorded = any(
            isinstance(c.func, ast.Attribute) and c.func.attr == 'add'
            and norm(c.func.value) in sets and [norm(a) for a in c.args] == [v]
            for m in g.nodes for c in m.calls())
        deduped = deduped and bool(sets) and recorded
    injective = True
    offenders = []
    for c in sorted(ctx.index.classes.values(), key=lambda c: c.qualname):
        m = c.methods.get('get_qasm_gate_def')
        eq = c.methods.get('__eq__')
        if m is None or eq is None or not ctx.index.is_subclass(c, 'Gate'):
            continue
        reads = {x.attr for x in ast.walk(m.node) if isinstance(
            x, ast.Attribute) and norm(x.value) == 'self'}
        if 'hash(self)' in norm(m.node):
            continue  # the declared name is the gate's own hash
        cmp_ = {x.attr for x in ast.walk(eq.node) if isinstance(
            x, ast.Attribute) and norm(x.value) == 'self'}
        if not cmp_ <= reads:
            injective = False
            offenders.append(
                f'{c.name} (declaration reads {sorted(reads)}, equality '
                f'compares {sorted(cmp_)})')
    rep.count()
    rep.check(
        deduped or injective, D, 'OPENQASM2Language.encode', f.path,
        writes[0].lineno if writes else f.lineno,
        'declaration blocks are written once (de-duplicated by encode)'
        if deduped else 'every declaration text determines its gate',
        'encode concatenates get_qasm_gate_def() over circuit.gate_set '
        'without de-duplication, and unequal gates can produce the same '
        'declaration: ' + '; '.join(offenders) + ' - the written program '
        'declares a name twice', key='duplicate-declaration',
    )


def _unshifted(e: ast.AST, local: set[str], offset: set[str]) -> str | None:
    """A register-local value inside e that is not an operand of an addition
    whose other operand carries an offset."""
    def is_local(x: ast.AST) -> bool:
        return _is_local_src(x) or (
            isinstance(x, ast.Name) and x.id in local)

    def shifted_under(x: ast.AST) -> set[int]:
        ok: set[int] = set()
        for b in ast.walk(x):
            if isinstance(b, ast.BinOp) and isinstance(b.op, ast.Add):
                for a, o in ((b.left, b.right), (b.right, b.left)):
                    if (_names(o) & offset) or any(
                            isinstance(c, ast.Call)
                            and norm(c.func) == FIRST_INDEX
                            for c in ast.walk(o)):
                        for y in ast.walk(a):
                            ok.add(id(y))
        return ok
    ok = shifted_under(e)
    for x in ast.walk(e):
        if is_local(x) and id(x) not in ok:
            # the inner Name of an int(...) source is covered by its call
            return norm(x)
    return None
