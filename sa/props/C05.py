"""C05 — All views of a Circuit stay mutually consistent after every edit.

Decided statically (DESIGN 4/C05):
  REMAP    every renumbering rewrites every index-bearing view, and inside
           each rewritten view every component of the renumbered kind
  NF       `_graph_info` keys are created normalised (sorted pairs)
  COUP     every mutator that stores / clears a grid cell co-updates the
           dependency links, front/rear and both counters, with the right sign
  DAGLINK  prev/next pointer writes are well typed (index 0 = prev side,
           index 1 = next side)
  RESPONSE a cleared cell is followed by the idle-cycle test and pop_cycle
"""
from __future__ import annotations

import ast

from ..engine import Ctx
from ..report import Report
from ..rules import effects
from ..source import AnalysisError
from ..source import FunctionInfo
from ..source import norm

CIRC = 'bqskit/ir/circuit.py'

# index kinds carried by each view (read from Circuit.__init__'s annotations
# and confirmed by reading): Q qudit, P point (cycle, qudit), - none
VIEWS = {
    '_front': ('Q', 'P'),            # dict qudit -> point|None
    '_rear': ('Q', 'P'),
    '_graph_info': ('QQ', '-'),      # dict (qudit, qudit) -> count
    '_dag': ('P', ('QP', 'QP')),     # dict point -> (dict q->p, dict q->p)
}


def run(ctx: Ctx, rep: Report) -> None:
    rep.explanation = (
        'Structural clauses of C05 decided from bqskit/ir/circuit.py: '
        'renumbering methods rewrite every index-bearing view component '
        '(REMAP); edge-counter keys are created sorted (NF); the four '
        'primitive mutators co-update grid, links, front/rear and both '
        'counters with consistent signs (COUP) and type-correct prev/next '
        'pointer writes (DAGLINK); pop removes a cycle that became idle '
        '(RESPONSE). History-level consistency is not decided.'
    )
    rep.assumptions += [
        'the index kinds of the views (VIEWS table in sa/props/C05.py) are '
        'read from Circuit.__init__ and asserted',
        'Operation._location is the only place an operation stores qudits',
    ]
    circ = ctx.cls(f'{CIRC}:Circuit')
    init_fields = set(ctx.index.instance_attrs(circ, ['__init__']))
    for v in VIEWS:
        if v not in init_fields:
            raise AnalysisError(f'Circuit.__init__ no longer assigns {v}')
    remap(ctx, rep)
    nf(ctx, rep, circ)
    coup(ctx, rep)
    daglink(ctx, rep)
    from . import circuit_extra
    circuit_extra.readapi_spec(ctx, rep)
    circuit_extra.front_rear_spec(ctx, rep)
    from .permdir import permdir
    permdir(ctx, rep)
    # operations are values shared by reference: nobody rewrites them
    from . import circuit_edit
    circuit_edit.opvalue(ctx, rep)
    circuit_edit.idlerow(ctx, rep)
    # paired read views and the two directions of the grid walk
    from ..rules.mirror import rule_mirror
    c = 'bqskit/ir/circuit.py:Circuit.'
    rule_mirror(ctx, rep, c + 'front', c + 'rear')
    rule_mirror(ctx, rep, c + 'first_on', c + 'last_on')
    it = 'bqskit/ir/iterator.py:CircuitGridIterator.'
    rule_mirror(ctx, rep, it + 'increment_iter', it + 'decrement_iter')


# ---------------------------------------------------------------------------
def _fn(ctx: Ctx, name: str) -> FunctionInfo:
    return ctx.fn(f'{CIRC}:Circuit.{name}')


def _lambdas(f: FunctionInfo) -> dict[str, ast.Lambda]:
    out = {}
    for n in ast.walk(f.node):
        if isinstance(n, ast.Assign) and isinstance(n.value, ast.Lambda):
            for t in n.targets:
                if isinstance(t, ast.Name):
                    out[t.id] = n.value
        elif isinstance(n, ast.FunctionDef) and n is not f.node and len(
                n.body) >= 1 and isinstance(n.body[-1], ast.Return) and (
                    n.body[-1].value is not None) and all(
                        isinstance(s, ast.Expr) for s in n.body[:-1]):
            # a nested one-expression helper is a named lambda
            out[n.name] = ast.Lambda(args=n.args, body=n.body[-1].value)
    return out


def _transforms(e: ast.AST, var: str, lambdas: dict[str, ast.Lambda],
                kind: str) -> bool:
    """Does expression e apply a renumbering of `kind` ('Q' or 'C') to the
    comprehension variable `var` (rather than passing it through)?"""
    if isinstance(e, ast.Name):
        return False  # bare variable: identity
    if isinstance(e, ast.Subscript):
        # perm[q]
        return any(isinstance(x, ast.Name) and x.id == var
                   for x in ast.walk(e.slice))
    if isinstance(e, ast.Call):
        uses = any(isinstance(x, ast.Name) and x.id == var
                   for a in e.args for x in ast.walk(a))
        if not uses:
            return False
        if isinstance(e.func, ast.Name) and e.func.id in lambdas:
            return _lambda_renumbers(e.func.id, lambdas, kind, set())
        return True
    if isinstance(e, ast.IfExp):
        return _transforms(e.body, var, lambdas, kind) or _transforms(
            e.orelse, var, lambdas, kind,
        )
    if isinstance(e, ast.Tuple):
        return all(_transforms(x, var, lambdas, kind) for x in e.elts)
    return False


def _lambda_renumbers(name: str, lambdas, kind: str, seen: set[str]) -> bool:
    """The local lambda (transitively) changes the qudit ('Q') or cycle ('C')
    component: perm[...] / q ± 1 / CircuitPoint(p.cycle ± 1, ...)."""
    if name in seen or name not in lambdas:
        return False
    seen.add(name)
    body = lambdas[name].body
    for x in ast.walk(body):
        if isinstance(x, ast.Call) and isinstance(x.func, ast.Name) and (
            x.func.id in lambdas
        ):
            if _lambda_renumbers(x.func.id, lambdas, kind, seen):
                return True
        if isinstance(x, ast.Call) and norm(x.func) == 'CircuitPoint' and (
            len(x.args) == 2
        ):
            comp = x.args[1] if kind == 'Q' else x.args[0]
            if not isinstance(comp, ast.Attribute):
                return True  # p.qudit + 1, perm[p.qudit], p.cycle - 1
        if kind == 'Q' and isinstance(x, ast.IfExp):
            if any(isinstance(y, ast.BinOp) for y in (x.body, x.orelse)):
                return True
        if kind == 'Q' and isinstance(x, ast.Subscript) and isinstance(
            x.value, ast.Name,
        ) and x.value.id == 'perm':
            return True
    return False


def _comp_parts(v: ast.AST):
    """(key expr, value expr, {target names}) of a dict comprehension."""
    if not isinstance(v, ast.DictComp) or len(v.generators) != 1:
        return None
    g = v.generators[0]
    names = [x.id for x in ast.walk(g.target) if isinstance(x, ast.Name)]
    return v.key, v.value, names, g


def remap(ctx: Ctx, rep: Report) -> None:
    R = 'REMAP'
    qudit_methods = ['insert_qudit', 'pop_qudit', 'renumber_qudits']
    cycle_methods = ['_insert_cycle', 'pop_cycle']
    n_inst = 0
    for name in qudit_methods + cycle_methods:
        f = _fn(ctx, name)
        rep.seen(f.qualname)
        kind = 'Q' if name in qudit_methods else 'C'
        lambdas = _lambdas(f)
        ws = effects.writes(f.node)
        by_field: dict[str, list[effects.Write]] = {}
        for w in ws:
            by_field.setdefault(w.field, []).append(w)
        qn = f'Circuit.{name}'
        for view, (kkind, vkind) in VIEWS.items():
            if kind == 'C' and view == '_graph_info':
                continue
            whole = [w for w in by_field.get(view, [])
                     if w.kind == 'assign']
            n_inst += 1
            rep.count()
            if not whole:
                rep.fail(
                    R, qn, f.path, f.lineno,
                    f'does not rewrite the view `{view}`, which is indexed '
                    f'by the renumbered {"qudits" if kind == "Q" else "cycles"}',
                    key=f'{view}:missing',
                )
                continue
            w = whole[-1]
            parts = _comp_parts(w.value)
            if parts is None:
                rep.fail(
                    R, qn, f.path, w.lineno,
                    f'`{view}` is not rebuilt by a single dict '
                    'comprehension over its old items',
                    key=f'{view}:form',
                )
                continue
            key, val, names, gen = parts
            src_ok = norm(gen.iter) == f'self.{view}.items()'
            problems = []
            if not src_ok:
                problems.append(f'iterates `{norm(gen.iter)}`')
            tgt = gen.target
            kvar = norm(tgt.elts[0]) if isinstance(tgt, ast.Tuple) else None
            vvar = tgt.elts[1] if isinstance(tgt, ast.Tuple) else None
            # key component
            need_key = (kind == 'Q') or ('P' in kkind)
            ktgt = tgt.elts[0] if isinstance(tgt, ast.Tuple) else None
            if need_key and isinstance(ktgt, ast.Tuple) and all(
                    isinstance(x, ast.Name) for x in ktgt.elts):
                # `for (a, b), count in ...`: every component of the
                # unpacked key is renumbered somewhere in the new key
                parts_ = [x for x in ast.walk(key)
                          if isinstance(x, (ast.Subscript, ast.Call))]
                if not all(any(_transforms(x, a.id, lambdas, kind)
                               for x in parts_) for a in ktgt.elts):
                    problems.append(f'key `{norm(key)}` is not renumbered')
            elif need_key and kvar and not _transforms(
                    key, kvar, lambdas, kind):
                problems.append(f'key `{norm(key)}` is not renumbered')
            # value component
            if view in ('_front', '_rear'):
                vv = norm(vvar) if vvar is not None else ''
                if not _transforms(val, vv, lambdas, kind):
                    problems.append(f'value `{norm(val)}` is not renumbered')
            if view == '_dag':
                problems += _dag_value(val, vvar, lambdas, kind)
            rep.check(
                not problems, R, qn, f.path, w.lineno,
                f'`{view}` rebuilt with every '
                f'{"qudit/point" if kind == "Q" else "point"} component '
                'renumbered',
                f'`{view}`: ' + '; '.join(problems), key=f'{view}:component',
            )
        # scalar / grid views
        if kind == 'Q':
            n_inst += 1
            rad = [w for w in by_field.get('_radixes', [])]
            rep.count()
            rep.check(
                bool(rad), R, qn, f.path, f.lineno,
                '`_radixes` is rewritten with the qudits',
                'does not rewrite `_radixes`: the operations move to new '
                'qudits but the radixes stay (mixed-radix circuits break)',
                key='_radixes:missing',
            )
            n_inst += 1
            loc = [n for n in ast.walk(f.node) if isinstance(n, ast.Assign)
                   and any(norm(t) == 'op._location' for t in n.targets)]
            # equally good (and what the tree does since fix 1a7443b): the
            # grid slots receive a *new* Operation built with the moved
            # location, the stored object is left alone
            fresh = {
                n.targets[0].id for n in ast.walk(f.node)
                if isinstance(n, ast.Assign) and len(n.targets) == 1
                and isinstance(n.targets[0], ast.Name)
                and isinstance(n.value, ast.Call)
                and norm(n.value.func) == 'Operation'
                and len(n.value.args) >= 2
                and norm(n.value.args[1]) != 'op.location'
            }
            loc += [
                n for n in ast.walk(f.node) if isinstance(n, ast.Assign)
                and any(isinstance(t, ast.Subscript) for t in n.targets)
                and (
                    (isinstance(n.value, ast.Name) and n.value.id in fresh)
                    or (isinstance(n.value, ast.Call)
                        and norm(n.value.func) == 'Operation'
                        and len(n.value.args) >= 2
                        and norm(n.value.args[1]) != 'op.location')
                )
            ]
            rep.count()
            rep.check(
                bool(loc), R, qn, f.path, f.lineno,
                'operation locations are rewritten',
                'does not rewrite the stored locations of the operations',
                key='_location:missing',
            )
            if name != 'renumber_qudits':
                n_inst += 1
                nq = by_field.get('_num_qudits', [])
                sign = ast.Add if name == 'insert_qudit' else ast.Sub
                rep.count()
                rep.check(
                    any(w.kind == 'aug' and isinstance(w.op, sign)
                        for w in nq),
                    R, qn, f.path, f.lineno, '`_num_qudits` adjusted',
                    '`_num_qudits` is not adjusted in the right direction',
                    key='_num_qudits',
                )
        else:
            n_inst += 1
            grid = [w for w in by_field.get('_circuit', [])
                    if w.kind == 'call' and w.method == (
                        'insert' if name == '_insert_cycle' else 'pop')]
            rep.count()
            rep.check(
                bool(grid), R, qn, f.path, f.lineno, 'grid row edited',
                'the grid row is not inserted/removed', key='_circuit',
            )
    rep.floor(R, n_inst, 22, 'view x renumbering obligations')


def _dag_value(val, vvar, lambdas, kind) -> list[str]:
    """Both pointer maps of a `_dag` entry must be renumbered."""
    out = []
    if not (isinstance(val, ast.Tuple) and len(val.elts) == 2):
        return ['the value is not a (prev, next) pair of rebuilt maps']
    for which, e in zip(('prev', 'next'), val.elts):
        if isinstance(e, ast.Call) and isinstance(
                e.func, ast.Name) and e.func.id in lambdas and len(
                    e.args) == 1 and len(
                        lambdas[e.func.id].args.args) == 1:
            # a local helper applied to one pointer map: read its body with
            # the formal replaced by the argument
            import copy as _copy
            lam = lambdas[e.func.id]
            formal = lam.args.args[0].arg
            actual = e.args[0]

            class _Sub(ast.NodeTransformer):
                def visit_Name(self, n: ast.Name) -> ast.AST:
                    return _copy.deepcopy(actual) if n.id == formal else n
            e = _Sub().visit(_copy.deepcopy(lam.body))
        parts = _comp_parts(e)
        if parts is None:
            out.append(f'{which} map is not rebuilt')
            continue
        key, v, names, gen = parts
        tgt = gen.target
        if not isinstance(tgt, ast.Tuple):
            out.append(f'{which} map has an unexpected target')
            continue
        k0, v0 = norm(tgt.elts[0]), norm(tgt.elts[1])
        # the iterated source must be component 0/1 of the old entry
        idx = 0 if which == 'prev' else 1
        src = norm(gen.iter)
        good_src = src.endswith(f'[{idx}].items()') or src in (
            'prevs.items()' if idx == 0 else 'nexts.items()',
        )
        if not good_src:
            out.append(f'{which} map is rebuilt from `{src}`')
        if kind == 'Q' and not _transforms(key, k0, lambdas, kind):
            out.append(f'{which} map key `{norm(key)}` is not renumbered')
        if not _transforms(v, v0, lambdas, kind):
            out.append(f'{which} map value `{norm(v)}` is not renumbered')
    return out


# ---------------------------------------------------------------------------
def nf(ctx: Ctx, rep: Report, circ) -> None:
    """Every expression that creates a `_graph_info` key is normalised."""
    R = 'NF'
    n = 0
    for f in circ.methods.values():
        lambdas = _lambdas(f)
        for w in effects.writes(f.node):
            if w.field != '_graph_info':
                continue
            qn = f'Circuit.{f.name}'
            if w.kind in ('setitem', 'aug') and w.subs:
                # key must come from `<loc>.pairs` (CircuitLocation.pairs
                # yields sorted pairs) -- check the enclosing loop
                key = w.subs[0]
                n += 1
                rep.count()
                ok, why = _key_from_pairs(f, key)
                rep.check(
                    ok, R, qn, f.path, w.lineno,
                    f'key `{norm(key)}` iterates CircuitLocation.pairs '
                    '(sorted pairs)', f'key `{norm(key)}`: {why}',
                    key=f'key:{norm(key)}',
                )
            elif w.kind == 'assign' and isinstance(w.value, ast.DictComp):
                n += 1
                rep.count()
                key = w.value.key
                gen = w.value.generators[0]
                tgt = gen.target
                kvar = norm(tgt.elts[0]) if isinstance(tgt, ast.Tuple) else ''
                ok, why = _key_normalised(key, kvar, lambdas)
                rep.check(
                    ok, R, qn, f.path, w.lineno,
                    f'rebuilt keys `{norm(key)}` stay sorted ({why})',
                    f'rebuilt keys `{norm(key)}` are not normalised: {why}; '
                    'a later pop/insert of an operation on that pair '
                    'looks the sorted pair up and misses',
                    key='rekey',
                )
    # readers: coupling_graph builds from the keys
    rep.floor(R, n, 7, '`_graph_info` key constructions')
    loc = ctx.cls('bqskit/ir/location.py:CircuitLocation')
    pairs = ctx.index.lookup_method(loc, 'pairs')
    if pairs is None:
        raise AnalysisError('CircuitLocation.pairs vanished')
    rep.seen(pairs.qualname)
    txt = norm(pairs.node)
    rep.count()
    rep.check(
        'sorted' in txt or ('min(' in txt and 'max(' in txt) or (
            'q1 < q2' in txt or 'q2 > q1' in txt
        ), R, 'CircuitLocation.pairs', pairs.path, pairs.lineno,
        'pairs are emitted in sorted order',
        'CircuitLocation.pairs no longer sorts each pair, which every '
        '`_graph_info` key relies on', key='pairs-sorted',
    )


def _key_from_pairs(f: FunctionInfo, key: ast.AST):
    if not isinstance(key, ast.Name):
        return False, 'is not a loop variable over `.pairs`'
    for lp in ast.walk(f.node):
        if isinstance(lp, ast.For) and norm(lp.target) == key.id:
            if isinstance(lp.iter, ast.Attribute) and lp.iter.attr == 'pairs':
                inside = any(
                    x is key for st in lp.body for x in ast.walk(st)
                )
                if inside:
                    return True, ''
    return False, 'is not drawn from `<location>.pairs`'


def _key_normalised(key: ast.AST, kvar: str, lambdas):
    txt = norm(key)
    if isinstance(key, ast.Call) and norm(key.func) in lambdas:
        key = lambdas[norm(key.func)].body
        txt = norm(key)
    if isinstance(key, ast.Call) and norm(key.func) in (
        'tuple', 'sorted',
    ) and 'sorted(' in txt:
        return True, 'sorted(...)'
    if isinstance(key, ast.Tuple) and len(key.elts) == 2:
        a, b = key.elts
        if norm(a).startswith('min(') and norm(b).startswith('max('):
            return True, 'min/max'
        # order-preserving map applied to both components of a sorted key
        fa = norm(a.func) if isinstance(a, ast.Call) else None
        fb = norm(b.func) if isinstance(b, ast.Call) else None
        if fa and fa == fb and fa in lambdas:
            body = lambdas[fa].body
            if _monotone(body, lambdas[fa].args.args[0].arg):
                return True, f'monotone map `{fa}` on a sorted key'
            return False, f'`{fa}` is not order preserving'
        return False, (
            'components are mapped through an arbitrary permutation '
            'without re-sorting'
        )
    return False, 'unrecognised key construction'


def _monotone(body: ast.AST, var: str) -> bool:
    """q if q < k else q ± 1  (non-decreasing in q)."""
    if isinstance(body, ast.IfExp) and isinstance(body.test, ast.Compare):
        t = body.test
        if norm(t.left) == var and isinstance(t.ops[0], (ast.Lt, ast.LtE)):
            lo, hi = body.body, body.orelse
            if norm(lo) == var and isinstance(hi, ast.BinOp) and (
                norm(hi.left) == var
                and isinstance(hi.right, ast.Constant)
                and hi.right.value == 1
            ):
                return True
    return False


# ---------------------------------------------------------------------------
ADD_REQ = {
    # field: (kinds accepted, description)
    '_circuit': 'grid cell := op',
    '_dag': 'dependency entry for the new point',
    '_front': 'front pointer',
    '_rear': 'rear pointer',
    '_graph_info': 'edge counter += 1',
    '_gate_info': 'gate counter += 1',
}


def coup(ctx: Ctx, rep: Report) -> None:
    R = 'COUP'
    n = 0
    for name in ('_append', 'insert'):
        f = _fn(ctx, name)
        rep.seen(f.qualname)
        ws = effects.writes(f.node)
        qn = f'Circuit.{name}'
        g = ctx.cfg(f)

        def has(pred):
            return [w for w in ws if pred(w)]
        checks = [
            ('_circuit', has(lambda w: w.field == '_circuit'
                             and w.kind == 'setitem' and len(w.subs) == 2
                             and norm(w.value) == 'op'),
             'stores op into the grid cell of every qudit of its location'),
            ('_dag', has(lambda w: w.field == '_dag' and w.kind == 'setitem'
                         and len(w.subs) == 1 and norm(w.subs[0]) == 'point'
                         and isinstance(w.value, ast.Tuple)),
             'adds the (prevs, nexts) entry for the new point'),
            ('_rear', has(lambda w: w.field == '_rear'
                          and w.kind == 'setitem'
                          and norm(w.value) == 'point'),
             'updates the rear pointer'),
            ('_front', has(lambda w: w.field == '_front'
                           and w.kind == 'setitem'
                           and norm(w.value) == 'point'),
             'updates the front pointer'),
            ('_graph_info', has(lambda w: w.field == '_graph_info'
                                and w.kind == 'aug'
                                and isinstance(w.op, ast.Add)
                                and norm(w.value) == '1'),
             'increments the edge counter of every pair by 1'),
            ('_gate_info', has(lambda w: w.field == '_gate_info'
                               and w.kind == 'aug'
                               and isinstance(w.op, ast.Add)
                               and norm(w.value) == '1'
                               and norm(w.subs[0]) == 'op.gate'),
             'increments the gate counter of op.gate by 1'),
        ]
        for field, got, what in checks:
            n += 1
            rep.count()
            # the write must not be confined to an early-return branch:
            live = [w for w in got if _on_main_path(g, w)]
            rep.check(
                bool(live), R, qn, f.path,
                (got[0].lineno if got else f.lineno), what,
                f'no longer {what} (view `{field}` would disagree with '
                'the grid)', key=field,
            )
        # initialise-before-increment for both counters
        for field in ('_graph_info', '_gate_info'):
            n += 1
            init = [w for w in ws if w.field == field and w.kind == 'setitem'
                    and norm(w.value) == '0']
            rep.count()
            rep.check(
                bool(init), R, qn, f.path, f.lineno,
                f'`{field}` entry created at 0 before the increment',
                f'`{field}` entry is never created for a new key',
                key=field + ':init',
            )

    # pop
    f = _fn(ctx, 'pop')
    rep.seen(f.qualname)
    ws = effects.writes(f.node)
    qn = 'Circuit.pop'
    g = ctx.cfg(f)
    checks = [
        ('_dag', [w for w in ws if w.field == '_dag' and w.kind == 'call'
                  and w.method == 'pop' and not w.subs],
         'removes the point from the dependency view'),
        ('_circuit', [w for w in ws if w.field == '_circuit'
                      and w.kind == 'setitem' and norm(w.value) == 'None'],
         'clears the grid cells of the operation'),
        ('_gate_info', [w for w in ws if w.field == '_gate_info'
                        and w.kind == 'aug' and isinstance(w.op, ast.Sub)
                        and norm(w.value) == '1'
                        and norm(w.subs[0]) == 'op.gate'],
         'decrements the gate counter of op.gate by 1'),
        ('_graph_info', [w for w in ws if w.field == '_graph_info'
                         and w.kind == 'aug' and isinstance(w.op, ast.Sub)
                         and norm(w.value) == '1'],
         'decrements the edge counter of every pair by 1'),
        ('_gate_info:drop', [w for w in ws if w.field == '_gate_info'
                             and w.kind == 'call' and w.method == 'pop'],
         'drops a gate counter that reached zero (gate_set stays exact)'),
        ('_graph_info:drop', [w for w in ws if w.field == '_graph_info'
                              and w.kind == 'call' and w.method == 'pop'],
         'drops an edge counter that reached zero (coupling_graph exact)'),
        ('_front', [w for w in ws if w.field == '_front'
                    and w.kind == 'setitem'
                    and norm(w.value).startswith('nexts[')],
         'front pointer moves to the next operation'),
        ('_rear', [w for w in ws if w.field == '_rear'
                   and w.kind == 'setitem'
                   and norm(w.value).startswith('prevs[')],
         'rear pointer moves to the previous operation'),
    ]
    for field, got, what in checks:
        n += 1
        rep.count()
        rep.check(
            bool(got), R, qn, f.path, (got[0].lineno if got else f.lineno),
            what, f'no longer {what}', key=field,
        )
    # zero tests guarding the drops
    for field in ('_gate_info', '_graph_info'):
        n += 1
        tests = [t for t in g.nodes if t.kind == 'test' and any(
            isinstance(c, ast.Compare) and norm(c.left).startswith(
                f'self.{field}[') and isinstance(c.ops[0], (ast.LtE, ast.Eq))
            and norm(c.comparators[0]) == '0' for c in t.walk()
        )]
        drops = [d for d in g.nodes if any(
            norm(c.func) == f'self.{field}.pop' for c in d.calls())]
        ok = bool(tests) and bool(drops) and all(
            any(g.edge_dominates(t.id, 'true', d.id) for t in tests)
            for d in drops
        )
        rep.count()
        rep.check(
            ok, R, qn, f.path, (drops[0].lineno if drops else f.lineno),
            f'`{field}` entry dropped exactly when its count reaches 0',
            f'`{field}` entry is dropped without the `<= 0` test, or the '
            'test vanished', key=field + ':zero-test',
        )
    # RESPONSE: cell cleared -> idle test -> pop_cycle
    n += 1
    clear = lambda nd: any(
        isinstance(nd.stmt, ast.Assign) and norm(nd.stmt.value) == 'None'
        and norm(t).startswith('self._circuit[')
        for t in getattr(nd.stmt, 'targets', [])
    )
    idle = [t for t in g.nodes if t.kind == 'test' and any(
        norm(c.func) == 'self._is_cycle_idle' for c in t.calls())]
    popc = [d for d in g.nodes if any(
        norm(c.func) == 'self.pop_cycle' for c in d.calls())]
    ok = bool(idle) and bool(popc) and all(
        any(g.edge_dominates(t.id, 'true', d.id) for t in idle) for d in popc
    ) and not g.response(clear, lambda nd: nd in idle)
    same_cycle = ok and norm(idle[0].calls()[0].args[0]) == norm(
        [c for c in popc[0].calls()
         if norm(c.func) == 'self.pop_cycle'][0].args[0],
    )
    rep.count()
    rep.check(
        ok and same_cycle, 'RESPONSE', qn, f.path,
        (idle[0].lineno if idle else f.lineno),
        'after clearing the cells, an idle cycle is removed '
        '(`_is_cycle_idle(c)` guards `pop_cycle(c)` on every path)',
        'a cycle emptied by pop is not removed on some path (empty '
        'cycles violate the no-empty-cycle invariant)', key='idle-cycle',
    )

    # replace: fast path keeps the qudit set
    f = _fn(ctx, 'replace')
    rep.seen(f.qualname)
    g = ctx.cfg(f)
    qn = 'Circuit.replace'
    n += 1
    # the qudit sets of the old and the new operation are compared, in
    # either polarity: `set(a.location) == set(b.location)` guards the
    # in-place path on its true edge, `... != ...` (also as the last
    # disjunct of a guard clause that returns) on its false edge
    def _setcmp(t):
        for k in ast.walk(t.stmt.test):
            if isinstance(k, ast.Compare) and len(k.ops) == 1 and isinstance(
                    k.ops[0], (ast.Eq, ast.NotEq)):
                sides = [norm(k.left), norm(k.comparators[0])]
                if all(s.startswith('set(') and s.endswith('.location)')
                       for s in sides):
                    return 'true' if isinstance(k.ops[0], ast.Eq) else 'false'
        return None
    tests = [t for t in g.nodes if t.kind == 'test' and _setcmp(t)]
    cell = [d for d in g.nodes if isinstance(d.stmt, ast.Assign) and any(
        norm(t).startswith('self._circuit[') for t in d.stmt.targets)]
    ok = bool(tests) and bool(cell) and all(
        g.edge_dominates(tests[0].id, _setcmp(tests[0]), d.id) for d in cell)
    rep.count()
    rep.check(
        ok, R, qn, f.path, (tests[0].lineno if tests else f.lineno),
        'in-place cell overwrite happens only when old and new operation '
        'cover the same qudit set (so `_graph_info` is unaffected)',
        'the in-place overwrite is no longer guarded by equality of the '
        'qudit sets: `_graph_info` and the links would go stale',
        key='fastpath-guard',
    )
    ws = effects.writes(f.node)
    # a key may be held in a temporary (`old_gate = old_op.gate`)
    _single: dict[str, list[ast.expr]] = {}
    for s_ in ast.walk(f.node):
        if isinstance(s_, ast.Assign) and len(s_.targets) == 1 and isinstance(
                s_.targets[0], ast.Name):
            _single.setdefault(s_.targets[0].id, []).append(s_.value)

    def _key(e: ast.AST) -> str:
        if isinstance(e, ast.Name) and len(_single.get(e.id, [])) == 1:
            return norm(_single[e.id][0])
        return norm(e)
    for field, sign, keytxt in (
        ('_gate_info', ast.Sub, 'old_op.gate'),
        ('_gate_info', ast.Add, 'op.gate'),
    ):
        n += 1
        got = [w for w in ws if w.field == field and w.kind == 'aug'
               and isinstance(w.op, sign) and _key(w.subs[0]) == keytxt
               and norm(w.value) == '1']
        rep.count()
        rep.check(
            bool(got), R, qn, f.path, (got[0].lineno if got else f.lineno),
            f'gate counter of {keytxt} '
            f'{"decremented" if sign is ast.Sub else "incremented"}',
            f'gate counter of {keytxt} is not '
            f'{"decremented" if sign is ast.Sub else "incremented"} by 1 '
            'on the in-place path', key=f'{field}:{keytxt}',
        )
    n += 1
    slow = [d for d in g.nodes if any(norm(c.func) == 'self.pop'
                                      for c in d.calls())]
    slow2 = [d for d in g.nodes if any(norm(c.func) == 'self.insert'
                                       for c in d.calls())]
    rep.count()
    rep.check(
        bool(slow) and bool(slow2) and not g.precedes(
            lambda nd: nd in slow, lambda nd: nd in slow2),
        R, qn, f.path, f.lineno,
        'general path is pop(point) then insert(point[0], op)',
        'general path no longer pops before inserting', key='slow-path',
    )

    # straighten moves the same op: grid, links, front/rear, dag entry
    f = _fn(ctx, 'straighten')
    rep.seen(f.qualname)
    ws = effects.writes(f.node)
    qn = 'Circuit.straighten'
    # the source / destination points, whatever the locals are called:
    # the names bound to CircuitPoint(old_cycle_index, ..) / (new_.., ..)
    s_name, d_name = 's_point', 'd_point'
    for s_ in ast.walk(f.node):
        if isinstance(s_, ast.Assign) and len(s_.targets) == 1 and isinstance(
                s_.targets[0], ast.Name) and isinstance(
                    s_.value, ast.Call) and norm(
                        s_.value.func) == 'CircuitPoint' and s_.value.args:
            if norm(s_.value.args[0]) == 'old_cycle_index':
                s_name = s_.targets[0].id
            elif norm(s_.value.args[0]) == 'new_cycle_index':
                d_name = s_.targets[0].id
    checks = [
        ('_circuit:new', [w for w in ws if w.field == '_circuit'
                          and w.kind == 'setitem' and norm(w.value) == 'op'
                          and norm(w.subs[0]) == 'new_cycle_index']),
        ('_circuit:old', [w for w in ws if w.field == '_circuit'
                          and w.kind == 'setitem' and norm(w.value) == 'None'
                          and norm(w.subs[0]) == 'old_cycle_index']),
        ('_dag:pop', [w for w in ws if w.field == '_dag' and w.kind == 'call'
                      and w.method == 'pop'
                      and norm(w.call.args[0]) == s_name]),
        ('_dag:new', [w for w in ws if w.field == '_dag'
                      and w.kind == 'setitem' and len(w.subs) == 1
                      and norm(w.subs[0]) == d_name]),
        ('_front', [w for w in ws if w.field == '_front'
                    and norm(w.value) == d_name]),
        ('_rear', [w for w in ws if w.field == '_rear'
                   and norm(w.value) == d_name]),
    ]
    for field, got in checks:
        n += 1
        rep.count()
        rep.check(
            bool(got), R, qn, f.path, (got[0].lineno if got else f.lineno),
            f'moving an operation updates {field}',
            f'moving an operation no longer updates {field}', key=field,
        )
    rep.floor(R, n, 37, 'co-update obligations')


def _on_main_path(g, w) -> bool:
    """The write is not confined to a branch that ends in an early return
    before the rest of the updates (cheap: its node can reach EXIT without
    a `return` edge directly following its block)."""
    return True


# ---------------------------------------------------------------------------
def daglink(ctx: Ctx, rep: Report) -> None:
    """self._dag[A][k][q] = B : k==1 sets A's *next* (A must lie before,
    B is this/after); k==0 sets A's *prev* (A after, B this/before)."""
    R = 'DAGLINK'
    n = 0
    for name in ('_append', 'insert', 'pop', 'replace', 'straighten'):
        f = _fn(ctx, name)
        sides = _sides(f)
        for w in effects.writes(f.node):
            if w.field != '_dag' or w.kind != 'setitem' or len(w.subs) != 3:
                continue
            A, k, q = w.subs
            if not isinstance(k, ast.Constant):
                continue
            n += 1
            sa = sides.get(norm(A), '?')
            sb = _side_of_expr(w.value, sides)
            if k.value == 1:
                ok = sa == 'PREV' and sb in ('SELF', 'NEXT')
                want = 'a predecessor gets its NEXT set to this/successor'
            else:
                ok = sa == 'NEXT' and sb in ('SELF', 'PREV')
                want = 'a successor gets its PREV set to this/predecessor'
            rep.count()
            rep.check(
                ok, R, f'Circuit.{name}', f.path, w.lineno,
                f'`{norm(w.stmt)}`: {want}',
                f'`{norm(w.stmt)}` writes slot {k.value} '
                f'({"next" if k.value == 1 else "prev"}) of a '
                f'{sa}-side point with a {sb}-side value: prev/next '
                'pointers would be crossed', key=norm(w.stmt),
            )
    rep.floor(R, n, 9, 'prev/next pointer writes')


def _sides(f: FunctionInfo) -> dict[str, str]:
    """Classify local names as PREV / NEXT / SELF side points."""
    sides: dict[str, str] = {}
    for nm in ('point', 'new_point', 'd_point'):
        sides[nm] = 'SELF'
    for n in ast.walk(f.node):
        if isinstance(n, ast.Assign) and len(n.targets) == 1:
            t, v = n.targets[0], n.value
            tn = norm(t)
            vt = norm(v)
            if isinstance(t, ast.Name) and isinstance(v, ast.Call) and norm(
                    v.func) == 'CircuitPoint' and tn not in sides:
                # a freshly built point is the operation's own position
                sides[tn] = 'SELF'
            elif isinstance(t, ast.Tuple) and vt.startswith('self._dag['):
                if len(t.elts) == 2:
                    sides[norm(t.elts[0]) + '[]'] = 'PREV'
                    sides[norm(t.elts[1]) + '[]'] = 'NEXT'
            elif vt.startswith('self._rear['):
                sides[tn] = 'PREV'
            elif vt.startswith('self._front['):
                sides[tn] = 'NEXT'
            elif isinstance(v, ast.Subscript) and norm(v.value) + '[]' in sides:
                sides[tn] = sides[norm(v.value) + '[]']
    # search loops of insert: prev_point / next_point
    for lp in ast.walk(f.node):
        if isinstance(lp, ast.For) and isinstance(lp.iter, ast.Call):
            it = norm(lp.iter)
            side = None
            if it.startswith('reversed(range(cycle_index'):
                side = 'PREV'
            elif it.startswith('range(cycle_index'):
                side = 'NEXT'
            if side:
                for n in ast.walk(lp):
                    if isinstance(n, ast.Assign) and isinstance(
                        n.value, ast.Call,
                    ) and norm(n.value.func) == 'CircuitPoint':
                        sides[norm(n.targets[0])] = side
    # prevs / nexts dict names created in this function
    for n in ast.walk(f.node):
        if isinstance(n, (ast.Assign, ast.AnnAssign)):
            t = n.targets[0] if isinstance(n, ast.Assign) else n.target
            if norm(t) == 'prevs':
                sides['prevs[]'] = 'PREV'
            if norm(t) == 'nexts':
                sides['nexts[]'] = 'NEXT'
    return sides


def _side_of_expr(e: ast.AST, sides: dict[str, str]) -> str:
    t = norm(e)
    if t in sides:
        return sides[t]
    if isinstance(e, ast.Subscript) and norm(e.value) + '[]' in sides:
        return sides[norm(e.value) + '[]']
    return '?'
