"""C02 — compile() output is executable on the target machine model.

Decided statically (DESIGN 4/C02):
  WF    every standard circuit workflow configuration ends with native
        multi- and single-qudit gates, routed, placed, on the real
        connectivity; the direct workflows end native
  REG   every replace-filter name that can reach ForEachBlockPass /
        gen_replace_filter is a key of the registry
  FLOW  the per-block sub-model carries the local coupling graph, the
        model's gate set and the block's radixes
  CONJ  MachineModel.is_compatible tests width, gate set, coupling and
        radixes before answering True; _is_respecting tests gates+coupling
  NF    edge-membership probes are order independent
"""
from __future__ import annotations

import ast

from ..engine import Ctx
from ..report import Report
from ..rules import edgenf
from ..rules import wf
from ..source import AnalysisError
from ..source import norm
from . import C11

FOREACH = 'bqskit/passes/control/foreach.py'


def run(ctx: Ctx, rep: Report) -> None:
    rep.explanation = (
        'Static clauses of C02: the builder functions of compile.py are '
        'partially evaluated to pass trees for optimization levels 1-4 with '
        'and without an error bound (8 circuit configurations) and for the '
        'three direct workflows (all decision combinations), and a forward '
        'typestate analysis checks the final facts (WF); replace-filter '
        'names are checked against the registry (REG); the block sub-model '
        'construction (FLOW), the conjuncts of is_compatible and '
        '_is_respecting (CONJ) and the order independence of edge probes '
        '(NF) are checked structurally. That synthesis reaches native '
        'gates for a given gate set is not decided.'
    )
    rep.assumptions += [
        'pass effect table and the two scoped exceptions in '
        'sa/rules/wftypestate.py',
        'numerical passes succeed (their accept guards are C10\'s)',
    ]
    wf_rule(ctx, rep)
    reg(ctx, rep)
    C11.foreach(ctx, rep)
    conj(ctx, rep)
    edgenf.rule_nf(ctx, rep)
    pred_specs(ctx, rep)
    # single-qudit retargeting (ZXZXZ) spells the same rotation two ways
    from ..rules.branchsib import rule_altspell
    rule_altspell(ctx, rep, 'bqskit/passes/', 3)
    # ... and the predicate that selects it implies those gates are native
    from ..rules.guardemit import rule_guardemit
    rule_guardemit(
        ctx, rep,
        'bqskit/passes/control/predicates/single.py:'
        'ZXGatePredicate.get_truth_value',
        'bqskit/passes/rules/zxzxz.py:ZXZXZDecomposition.run')
    from ..rules.guardemit import rule_flag_groups
    rule_flag_groups(
        ctx, rep, 'bqskit/passes/rules/zxzxz.py:ZXZXZDecomposition.run', 2)


def wf_rule(ctx: Ctx, rep: Report) -> None:
    R = 'WF'
    cfgs = wf.circuit_configs(ctx)
    rep.floor(R, len(cfgs), 8, 'circuit workflow configurations')
    exceptions = set()
    classes: set[str] = set()
    for label, tree, dec in cfgs:
        out, a = wf.analyse(ctx, tree, circuit=True)
        classes |= a.seen_classes
        exceptions |= set(a.exceptions_used)
        rep.count(a.leaves)
        wf.report_issues(rep, R, label, a, only={
            'requires', 'foreach', 'unbalanced', 'conn', 'unknown-filter'})
        wf.final_facts(rep, R, label, out, wf.CIRCUIT_FINAL, wf.WHY)
        rep.count()
        rep.check(
            out.depth == 0, R, f'{label}:unfolded', wf.COMPILE, 0,
            'the circuit is returned unfolded',
            'the workflow can end with blocks still folded', key='depth',
        )
    n_direct = 0
    for name in wf.DIRECT:
        for label, tree, dec in wf.direct_configs(ctx, name):
            n_direct += 1
            out, a = wf.analyse(ctx, tree, circuit=False)
            classes |= a.seen_classes
            exceptions |= set(a.exceptions_used)
            rep.count(a.leaves)
            wf.report_issues(rep, R, label, a, only={
                'requires-MODEL', 'foreach', 'unbalanced', 'conn'})
            # one finding per workflow function, not per decision
            short = label.split('/')[0]
            for f in ('MQ_NATIVE', 'SQ_NATIVE'):
                rep.count()
                rep.check(
                    out.has(f), R, f'{short}:{f}', wf.COMPILE, 0,
                    f'{label}: {f} holds at the end',
                    f'{short} ({label}): ' + wf.WHY[f] + ' - the search '
                    'passes introduce a general single-qudit gate and no '
                    'single-qudit retarget stage follows', key=f,
                )
    rep.floor(R, n_direct, 12, 'direct workflow configurations')
    rep.extra['pass_classes_in_workflows'] = sorted(classes)
    rep.extra['scoped_exceptions_used'] = sorted(exceptions)
    for e in sorted(exceptions):
        rep.observe('WF scoped exception: ' + e)


def reg(ctx: Ctx, rep: Report) -> None:
    R = 'REG'
    g = ctx.fn(f'{FOREACH}:gen_replace_filter')
    table = None
    for n in ast.walk(g.node):
        if isinstance(n, ast.Assign) and norm(
            n.targets[0]) == 'replace_filters' and isinstance(
                n.value, ast.Dict):
            table = {k.value for k in n.value.keys
                     if isinstance(k, ast.Constant)}
    if not table:
        raise AnalysisError('gen_replace_filter: registry dict not found')
    rep.seen(g.qualname)
    sites: list[tuple[str, str, int]] = []
    # literal strings passed as replace_filter / to gen_replace_filter,
    # and string defaults of parameters that flow there
    for f in ctx.index.all_functions():
        for c in ast.walk(f.node):
            if not isinstance(c, ast.Call):
                continue
            fn = norm(c.func)
            cands = []
            if fn.endswith('gen_replace_filter') and c.args:
                cands.append(c.args[0])
            for k in c.keywords:
                if k.arg == 'replace_filter':
                    cands.append(k.value)
            for v in cands:
                if isinstance(v, ast.Constant) and isinstance(v.value, str):
                    sites.append((v.value, f.path, c.lineno))
                elif isinstance(v, ast.Name):
                    d = f.param_default(v.id)
                    if isinstance(d, ast.Constant) and isinstance(
                        d.value, str):
                        sites.append((d.value, f.path, f.lineno))
    fe = ctx.cls(f'{FOREACH}:ForEachBlockPass').methods['__init__']
    d = fe.param_default('replace_filter')
    if isinstance(d, ast.Constant) and isinstance(d.value, str):
        sites.append((d.value, fe.path, fe.lineno))
    # names that the typestate saw flowing into ForEachBlockPass
    for label, tree, dec in wf.circuit_configs(ctx)[:2]:
        out, a = wf.analyse(ctx, tree, circuit=True)
        for name, line in a.filters:
            sites.append((name, wf.COMPILE, line))
    rep.floor(R, len(sites), 4, 'replace-filter name sites')
    for name, path, line in sorted(set(sites)):
        rep.count()
        rep.check(
            name in table, R, f'replace_filter:{name}', path, line,
            f'`{name}` is a registered replace filter',
            f'`{name}` is used as a replace-filter name but is not a key of '
            'gen_replace_filter\'s registry: ForEachBlockPass.run raises '
            'ValueError', key=name,
        )


def conj(ctx: Ctx, rep: Report) -> None:
    C = 'CONJ'
    f = ctx.fn('bqskit/compiler/machine.py:MachineModel.is_compatible')
    g = ctx.cfg(f)
    rep.seen(f.qualname)
    rets_true = [n for n in g.nodes if isinstance(n.stmt, ast.Return)
                 and norm(n.stmt.value) == 'True']
    if len(rets_true) != 1:
        raise AnalysisError('is_compatible: single `return True` expected')
    rt = rets_true[0]
    facets = {
        'width': lambda t: 'num_qudits' in t and 'self.num_qudits' in t,
        'gate set': lambda t: 'not in self.gate_set' in t,
        'coupling': lambda t: 'not in self.coupling_graph' in t
        and 'circuit.coupling_graph' in t and 'placement[' in t,
        'radixes': lambda t: 'self.radixes[' in t and 'circuit.radixes' in t,
    }
    for name, pred in facets.items():
        rep.count()
        tests = [t for t in g.nodes if t.kind == 'test' and pred(
            norm(t.stmt.test))]
        ok = False
        for t in tests:
            rf = [n for n in g.nodes if isinstance(n.stmt, ast.Return)
                  and norm(n.stmt.value) == 'False'
                  and g.edge_dominates(t.id, 'true', n.id)]
            if rf and g.edge_dominates(t.id, 'false', rt.id):
                ok = True
        rep.check(
            ok, C, f'MachineModel.is_compatible:{name}', f.path, f.lineno,
            f'`return True` is reached only after the {name} test failed '
            'to object',
            f'is_compatible can answer True without testing the {name}: '
            'an incompatible circuit is reported executable', key=name,
        )
    r = ctx.fn(f'{FOREACH}:_is_respecting')
    gr = ctx.cfg(r)
    rep.seen(r.qualname)
    rt2 = [n for n in gr.nodes if isinstance(n.stmt, ast.Return)
           and norm(n.stmt.value) == 'True']
    for name, pred in (
        ('gate set', lambda t: 'not in model.gate_set' in t
         and 'org_mq_gates' in t),
        ('coupling', lambda t: 'not in model.coupling_graph' in t
         and 'location[' in t),
    ):
        rep.count()
        tests = [t for t in gr.nodes if t.kind == 'test' and pred(
            norm(t.stmt.test))]
        ok = len(rt2) == 1 and any(
            gr.edge_dominates(t.id, 'false', rt2[0].id) for t in tests)
        rep.check(
            ok, C, f'_is_respecting:{name}', r.path, r.lineno,
            f'a block is respecting only if its {name} conforms',
            f'_is_respecting no longer tests the {name}: the replace '
            'filter accepts non-conforming blocks', key=name,
        )
    lt = ctx.fn(f'{FOREACH}:_less_than_fn_respecting')
    gl = ctx.cfg(lt)
    rep.seen(lt.qualname)
    rej = [n for n in gl.nodes if isinstance(n.stmt, ast.Return)
           and norm(n.stmt.value) == 'False']
    old_t = [t for t in gl.nodes if t.kind == 'test' and norm(
        t.stmt.test) == '_is_respecting(old.gate._circuit, '
        'old.location, model)']
    new_t = [t for t in gl.nodes if t.kind == 'test' and norm(
        t.stmt.test) == '_is_respecting(new, old.location, model)']
    rep.count()
    rep.check(
        len(old_t) == 1 and bool(rej) and any(
            gl.edge_dominates(t.id, 'false', rej[0].id)
            and gl.edge_dominates(old_t[0].id, 'true', t.id)
            for t in new_t), C, '_less_than_fn_respecting', lt.path,
        lt.lineno,
        'a non-respecting replacement of a respecting block is rejected',
        'a new block that does not respect the model can replace an old '
        'block that did', key='reject',
    )


def pred_specs(ctx: Ctx, rep: Report) -> None:
    """The predicates that select the workflow branches mean what the
    typestate assumes they mean (sa/rules/wftypestate.py:PREDICATES)."""
    S = 'PRED'
    P = 'bqskit/passes/control/predicates/'
    for path, cls, skip, member in (
        (P + 'multi.py', 'MultiPhysicalPredicate', 'gate.num_qudits < 2',
         'gate not in model.gate_set'),
        (P + 'single.py', 'SinglePhysicalPredicate', 'gate.num_qudits > 1',
         'gate not in data.gate_set'),
    ):
        f = ctx.fn(f'{path}:{cls}.get_truth_value')
        g = ctx.cfg(f)
        rep.seen(f.qualname)
        lp = [n for n in g.nodes if n.kind == 'for' and norm(
            n.stmt.iter) == 'circuit.gate_set']
        sk = [t for t in g.nodes if t.kind == 'test' and norm(
            t.stmt.test) == skip]
        mem = [t for t in g.nodes if t.kind == 'test' and norm(
            t.stmt.test) == member]
        rf = [n for n in g.nodes if isinstance(n.stmt, ast.Return) and norm(
            n.stmt.value) == 'False']
        rt = [n for n in g.nodes if isinstance(n.stmt, ast.Return) and norm(
            n.stmt.value) == 'True']
        ok = (
            len(lp) == 1 and len(sk) == 1 and len(mem) == 1 and len(rf) == 1
            and len(rt) == 1
            and g.edge_dominates(sk[0].id, 'false', mem[0].id)
            and g.edge_dominates(mem[0].id, 'true', rf[0].id)
            and rt[0].id not in g.in_loop_body(lp[0])
        )
        if ok:
            # a skipped gate, and a gate that is a member, go on to the next
            # gate: within the same iteration they reach no `return`
            def same_iteration(t, label):
                return g.reach([b for b, l in g.succ[t.id] if l == label],
                               blocked={lp[0].id})
            ok = not ({rf[0].id, rt[0].id} & (
                same_iteration(sk[0], 'true')
                | same_iteration(mem[0], 'false')))
        if cls == 'MultiPhysicalPredicate':
            ok = ok and any(
                isinstance(n.stmt, ast.Assign) and norm(
                    n.stmt.targets[0]) == 'model' and norm(
                    n.stmt.value) == 'data.model' for n in g.nodes)
        rep.count()
        which = 'multi' if 'Multi' in cls else 'single'
        rep.check(
            ok, S, cls, f.path, f.lineno,
            f'true iff every {which}-qudit gate of the circuit is in the '
            'model\'s gate set',
            f'{cls} no longer answers "every {which}-qudit gate is native": '
            f'expected `{skip}` -> continue, `{member}` -> return False, '
            'True after the loop. The workflow selects its retargeting '
            'branches with it', key='spec',
        )
    for path, cls, ret in (
        (P + 'width.py', 'WidthPredicate',
         'circuit.num_qudits < self.width'),
        (P + 'notpredicate.py', 'NotPredicate',
         'not self.predicate(circuit, data)'),
    ):
        f = ctx.fn(f'{path}:{cls}.get_truth_value')
        rep.seen(f.qualname)
        rets = [r for r in ast.walk(f.node) if isinstance(r, ast.Return)]
        rep.count()
        rep.check(
            len(rets) == 1 and norm(rets[0].value) == ret, S, cls, f.path,
            f.lineno, f'returns `{ret}`',
            f'{cls} returns `{norm(rets[0].value) if rets else "?"}`, '
            f'expected `{ret}`', key='spec',
        )
    sm = 'bqskit/passes/mapping/setmodel.py'
    f = ctx.fn(f'{sm}:ExtractModelConnectivityPass.run')
    g = ctx.cfg(f)
    rep.seen(f.qualname)
    save = [n for n in g.nodes if isinstance(n.stmt, ast.Assign) and norm(
        n.stmt.targets[0]) == 'data[self.key]' and norm(
        n.stmt.value) == 'data.model.coupling_graph']
    over = [n for n in g.nodes if isinstance(n.stmt, ast.Assign) and norm(
        n.stmt.targets[0]) == 'data.model.coupling_graph']
    rep.count(3)
    rep.check(
        len(save) == 1 and len(over) == 1 and norm(over[0].stmt.value) == (
            'CouplingGraph.all_to_all(data.model.num_qudits)')
        and not g.precedes(lambda n: n is save[0], lambda n: n is over[0]),
        'PAIR', 'ExtractModelConnectivityPass.run', f.path, f.lineno,
        'the real coupling graph is saved before it is replaced by '
        'all-to-all', 'the coupling graph is overwritten before it is '
        'saved (it can never be restored)', key='save-first',
    )
    f = ctx.fn(f'{sm}:RestoreModelConnectivityPass.run')
    t = norm(f.node)
    rep.seen(f.qualname)
    rep.check(
        'data.model.coupling_graph = '
        'data[ExtractModelConnectivityPass.key]' in t
        and 'del data[ExtractModelConnectivityPass.key]' in t, 'PAIR',
        'RestoreModelConnectivityPass.run', f.path, f.lineno,
        'the saved coupling graph is written back and the slot cleared',
        'the saved coupling graph is not written back to the model',
        key='restore',
    )
    f = ctx.fn(f'{sm}:SetModelPass.run')
    g = ctx.cfg(f)
    rep.seen(f.qualname)
    from ..rules import q
    rep.check(
        g.must(q.assigns('data.model', 'self.model')) and any(
            isinstance(n.stmt, ast.Raise) for n in g.nodes), 'PAIR',
        'SetModelPass.run', f.path, f.lineno,
        'installs the target model (after refusing a machine that is too '
        'small)', 'SetModelPass does not install self.model on every '
        'normal path', key='set-model',
    )
