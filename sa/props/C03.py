"""C03 — compile() of a unitary, state or state system reaches its target.

Decided statically (DESIGN 4/C03):
  WF     the three direct workflows set model and target before the search
         pass; the target given to SetTargetPass is the builder's input
  GA     search returns a circuit only under cost < success_threshold (or by
         the logged best-effort exit)
  ORD    results of a list input keep the order of the inputs
  ALIGN  permutation-aware synthesis enumerates permutations and targets in
         the same nesting order and publishes the pair zipped with the
         selected circuit
  RADIX  radix-dependent constructions build circuits of that radix
Convergence of the numerical search is not decided.
"""
from __future__ import annotations

import ast

from ..engine import Ctx
from ..report import Report
from ..rules import ga
from ..rules import q
from ..rules import wf
from ..rules import wfinterp as W
from ..source import AnalysisError
from ..source import norm
from . import C10


def run(ctx: Ctx, rep: Report) -> None:
    rep.explanation = (
        'Static clauses of C03: typestate analysis of the three direct '
        'workflows over all decision combinations (model and target set '
        'before synthesis; the target is the user input) (WF); guarded '
        'accept of QSearch / LEAP / QFAST / QPredict (GA); the result chain '
        'of compile() for list inputs consists of order-preserving steps '
        '(ORD); the parallel permutation tables of permutation-aware '
        'synthesis are aligned (ALIGN); radix belief contradictions in '
        'bqskit/passes (RADIX). Convergence and distances are not decided.'
    )
    rep.assumptions += [
        'documented best-effort exit of QSearch/LEAP (frontier exhausted) '
        'is an observation, not a violation',
    ]
    wf_direct(ctx, rep)
    n = ga.rule_ga(ctx, rep, only={
        'QSearchSynthesisPass.synthesize', 'LEAPSynthesisPass.synthesize',
        'QFASTDecompositionPass.synthesize',
        'QFASTDecompositionPass.finalize',
        'QPredictDecompositionPass.synthesize'})
    rep.floor('GA', n, 5, 'synthesis functions')
    rep.observe(
        'QSearch/LEAP return their best circuit with two warnings when the '
        'frontier empties; that circuit may be above the threshold '
        '(documented best effort).')
    ordered(ctx, rep)
    align(ctx, rep)
    C10.radix(ctx, rep)
    synth_pass(ctx, rep)
    # the state-system target is W V^dagger: complex state matrices are
    # adjoined, never transposed bare
    from ..rules.adjoint import rule_adjoint
    rule_adjoint(ctx, rep, ('bqskit/qis/state/',), 2)


def wf_direct(ctx: Ctx, rep: Report) -> None:
    R = 'WF'
    n = 0
    for name in wf.DIRECT:
        f = ctx.fn(f'{wf.COMPILE}:{name}')
        first_param = f.params[0]
        for label, tree, dec in wf.direct_configs(ctx, name):
            n += 1
            out, a = wf.analyse(ctx, tree, circuit=False)
            rep.count(a.leaves)
            short = label.split('/')[0]
            bad = [i for i in a.issues if i.code in (
                'requires-MODEL', 'requires-TARGET')]
            rep.count()
            rep.check(
                not bad and out.has('TARGET') and out.has('MODEL'), R,
                f'{short}:order', wf.COMPILE, bad[0].line if bad else 0,
                f'{label}: model and target are set before synthesis',
                f'{label}: ' + '; '.join(i.what for i in bad[:2]) if bad
                else f'{label}: SetModelPass/SetTargetPass missing',
                key='set-before-search',
            )
            # the object given to SetTargetPass is the builder's input
            targets = [x for x in _walk(tree) if isinstance(x, W.Obj)
                       and x.cls == 'SetTargetPass']
            rep.count()
            ok = len(targets) == 1 and isinstance(
                targets[0].arg(0, 'target'), W.Unknown) and (
                targets[0].arg(0, 'target').why == 'input')
            rep.check(
                ok, R, f'{short}:target', wf.COMPILE,
                targets[0].lineno if targets else 0,
                f'{label}: the target is the user\'s input',
                f'{label}: SetTargetPass is not given the builder\'s '
                f'`{first_param}` parameter', key='target-is-input',
            )
    rep.floor(R, n, 12, 'direct workflow configurations')


def _walk(v):
    if isinstance(v, W.Obj):
        yield v
        for a in list(v.args) + list(v.kwargs.values()):
            yield from _walk(a)
    elif isinstance(v, (list, tuple)):
        for x in v:
            yield from _walk(x)


def ordered(ctx: Ctx, rep: Report) -> None:
    O = 'ORD'
    fs = [f for f in ctx.index.module(wf.COMPILE).functions.values()
          if f.name == 'compile']
    f = fs[-1]  # the implementation (after the overloads)
    rep.seen(f.qualname)
    chain = ['typed_inputs', 'workflows', 'in_circuits', 'job_ids',
             'results']
    defs = {}
    for n in ast.walk(f.node):
        if isinstance(n, ast.Assign) and isinstance(
            n.targets[0], ast.Name) and n.targets[0].id in chain:
            defs[n.targets[0].id] = n.value
    prev = {'typed_inputs': ['input'], 'workflows': ['typed_inputs'],
            'in_circuits': ['typed_inputs'],
            'job_ids': ['in_circuits', 'workflows'], 'results': ['job_ids']}
    for name in chain:
        v = defs.get(name)
        rep.count()
        ok = isinstance(v, ast.ListComp) and len(v.generators) == 1 and (
            not v.generators[0].ifs)
        why = 'not a plain list comprehension'
        if ok:
            it = v.generators[0].iter
            srcs = []
            if isinstance(it, ast.Name):
                srcs = [it.id]
            elif isinstance(it, ast.Call) and norm(it.func) == 'zip':
                srcs = [norm(a) for a in it.args]
            ok = srcs == prev[name]
            why = f'iterates {srcs}, expected {prev[name]} in order'
        rep.check(
            ok, O, f'compile:{name}', f.path, getattr(v, 'lineno', f.lineno),
            f'`{name}` is built element by element from {prev[name]}',
            f'`{name}` is {why}: results can come back in another order '
            'than the inputs', key=name,
        )
    # outs / datas appended in the order of results; zipped with the inputs
    t = norm(f.node)
    rep.count(2)
    g = ctx.cfg(f)
    lp = [n for n in g.nodes if n.kind == 'for' and norm(
        n.stmt.iter) == 'results' and norm(n.stmt.target) == 'result']
    ok = len(lp) == 1
    if ok:
        body = g.in_loop_body(lp[0])
        st = [b for b, l in g.succ[lp[0].id] if l == 'iter'][0]
        unpack = [n for n in g.nodes if n.id in body and isinstance(
            n.stmt, ast.Assign) and norm(n.stmt.targets[0]) == '(out, data)'
            and norm(n.stmt.value) == 'result']
        ok = len(unpack) == 1 and all(
            g.must(q.has_call(f'{lst}.append', [v]), start=st,
                   ends={lp[0].id})
            for lst, v in (('outs', 'out'), ('datas', 'data')))
    rep.check(
        ok, O, 'compile:outs', f.path, f.lineno,
        'outputs and pass data are collected in result order',
        'outs/datas are not appended in the order of `results`', key='outs',
    )
    rep.check(
        'for typed_input, data in zip(typed_inputs, datas)' in t
        and 'list(zip(outs, pis, pfs))' in t, O, 'compile:mappings', f.path,
        f.lineno, 'mappings are zipped with their own outputs',
        'the mapping lists are not zipped with outs in input order',
        key='mappings',
    )
    rep.observe(
        'compile(): the list branch starts non-circuit inputs from '
        '`Circuit(1)` while the single-input branch starts from '
        'Circuit.from_unitary(input) / Circuit(n, radixes); sibling '
        'difference, harmless because synthesis passes replace the circuit '
        '(observation).')


def align(ctx: Ctx, rep: Report) -> None:
    A = 'ALIGN'
    sites = [
        ('bqskit/passes/synthesis/pas.py:'
         'PermutationAwareSynthesisPass.synthesize', 'PAS'),
        ('bqskit/passes/mapping/embed.py:EmbedAllPermutationsPass.run',
         'Embed'),
    ]
    for qual, tag in sites:
        f = ctx.fn(qual)
        g = ctx.cfg(f)
        rep.seen(f.qualname)
        pbp = [n for n in g.nodes if isinstance(n.stmt, ast.Assign) and norm(
            n.stmt.targets[0]) == 'permsbyperms']
        tg = [n for n in g.nodes if isinstance(n.stmt, ast.Assign) and norm(
            n.stmt.targets[0]) == 'targets']
        if len(pbp) != 4 or len(tg) != 4:
            raise AnalysisError(f'{tag}: four permutation branches expected')
        for p in pbp:
            gp = {(t.id, l) for t, l in g.guards_of(p.id)}
            mate = [t for t in tg if {(x.id, l) for x, l in g.guards_of(
                t.id)} == gp]
            rep.count()
            if len(mate) != 1:
                rep.fail(A, f'{tag}:branch@{p.lineno}', f.path, p.lineno,
                         'permsbyperms and targets are not assigned in the '
                         'same branch', key='branch')
                continue
            m = mate[0]
            pv, tv = p.stmt.value, m.stmt.value
            # product factors
            prod = None
            for x in ast.walk(pv):
                if isinstance(x, ast.Call) and norm(x.func) in (
                    'it.product', 'product'):
                    prod = [norm(a) for a in x.args]
            gens = []
            if isinstance(tv, ast.ListComp):
                for gen in tv.generators:
                    if isinstance(gen.iter, ast.Call) and norm(
                        gen.iter.func) in ('it.product', 'product'):
                        gens += [norm(a) for a in gen.iter.args]
                    else:
                        gens.append(norm(gen.iter))
            elif isinstance(tv, ast.List):
                gens = []
            want = []
            if prod and len(prod) == 2:
                if prod[0] == 'perms':
                    want.append('Pis')
                if prod[1] == 'perms':
                    want.append('Pos')
            ok = prod is not None and gens == want
            rep.check(
                ok, A, f'{tag}:branch@{p.lineno}', f.path, p.lineno,
                f'product{tuple(prod or [])} and the targets over '
                f'{gens or "[utry]"} enumerate the same permutations in the '
                'same nesting order',
                f'permsbyperms = product{tuple(prod or [])} but targets '
                f'iterate {gens}: circuit i is paired with the wrong '
                '(input, output) permutation', key=f'{prod}',
            )
            # the matrices multiply on the right side
            if isinstance(tv, ast.ListComp):
                e = norm(tv.elt)
                side_ok = e in ('Po.T @ utry @ Pi', 'utry @ Pi',
                                'Po.T @ utry')
                rep.count()
                rep.check(
                    side_ok, A, f'{tag}:sides@{p.lineno}', f.path, m.lineno,
                    f'`{e}`: input permutation on the right, output '
                    'permutation (transposed) on the left',
                    f'`{e}` applies the permutations on the wrong side',
                    key=f'sides:{e}',
                )
    # PAS selection keeps permutation and circuit together
    f = ctx.fn(sites[0][0])
    g = ctx.cfg(f)
    t = norm(f.node)
    sel_c = [n for n in g.nodes if isinstance(n.stmt, ast.Assign) and norm(
        n.stmt.targets[0]) == 'best_circuit' and norm(
        n.stmt.value) == 'circuit']
    sel_p = [n for n in g.nodes if isinstance(n.stmt, ast.Assign) and norm(
        n.stmt.targets[0]) == 'best_perm' and norm(n.stmt.value) == 'perm']
    tests = [x for x in g.nodes if x.kind == 'test' and norm(
        x.stmt.test) == 'score < best_score']
    rep.count(3)
    rep.check(
        len(sel_c) == 1 and len(sel_p) == 1 and len(tests) == 1
        and g.edge_dominates(tests[0].id, 'true', sel_c[0].id)
        and g.edge_dominates(tests[0].id, 'true', sel_p[0].id)
        and 'zip(permsbyperms[1:], circuits[1:])' in t
        and 'best_circuit = circuits[0]' in t
        and 'best_perm = permsbyperms[0]' in t, A, 'PAS:select', f.path,
        f.lineno, 'the selected circuit and its permutation pair are '
        'chosen together from aligned lists',
        'the best circuit and the permutation pair published for it are '
        'not selected together from zip(permsbyperms, circuits)',
        key='select',
    )
    rep.check(
        "data['initial_mapping'] = best_perm[0]" in t
        and "data['final_mapping'] = best_perm[1]" in t, A, 'PAS:publish',
        f.path, f.lineno,
        'initial mapping = input permutation, final = output permutation',
        'the published mappings are not (best_perm[0], best_perm[1])',
        key='publish',
    )
    rets = [n for n in g.nodes if isinstance(n.stmt, ast.Return)]
    rep.check(
        len(rets) == 1 and norm(rets[0].stmt.value) == 'best_circuit', A,
        'PAS:return', f.path, f.lineno, 'returns the selected circuit',
        'does not return the selected circuit', key='return',
    )
    # Embed: index arithmetic inverse to the product's nesting
    f = ctx.fn(sites[1][0])
    t = norm(f.node)
    rep.count(2)
    rep.check(
        'for t, d in it.product(targets, datas)' in t
        and 'graph = graphs[i % len(graphs)]' in t
        and 'perm = permsbyperms[i // len(graphs)]' in t
        and 'for graph in graphs:' in t, A, 'Embed:index', f.path, f.lineno,
        'flattened index i: inner factor (graphs) by %, outer '
        '(permutations) by //',
        'the flattened product(targets, datas) is not decoded with '
        'graphs[i % len(graphs)] and permsbyperms[i // len(graphs)]',
        key='index',
    )
    rep.check(
        'new_pi = tuple((univ_perm[i] for i in perm[0]))' in t
        and 'new_pf = tuple((univ_perm[i] for i in perm[1]))' in t
        and 'renumber_c.renumber_qudits(univ_perm)' in t, A,
        'Embed:renumber', f.path, f.lineno,
        'a renumbered circuit is stored under the equally renumbered '
        'permutation pair',
        'renumbered circuits are not stored under the renumbered '
        '(input, output) permutations', key='renumber',
    )


def synth_pass(ctx: Ctx, rep: Report) -> None:
    """SynthesisPass.run installs the circuit synthesised for data.target"""
    f = ctx.fn('bqskit/passes/synthesis/synthesis.py:SynthesisPass.run')
    rep.seen(f.qualname)
    t = norm(f.node)
    rep.count()
    rep.check(
        'self.synthesize(' in t and 'circuit.become(' in t and (
            'data.target' in t or 'target' in t), 'FLOW',
        'SynthesisPass.run', f.path, f.lineno,
        'the circuit becomes the result of synthesize(target, data)',
        'SynthesisPass.run no longer installs synthesize(data.target)',
        key='install',
    )
