"""C12 — Cancelling work removes it everywhere and disturbs nothing else.

Decided statically (DESIGN 4/C12):
  COVER  _handle_cancel reaches every task-holding container of the worker;
         the lazily purged ready queue is filtered where it is popped
  MUST   cancel paths: Worker.cancel, task completion, server cancel,
         client disconnect, forwarding on every role; results / awaits for
         cancelled work are refused
  LEAK   a branch that discards a task because it is cancelled also
         releases it  (known finding: the two `continue`s)
  REFUSE the server declines a cancel only for unknown / already cancelled /
         foreign tasks
  FRESH  mailbox ids come from monotone counters (a late result for a
         dropped mailbox can never find a newer one)
"""
from __future__ import annotations

import ast

from ..engine import Ctx
from ..report import Report
from ..rules import q
from ..rules import runtime as R
from ..rules.fresh import rule_fresh
from ..source import AnalysisError
from ..source import norm


def run(ctx: Ctx, rep: Report) -> None:
    rep.explanation = (
        'Static clauses of C12: the worker\'s cancel handler covers every '
        'container that can hold a task (read from the annotations in '
        'Worker.__init__), the ready queue is filtered at its single pop '
        'site, every role forwards CANCEL, results and awaits of cancelled '
        'work are refused, and discard branches are checked for releasing '
        'what they discard (two known leaks). Races between CANCEL and '
        'RESULT and quiescent emptiness in general are not decided.'
    )
    rep.assumptions += [
        'task-holding containers = Worker.__init__ attributes whose '
        'annotation mentions RuntimeTask or RuntimeAddress, plus _mailboxes',
    ]
    cover(ctx, rep)
    must(ctx, rep)
    refuse(ctx, rep)
    leak(ctx, rep)
    # a late RESULT for a cancelled mailbox is dropped because its id names
    # nothing; that needs ids never to be handed out twice
    rule_fresh(
        ctx, rep, R.WORKER, '_get_new_mailbox_id', 'self._mailbox_counter',
        None, 'a cancelled mailbox\'s late result must not find a newer '
        'mailbox under the same id',
    )
    rule_fresh(
        ctx, rep, R.DET, '_get_new_mailbox_id', 'self.mailbox_counter', None,
        'a cancelled compilation\'s late result must not find a newer '
        'compilation\'s mailbox under the same id', also=(R.ATT,),
    )


def refuse(ctx: Ctx, rep: Report) -> None:
    """REFUSE: the server declines a cancel request only for a task that is
    unknown, already cancelled (mailbox gone) or owned by somebody else.
    Every test that decides between the dropping path and a return without
    dropping is split into its and/or/not leaves; each leaf must be a
    membership test on the task or mailbox table or mention the requesting
    connection.  A leaf reading anything else (e.g. the state of the
    mailbox) means some cancel of a live, owned task leaves its mailbox and
    result on the server."""
    f = ctx.fn(R.DET + '.handle_cancel_comp_task')
    g = ctx.cfg(f)
    pop = g.ids(q.has_call('self.mailboxes.pop'))
    if not pop:
        return  # reported by MUST server-cancel
    n = 0
    for t in g.nodes:
        if t.kind != 'test':
            continue
        labs = {lab for _b, lab in g.succ[t.id]}
        if not ({'true', 'false'} <= labs):
            continue
        reach_pop = {
            lab: bool(g.reach([b for b, l in g.succ[t.id] if l == lab])
                      & pop) for lab in ('true', 'false')}
        skip = {
            lab: g.exit in g.reach(
                [b for b, l in g.succ[t.id] if l == lab], blocked=pop)
            for lab in ('true', 'false')}
        if not any(reach_pop.values()) or not any(skip.values()):
            continue
        if t.id not in g.reach([g.entry], blocked=pop):
            continue
        n += 1
        for leaf in _leaves(t.stmt.test):
            rep.count()
            txt = norm(leaf)
            ok = (
                isinstance(leaf, ast.Compare) and len(leaf.ops) == 1
                and isinstance(leaf.ops[0], (ast.In, ast.NotIn))
                and norm(leaf.comparators[0]) in (
                    'self.tasks', 'self.mailboxes')
            ) or any(isinstance(x, ast.Name) and x.id == 'conn'
                     for x in ast.walk(leaf))
            rep.check(
                ok, 'REFUSE', 'DetachedServer.handle_cancel_comp_task',
                f.path, leaf.lineno,
                f'`{txt}` is an unknown/cancelled/foreign-task condition',
                f'a cancel request can be declined because of `{txt}`, '
                'which is neither "unknown task", "mailbox already gone" '
                'nor "not the caller\'s task": the cancelled compilation\'s '
                'mailbox (and any stored result) stays on the server',
                key=txt,
            )
    rep.floor('REFUSE', n, 1, 'deciding tests in handle_cancel_comp_task')


def _leaves(e: ast.AST) -> list[ast.AST]:
    if isinstance(e, ast.BoolOp):
        return [x for v in e.values for x in _leaves(v)]
    if isinstance(e, ast.UnaryOp) and isinstance(e.op, ast.Not):
        return _leaves(e.operand)
    return [e]


def _containers(ctx: Ctx) -> dict[str, str]:
    init = ctx.fn(R.WORKER + '.__init__')
    out = {}
    for n in ast.walk(init.node):
        if isinstance(n, ast.AnnAssign) and isinstance(
            n.target, ast.Attribute,
        ) and norm(n.target.value) == 'self':
            a = norm(n.annotation)
            if 'RuntimeTask' in a or 'RuntimeAddress' in a or (
                'WorkerMailbox' in a
            ):
                out[n.target.attr] = a
    return out


def cover(ctx: Ctx, rep: Report) -> None:
    C = 'COVER'
    cont = _containers(ctx)
    want = {'_tasks', '_delayed_tasks', '_ready_task_ids',
            '_cancelled_task_ids', '_mailboxes'}
    # a new task container must be judged, not silently ignored
    extra = set(cont) - want - {'_active_task', 'most_recent_read_submit'}
    if extra:
        raise AnalysisError(
            f'Worker.__init__ has new task containers {sorted(extra)}: the '
            'COVER table in sa/props/C12.py must say how cancel treats them')
    missing = want - set(cont)
    if missing:
        raise AnalysisError(f'Worker containers vanished: {sorted(missing)}')
    f = ctx.fn(R.WORKER + '._handle_cancel')
    g = ctx.cfg(f)
    rep.seen(f.qualname)
    rep.count(6)
    rep.check(
        g.must(q.has_call('self._cancelled_task_ids.add', ['addr'])), C,
        'Worker._handle_cancel:_cancelled_task_ids', f.path, f.lineno,
        'the cancelled address is recorded on every path',
        'the cancelled address is not recorded: tasks popped later from '
        'the ready queue (or arriving later) are not recognised as '
        'cancelled', key='_cancelled_task_ids',
    )
    loops = [n for n in g.nodes if n.kind == 'for' and 'self._tasks' in norm(
        n.stmt.iter)]
    tests = [t for t in g.nodes if t.kind == 'test' and norm(
        t.stmt.test) == 'task.is_descendant_of(addr)']
    ok = len(loops) == 1 and len(tests) == 1
    tc = [n for n in g.nodes if q.has_call('task.cancel', [])(n)]
    tp = [n for n in g.nodes if q.has_call('self._tasks.pop')(n)]
    mp = [n for n in g.nodes if q.has_call('self._mailboxes.pop')(n)]
    ok_t = ok and len(tc) == 1 and len(tp) == 1 and all(
        g.edge_dominates(tests[0].id, 'true', n.id) for n in tc + tp)
    rep.check(
        ok_t, C, 'Worker._handle_cancel:_tasks', f.path, f.lineno,
        'every started task that descends from the address is cancelled '
        '(coroutine closed) and removed',
        'started descendants of the cancelled address are not both '
        'cancelled (task.cancel()) and removed from _tasks',
        key='_tasks',
    )
    snapshot = ok and norm(loops[0].stmt.iter).startswith('list(')
    rep.check(
        snapshot, C, 'Worker._handle_cancel:iteration', f.path, f.lineno,
        'iterates a snapshot of _tasks while removing from it',
        '_tasks is mutated while being iterated (RuntimeError: dictionary '
        'changed size during iteration)', key='snapshot',
    )
    ok_m = ok and len(mp) == 1 and g.edge_dominates(
        tests[0].id, 'true', mp[0].id) and any(
        n.kind == 'for' and norm(n.stmt.iter) == 'task.owned_mailboxes'
        and mp[0].id in g.in_loop_body(n) for n in g.nodes)
    rep.check(
        ok_m, C, 'Worker._handle_cancel:_mailboxes', f.path, f.lineno,
        'every mailbox owned by a cancelled task is dropped',
        'mailboxes owned by cancelled tasks are not dropped', key='_mailboxes',
    )
    flt = [n for n in g.nodes if isinstance(n.stmt, ast.Assign) and norm(
        n.stmt.targets[0]) == 'self._delayed_tasks']
    good = False
    if len(flt) == 1 and isinstance(flt[0].stmt.value, ast.ListComp):
        lc = flt[0].stmt.value
        gen = lc.generators[0]
        good = norm(gen.iter) == 'self._delayed_tasks' and len(
            gen.ifs) == 1 and norm(gen.ifs[0]) == (
            f'not {norm(gen.target)}.is_descendant_of(addr)') and norm(
            lc.elt) == norm(gen.target)
    rep.check(
        good and g.must(lambda n: n in flt), C,
        'Worker._handle_cancel:_delayed_tasks', f.path, f.lineno,
        'delayed (not yet started) descendants are purged',
        'delayed tasks descending from the cancelled address are not '
        'purged: they would be started later', key='_delayed_tasks',
    )
    # lazy container: filtered at the pop site
    f2 = ctx.fn(R.WORKER + '._get_next_ready_task')
    g2 = ctx.cfg(f2)
    rep.seen(f2.qualname)
    ret = [n for n in g2.nodes if isinstance(n.stmt, ast.Return) and norm(
        n.stmt.value) == 'task']
    t1 = [t for t in g2.nodes if t.kind == 'test' and (
        'addr in self._cancelled_task_ids' in norm(t.stmt.test))]
    t2 = [t for t in g2.nodes if t.kind == 'test' and (
        'in self._cancelled_task_ids for' in norm(t.stmt.test)
        and 'task.breadcrumbs' in norm(t.stmt.test))]
    ok = len(ret) == 1 and len(t1) == 1 and len(t2) == 1 and (
        g2.edge_dominates(t1[0].id, 'false', ret[0].id)
        and g2.edge_dominates(t2[0].id, 'false', ret[0].id))
    rep.check(
        ok, C, 'Worker._get_next_ready_task:_ready_task_ids', f2.path,
        f2.lineno,
        'a task leaves the ready queue only if neither it nor an ancestor '
        'is cancelled',
        'a ready task can be returned for execution without testing its '
        'address and its breadcrumbs against the cancelled set',
        key='_ready_task_ids',
    )
    isd = ctx.fn(R.RT + 'task.py:RuntimeTask.is_descendant_of')
    rep.seen(isd.qualname)
    t = norm(isd.node)
    rep.count()
    rep.check(
        'addr == self.return_address or addr in self.breadcrumbs' in t, C,
        'RuntimeTask.is_descendant_of', isd.path, isd.lineno,
        'descendant = own address or any ancestor address',
        'is_descendant_of no longer tests the own address and the '
        'breadcrumbs', key='descendant',
    )


def must(ctx: Ctx, rep: Report) -> None:
    M = 'MUST'
    # Worker.cancel
    f = ctx.fn(R.WORKER + '.cancel')
    g = ctx.cfg(f)
    rep.seen(f.qualname)
    rep.count(4)
    rep.check(
        g.must(q.has_call('self._mailboxes.pop', ['future.mailbox_id']))
        and g.must(q.has_call('self._active_task.owned_mailboxes.remove',
                              ['future.mailbox_id'])), M, 'Worker.cancel',
        f.path, f.lineno, 'the mailbox is dropped and disowned locally',
        'cancel() does not drop the mailbox and remove it from the '
        'owner\'s list on every path', key='local',
    )
    snd = [s for s in R.sends_in(f, 'Worker') if s.kind == 'CANCEL']
    lp = [n for n in g.nodes if n.kind == 'for']
    addrs = [n for n in ast.walk(f.node) if isinstance(n, ast.Assign)
             and norm(n.targets[0]) == 'addrs']
    shape = (
        len(snd) == 1 and len(lp) == 1 and norm(lp[0].stmt.iter) == 'addrs'
        and len(addrs) == 1 and isinstance(addrs[0].value, ast.ListComp)
        and norm(addrs[0].value.elt) == (
            'RuntimeAddress(self._id, future.mailbox_id, slot_id)')
        and norm(addrs[0].value.generators[0].iter) == 'range(num_slots)'
        and norm(snd[0].payload) == norm(lp[0].stmt.target)
    )
    ns = [n for n in ast.walk(f.node) if isinstance(n, ast.Assign)
          and norm(n.targets[0]) == 'num_slots']
    shape = shape and len(ns) == 1 and norm(ns[0].value) == (
        'self._mailboxes[future.mailbox_id].expected_num_results')
    rep.check(
        shape, M, 'Worker.cancel:broadcast', f.path, f.lineno,
        'one CANCEL per slot of the mailbox is sent upward',
        'cancel() does not send one CANCEL for every slot address '
        '(self._id, mailbox, 0..expected_num_results-1)', key='per-slot',
    )
    # the slot count is read before the mailbox is popped
    rd = lambda n: isinstance(n.stmt, ast.Assign) and norm(
        n.stmt.targets[0]) == 'num_slots'
    rep.check(
        not g.precedes(rd, q.has_call('self._mailboxes.pop')), M,
        'Worker.cancel:order', f.path, f.lineno,
        'slot count read before the mailbox is dropped',
        'the mailbox is dropped before its slot count is read', key='order',
    )
    # task completion cancels unfinished children
    f = ctx.fn(R.WORKER + '._process_task_completion')
    g = ctx.cfg(f)
    rep.seen(f.qualname)
    lp = [n for n in g.nodes if n.kind == 'for' and 'owned_mailboxes' in norm(
        n.stmt.iter)]
    rep.count(3)
    ok = len(lp) == 1
    if ok:
        body = g.in_loop_body(lp[0])
        rdy = [t for t in g.nodes if t.id in body and t.kind == 'test'
               and norm(t.stmt.test).endswith('.ready')]
        pop = [n for n in g.nodes if n.id in body and q.has_call(
            'self._mailboxes.pop', ['mailbox_id'])(n)]
        can = [n for n in g.nodes if n.id in body and q.has_call(
            'self.cancel', ['RuntimeFuture(mailbox_id)'])(n)]
        ok = len(rdy) == 1 and len(pop) == 1 and len(can) == 1 and (
            g.edge_dominates(rdy[0].id, 'true', pop[0].id))
        if ok:
            # every iteration ends in pop (complete) or cancel
            st = [b for b, l in g.succ[lp[0].id] if l == 'iter'][0]
            ok = g.must(lambda n: n is pop[0] or n is can[0], start=st,
                        ends={lp[0].id})
    rep.check(
        ok, M, 'Worker._process_task_completion:children', f.path, f.lineno,
        'each owned mailbox is either complete (dropped) or cancelled when '
        'its owner finishes',
        'a finished task leaves an owned, unfinished mailbox neither '
        'dropped nor cancelled: its children keep running and their '
        'results accumulate', key='children',
    )
    gone = [t for t in g.nodes if t.kind == 'test' and norm(
        t.stmt.test) == 'task.return_address not in self._tasks']
    outs = [g.node_containing(s.node) for s in R.sends_in(f, 'Worker')
            if s.kind in ('RESULT', 'UPDATE')]
    loc = [n for n in g.nodes if q.has_call('self._handle_result')(n)]
    rep.check(
        len(gone) == 1 and all(
            g.edge_dominates(gone[0].id, 'false', n.id)
            for n in outs + loc) and bool(outs), M,
        'Worker._process_task_completion:cancelled', f.path, f.lineno,
        'a task cancelled while it ran delivers no result',
        'the result of a task that was cancelled while running can still '
        'be delivered', key='no-result',
    )
    rep.check(
        g.must(lambda n: n in gone or q.has_call('self._tasks.pop')(n)), M,
        'Worker._process_task_completion:release', f.path, f.lineno,
        'a finished task is removed from _tasks',
        'a finished task stays in _tasks', key='release',
    )
    # results / awaits for cancelled work are refused
    f = ctx.fn(R.WORKER + '._handle_result')
    g = ctx.cfg(f)
    t = [x for x in g.nodes if x.kind == 'test' and norm(
        x.stmt.test) == 'mailbox_id not in self._mailboxes']
    dep = [n for n in g.nodes if q.has_call('box.deposit_result')(n)]
    rep.count(2)
    rep.check(
        len(t) == 1 and len(dep) == 1 and g.edge_dominates(
            t[0].id, 'false', dep[0].id), M, 'Worker._handle_result', f.path,
        f.lineno, 'a result for a dropped mailbox is ignored',
        'a result can be deposited without checking that its mailbox still '
        'exists', key='ignore-result',
    )
    f = ctx.fn(R.WORKER + '._process_await')
    g = ctx.cfg(f)
    rep.seen(f.qualname)
    t = [x for x in g.nodes if x.kind == 'test' and norm(
        x.stmt.test) == 'future.mailbox_id not in self._mailboxes']
    use = [n for n in g.nodes if isinstance(n.stmt, ast.Assign) and norm(
        n.stmt.targets[0]) == 'box']
    raises = [n for n in g.nodes if isinstance(n.stmt, ast.Raise) and t
              and g.edge_dominates(t[0].id, 'true', n.id)]
    rep.check(
        len(t) == 1 and bool(raises) and all(
            g.edge_dominates(t[0].id, 'false', n.id) for n in use), M,
        'Worker._process_await', f.path, f.lineno,
        'awaiting a cancelled future fails with an exception',
        'awaiting a future whose mailbox was dropped does not raise',
        key='await-cancelled',
    )
    # server side
    f = ctx.fn(R.DET + '.handle_cancel_comp_task')
    g = ctx.cfg(f)
    rep.seen(f.qualname)
    pop = q.has_call('self.mailboxes.pop', ['mailbox_id'])
    bc = [s for s in R.sends_in(f, 'DetachedServer')
          if s.kind == 'CANCEL' and s.via == 'broadcast']
    addr = [n for n in ast.walk(f.node) if isinstance(n, ast.Assign)
            and norm(n.targets[0]) == 'addr']
    early = [n for n in g.nodes if isinstance(n.stmt, ast.Return)]
    rep.count(2)
    ok = len(bc) == 1 and len(addr) == 1 and norm(addr[0].value) == (
        'RuntimeAddress(-1, mailbox_id, 0)') and norm(
        bc[0].payload) == 'addr'
    bcn = g.node_containing(bc[0].node) if bc else None
    ok = ok and g.must(lambda n: pop(n) or n in early) and g.must(
        lambda n: n is bcn or n in early)
    rep.check(
        ok, M, 'DetachedServer.handle_cancel_comp_task', f.path, f.lineno,
        'a live task\'s mailbox is dropped and CANCEL(-1, mailbox, 0) is '
        'broadcast to every employee',
        'cancelling a live compilation task does not drop its mailbox and '
        'broadcast CANCEL for the root address (-1, mailbox_id, 0)',
        key='server-cancel',
    )
    f = ctx.fn(R.DET + '.handle_disconnect')
    g = ctx.cfg(f)
    rep.seen(f.qualname)
    lp = [n for n in g.nodes if n.kind == 'for' and any(
        q.has_call('self.handle_cancel_comp_task')(m)
        for m in g.nodes if m.id in g.in_loop_body(n))]
    src = [n for n in g.nodes if q.assigns(
        'tasks', 'self.clients.pop(conn)')(n)]
    rep.check(
        len(lp) == 1 and len(src) == 1 and norm(
            lp[0].stmt.iter) == 'tasks' and g.must(lambda n: n is lp[0]), M,
        'DetachedServer.handle_disconnect', f.path, f.lineno,
        'every open task of a disconnecting client is cancelled',
        'a disconnecting client\'s open tasks are not all cancelled',
        key='disconnect-cancel',
    )
    # ... and they are cancelled while the server still knows them: the
    # cancel handler declines ids that are not in self.tasks, so the loop
    # has to run before this client's entries are popped from that table
    pops = [n for n in g.nodes if q.has_call('self.tasks.pop')(n)]
    canc = [n for n in g.nodes if q.has_call(
        'self.handle_cancel_comp_task')(n)]
    rep.count()
    rep.check(
        bool(canc) and not any(
            c.id in g.reach([p.id], include_starts=False)
            for p in pops for c in canc), M,
        'DetachedServer.handle_disconnect:order', f.path, f.lineno,
        'tasks are cancelled before their table entries are dropped',
        'handle_disconnect drops the client\'s entries from self.tasks '
        'before it cancels them: handle_cancel_comp_task then declines '
        'every one as unknown and the work keeps running', key='cancel-first',
    )
    # a failure in a task that is (a descendant of) cancelled work is not
    # reported: the test is the descendant test, not exact membership
    f2 = ctx.fn(R.WORKER + '._try_step_next_ready_task')
    g2 = ctx.cfg(f2)
    rep.seen(f2.qualname)
    hs = [n for n in g2.nodes if n.kind == 'except' and norm(
        n.stmt.type) == 'Exception']
    rets = [n for n in g2.nodes if isinstance(n.stmt, ast.Return)
            and hs and n.id in g2.reach([hs[0].id])]
    desc = [t for t in g2.nodes if t.kind == 'test' and norm(
        t.stmt.test) == 'task.is_descendant_of(addr)']
    loops = [n for n in g2.nodes if n.kind == 'for' and norm(
        n.stmt.iter) == 'self._cancelled_task_ids']
    rep.count()
    rep.check(
        len(hs) == 1 and bool(rets) and len(desc) == 1 and len(loops) == 1
        and all(g2.edge_dominates(desc[0].id, 'true', r.id) for r in rets)
        and desc[0].id in g2.in_loop_body(loops[0]), M,
        'Worker._try_step_next_ready_task:cancelled-error', f2.path,
        f2.lineno,
        'an exception in a descendant of cancelled work is dropped, any '
        'other is reported',
        'the error handler does not decide "cancelled" by '
        'task.is_descendant_of(addr) over every cancelled address: the '
        'failure of a task whose ancestor was cancelled is reported to the '
        'client as an error of the compilation (or a real error is '
        'swallowed)', key='cancelled-error',
    )
    # forwarding on every role
    roles = [(R.DET, 'BELOW', 'down'), (R.MGR, 'ABOVE', 'down')]
    for qual, direction, _ in roles:
        d = [x for x in R.dispatchers(ctx.fn(qual + '.handle_message'))
             if x.direction == direction]
        b = d[0].branch('CANCEL') if d else None
        rep.count()
        fwd = b is not None and any(
            isinstance(c, ast.Call) and norm(c.func) == 'self.broadcast'
            and len(c.args) == 2 and norm(c.args[1]) == 'payload'
            and norm(c.args[0]) in ('msg', 'RuntimeMessage.CANCEL')
            for s in b.body for c in ast.walk(s))
        rep.check(
            fwd, M, f'{qual.split(":")[1]}.{direction}:CANCEL',
            qual.split(':')[0], b.lineno if b else 0,
            'CANCEL is re-broadcast to every employee',
            'CANCEL arriving here is not re-broadcast downward: workers '
            'under this node never learn of the cancellation',
            key='forward',
        )
    d = [x for x in R.dispatchers(ctx.fn(R.MGR + '.handle_message'))
         if x.direction == 'BELOW'][0]
    rep.count()
    rep.check(
        'CANCEL' not in d.kinds() and d.else_action() == 'forward-up', M,
        'Manager.BELOW:CANCEL', d.fn.path, d.fn.lineno,
        'CANCEL from below travels up (catch-all forward) to the server, '
        'which broadcasts it system-wide',
        'a manager no longer forwards CANCEL from its workers upward',
        key='forward-up',
    )
    w = [x for x in R.dispatchers(ctx.fn(R.WORKER + '.recv_incoming'))][0]
    b = w.branch('CANCEL')
    rep.count()
    rep.check(
        b is not None and any(
            isinstance(c, ast.Call) and norm(c.func) == 'self._handle_cancel'
            for s in b.body for c in ast.walk(s)), M,
        'Worker.recv_incoming:CANCEL', w.fn.path, b.lineno if b else 0,
        'workers act on CANCEL', 'workers ignore CANCEL', key='worker',
    )
    rep.observe(
        'Worker._handle_cancel pops owned mailboxes with '
        '`self._mailboxes.pop(mailbox_id)` (no default) although the main '
        'thread removes the same mailboxes in _get_desired_result/cancel; '
        '`self._tasks.pop(key, None)` two lines later is defensive. An '
        'inconsistency of belief whose failing schedule was not '
        'reproduced; reported as an observation only.'
    )


def leak(ctx: Ctx, rep: Report) -> None:
    L = 'LEAK'
    f = ctx.fn(R.WORKER + '._get_next_ready_task')
    g = ctx.cfg(f)
    n = 0
    for t in g.nodes:
        if t.kind != 'test' or '_cancelled_task_ids' not in norm(
            t.stmt.test,
        ):
            continue
        conts = [c for c in g.nodes if isinstance(c.stmt, ast.Continue)
                 and g.edge_dominates(t.id, 'true', c.id)]
        for c in conts:
            n += 1
            rep.count()
            st = [b for b, l in g.succ[t.id] if l == 'true'][0]
            released = g.must(
                q.has_call('self._tasks.pop'), start=st, ends={c.id})
            which = 'breadcrumbs' if 'breadcrumbs' in norm(
                t.stmt.test) else 'address'
            rep.check(
                released, L, f'Worker._get_next_ready_task:{which}', f.path,
                c.lineno,
                'the discarded task is also removed from _tasks',
                f'a task discarded from the ready queue because its '
                f'{which} is cancelled stays in _tasks (with its '
                'mailboxes): a SUBMIT overtaken by its own CANCEL leaves '
                'residue on the worker', key='not-released',
            )
    rep.floor(L, n, 2, 'cancel-discard branches')
