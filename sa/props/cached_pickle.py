"""NEWARGS — a class whose __new__ takes keyword arguments hands *both*
argument groups back to pickle (part of C16).

`CachedClass.__new__(cls, *args, **kwargs)` decides identity from
(cls, args, kwargs) and stores that triple as `__cache_key__`; QFactor's
`__new__(cls, **kwargs)` keeps the keywords it passes to the native base.
pickle and copy re-create such an object by calling `cls.__new__` with what
`__getnewargs_ex__` returns, a pair (args, kwargs).  The older hook
`__getnewargs__` can only return positional arguments: an object that was
constructed with keyword arguments would then be re-created as a different
(or invalid) instance on the other side of a process boundary.

Writer/reader agreement, read from the source of every class under bqskit/
that defines `__new__` with a `**kwargs` parameter:
  * `__getnewargs_ex__` exists, `__getnewargs__` does not, and the hook
    returns a pair;
  * each element of the pair is either an empty tuple / dict literal (when
    __new__ has no such parameter group) or read from an attribute that
    __new__ assigned from that parameter group: element 0 from the
    positional group, element 1 from the keyword group (for a stored tuple
    `key[i]`, the i-th element of the stored tuple).
"""
from __future__ import annotations

import ast

from ..engine import Ctx
from ..report import Report
from ..source import norm

R = 'NEWARGS'


def _mentions(e: ast.AST, name: str | None) -> bool:
    return name is not None and any(
        isinstance(x, ast.Name) and x.id == name for x in ast.walk(e))


def _source_ok(new_node: ast.AST, elem: ast.AST, group: str | None) -> str:
    """'' if elem hands back the parameter group `group`, else a reason."""
    txt = norm(elem)
    if group is None:
        return '' if txt in ('tuple()', '()', '{}', 'dict()') else (
            f'`{txt}` is returned although __new__ has no such parameters')
    attr, idx = None, None
    e = elem
    if isinstance(e, ast.Subscript) and isinstance(
            e.slice, ast.Constant) and isinstance(e.slice.value, int):
        idx = e.slice.value
        e = e.value
    if isinstance(e, ast.Attribute) and norm(e.value) == 'self':
        attr = e.attr
    if attr is None:
        return f'`{txt}` is not an attribute recorded by __new__'
    stores = [s for s in ast.walk(new_node) if isinstance(s, ast.Assign)
              and isinstance(s.targets[0], ast.Attribute)
              and s.targets[0].attr.lstrip('_').endswith(attr.lstrip('_'))]
    if not stores:
        return f'__new__ never assigns `{attr}`'
    for s in stores:
        v = s.value
        if idx is not None:
            if not (isinstance(v, ast.Tuple) and idx < len(v.elts)
                    and _mentions(v.elts[idx], group)):
                return (f'`{txt}`: element {idx} of `{norm(v)}` is not the '
                        f'`{group}` group')
        elif not _mentions(v, group):
            return f'`{attr}` is assigned `{norm(v)}`, not from `{group}`'
    return ''


def newargs(ctx: Ctx, rep: Report) -> None:
    n = 0
    for c in sorted(ctx.index.classes.values(), key=lambda c: c.qualname):
        new = c.methods.get('__new__')
        if new is None or new.node.args.kwarg is None:
            continue
        n += 1
        rep.seen(new.qualname)
        rep.count()
        va = new.node.args.vararg.arg if new.node.args.vararg else None
        kw = new.node.args.kwarg.arg
        ex = c.methods.get('__getnewargs_ex__')
        plain = c.methods.get('__getnewargs__')
        why = ''
        if ex is None:
            why = ('there is no __getnewargs_ex__' + (
                '; __getnewargs__ can only return positional arguments'
                if plain is not None else ''))
        elif plain is not None:
            why = '__getnewargs__ is defined next to __getnewargs_ex__'
        else:
            rets = [r for r in ast.walk(ex.node) if isinstance(r, ast.Return)]
            if len(rets) != 1 or not (isinstance(
                    rets[0].value, ast.Tuple) and len(
                    rets[0].value.elts) == 2):
                why = ('__getnewargs_ex__ returns `' + (
                    norm(rets[0].value) if rets else '?')
                    + '`, not a pair (args, kwargs)')
            else:
                a, k = rets[0].value.elts
                why = _source_ok(new.node, a, va) or _source_ok(
                    new.node, k, kw)
        rep.check(
            not why, R, f'{c.name}:getnewargs', c.path,
            (ex or plain or new).lineno,
            'pickle gets (args, kwargs) back, each from what __new__ kept',
            f'{c.name}: {why}. __new__(cls, '
            + (f'*{va}, ' if va else '') + f'**{kw}) needs '
            '__getnewargs_ex__ to return (positional, keyword) arguments as '
            'recorded at construction: otherwise an instance built with '
            'keyword arguments is re-created differently when it is pickled '
            'or copied to another process', key='newargs',
        )
    rep.floor(R, n, 2, 'classes with __new__(cls, ..., **kwargs)')


def cachekey(ctx: Ctx, rep: Report) -> None:
    """CACHEKEY: instances of a CachedClass are compared by identity (the
    cached gate classes define no structural __eq__), so "equal gates are
    equal" rests entirely on the cache key.  A key built from the literal
    `(args, kwargs)` of the call distinguishes spellings of one parameter
    set - `HGate()` / `HGate(2)` / `HGate(radix=2)` - and the gates compare
    unequal.  `CachedClass.__new__` must bind the arguments to the
    constructor's signature and apply the defaults before it builds the
    key."""
    K = 'CACHEKEY'
    c = ctx.index.cls('bqskit/utils/cachedclass.py:CachedClass')
    new = c.methods['__new__']
    rep.seen(new.qualname)
    rep.count()
    calls = {norm(k.func).rsplit('.', 1)[-1]
             for k in ast.walk(new.node) if isinstance(k, ast.Call)}
    keyed = [
        s for s in ast.walk(new.node) if isinstance(s, ast.Assign)
        and any(isinstance(t, ast.Name) and t.id == 'key' for t in s.targets)
    ]
    bound_key = any('arguments' in norm(s.value) for s in keyed)
    rep.check(
        {'bind', 'apply_defaults'} <= calls and bound_key, K,
        'CachedClass.__new__', new.path, new.lineno,
        'the cache key is built from the arguments bound to the '
        'constructor\'s signature, defaults applied',
        'CachedClass.__new__ builds its cache key from the literal '
        '(args, kwargs) of the call: HGate(), HGate(2) and HGate(radix=2) '
        'are three instances, and since cached gates are compared by '
        'identity they are unequal (circuits differing only in that '
        'spelling differ, GateSet membership fails)',
        key='literal-key',
    )
    # premise of the rule: cached gate classes do rely on identity
    gates = [
        k for k in ctx.index.classes.values()
        if k.path.startswith('bqskit/ir/gates/')
        and ctx.index.is_subclass(k, 'CachedClass')
    ]
    ident = [k for k in gates if ctx.index.lookup_method(k, '__eq__') is None]
    rep.floor(K, len(ident), 20, 'cached gate classes compared by identity')
