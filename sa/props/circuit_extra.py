"""Additional structural clauses over bqskit/ir/circuit.py shared by C04
(program order) and C05 (view consistency).

  APPEND   append places an operation in the first cycle after the rear of
           every touched qudit, opening a cycle when needed, and returns
           that cycle
  READAPI  next/prev/front/rear/first_on/last_on read the slot of the
           dependency view that their name says (0 = prev, 1 = next)
  INSERT   insert clamps its cycle, opens a cycle exactly when the slot is
           occupied, and links into both neighbours
"""
from __future__ import annotations

import ast

from ..engine import Ctx
from ..report import Report
from ..rules import q
from ..rules.linear import linform
from ..source import norm

CIRC = 'bqskit/ir/circuit.py'


def _fn(ctx: Ctx, name: str):
    return ctx.fn(f'{CIRC}:Circuit.{name}')


def append_spec(ctx: Ctx, rep: Report) -> None:
    A = 'APPEND'
    f = _fn(ctx, 'append')
    g = ctx.cfg(f)
    rep.seen(f.qualname)
    chk = q.has_call('self.check_valid_operation', ['op'])
    fnd = q.assigns('cycle_index',
                    'self._find_available_or_append_cycle(op.location)')
    app = q.has_call('self._append', ['op', 'cycle_index'])
    ret = [n for n in g.nodes if isinstance(n.stmt, ast.Return)]
    rep.count(5)
    rep.check(
        g.must(chk) and g.must(fnd) and g.must(app) and not g.precedes(
            chk, app) and not g.precedes(fnd, app) and len(ret) == 1
        and norm(ret[0].stmt.value) == 'cycle_index', A, 'Circuit.append',
        f.path, f.lineno,
        'validate, find the first available cycle for the location, place '
        'the operation there, return that cycle',
        'append no longer validates the operation, places it at '
        '_find_available_or_append_cycle(op.location) and returns that '
        'cycle index', key='append',
    )
    f = _fn(ctx, 'find_available_cycle')
    g = ctx.cfg(f)
    rd = ctx.rd(f)
    rep.seen(f.qualname)
    lp = [n for n in g.nodes if n.kind == 'for' and norm(
        n.stmt.iter) == 'location']
    upd = [n for n in g.nodes if isinstance(n.stmt, ast.Assign) and norm(
        n.stmt.targets[0]) == 'cycle' and isinstance(
        n.stmt.value, ast.Call) and norm(n.stmt.value.func) == 'max']
    ok = len(lp) == 1 and len(upd) == 1
    why = ''
    if ok:
        args = upd[0].stmt.value.args
        other = [a for a in args if norm(a) != 'cycle']
        lf = linform(other[0], upd[0], rd) if len(other) == 1 else None
        ok = len(args) == 2 and lf is not None and lf.get('1') == 1 and any(
            k.endswith('.cycle') and v == 1 for k, v in lf.items()) and (
            len(lf) == 2)
        why = f'{lf}'
        rear = [d for d in rd.reaching(upd[0], 'rear')
                if d.value is not None]
        ok = ok and bool(rear) and all(
            norm(d.value) == 'self._rear[q]' for d in rear)
    rep.check(
        ok, A, 'Circuit.find_available_cycle', f.path, f.lineno,
        'available cycle = max over the location\'s qudits of (cycle of the '
        'rear operation + 1)',
        'find_available_cycle is no longer max(rear.cycle + 1) over the '
        f'qudits of the location ({why})', key='find',
    )
    init0 = [n for n in g.nodes if q.assigns('cycle', '0')(n)]
    ret = [n for n in g.nodes if isinstance(n.stmt, ast.Return) and norm(
        n.stmt.value) == 'cycle']
    rep.check(
        len(init0) == 1 and len(ret) == 1, A,
        'Circuit.find_available_cycle:bounds', f.path, f.lineno,
        'starts from cycle 0 and returns the maximum',
        'the search does not start at 0 / return the maximum', key='bounds',
    )
    f = _fn(ctx, '_find_available_or_append_cycle')
    g = ctx.cfg(f)
    rep.seen(f.qualname)
    t = [x for x in g.nodes if x.kind == 'test' and norm(
        x.stmt.test) == 'available_cycle == self.num_cycles']
    ac = [n for n in g.nodes if q.has_call('self._append_cycle', [])(n)]
    r1 = [n for n in g.nodes if isinstance(n.stmt, ast.Return) and norm(
        n.stmt.value) == 'self.num_cycles - 1']
    r2 = [n for n in g.nodes if isinstance(n.stmt, ast.Return) and norm(
        n.stmt.value) == 'available_cycle']
    rep.check(
        len(t) == 1 and len(ac) == 1 and len(r1) == 1 and len(r2) == 1
        and g.edge_dominates(t[0].id, 'true', ac[0].id)
        and g.edge_dominates(t[0].id, 'true', r1[0].id)
        and g.edge_dominates(t[0].id, 'false', r2[0].id)
        and r1[0].id in g.reach([ac[0].id]), A,
        'Circuit._find_available_or_append_cycle', f.path, f.lineno,
        'a new cycle is opened exactly when every existing cycle is taken, '
        'and its index is returned',
        'a cycle is not appended exactly when available == num_cycles (or '
        'the wrong index is returned)', key='open-cycle',
    )
    for name, inner in (('append_gate', 'self.append'),
                        ('insert_gate', 'self.insert')):
        f = _fn(ctx, name)
        rep.seen(f.qualname)
        t = norm(f.node)
        rep.check(
            f'{inner}(' in t and 'Operation(gate, location, params)' in t,
            A, f'Circuit.{name}', f.path, f.lineno,
            'wraps (gate, location, params) in an Operation and delegates',
            f'{name} does not build Operation(gate, location, params)',
            key=name,
        )


def readapi_spec(ctx: Ctx, rep: Report) -> None:
    R = 'READAPI'
    for name, slot in (('next', 1), ('prev', 0)):
        f = _fn(ctx, name)
        rep.seen(f.qualname)
        rets = [r for r in ast.walk(f.node) if isinstance(r, ast.Return)]
        final = [r for r in rets if isinstance(r.value, ast.SetComp)]
        rep.count()
        ok = len(final) == 1 and norm(final[0].value) == (
            '{p for p in self._dag[point][%d].values() if p is not None}'
            % slot)
        rep.check(
            ok, R, f'Circuit.{name}', f.path, f.lineno,
            f'reads slot {slot} of the dependency entry, without None',
            f'Circuit.{name} no longer returns the non-None values of '
            f'self._dag[point][{slot}]', key='slot',
        )
        # region form: neighbours outside the region only
        g = ctx.cfg(f)
        adds = [n for n in g.nodes if q.has_call(
            f'{name}_points.add', [name])(n)]
        ok = len(adds) == 1
        if ok:
            gd = {(norm(t.stmt.iter if t.kind == 'for' else t.stmt.test),
                   lab) for t, lab in g.guards_of(adds[0].id)}
            ok = (f'self.{name}(p)', 'iter') in gd and (
                (f'{name} not in points', 'true') in gd
                or (f'{name} in points', 'false') in gd)
        rep.count()
        rep.check(
            ok, R, f'Circuit.{name}:region',
            f.path, f.lineno,
            'for a region: neighbours of its operations that are not '
            'themselves in the region',
            f'the region form of {name} changed', key='region',
        )
    for name, field in (('front', '_front'), ('rear', '_rear'),
                        ('first_on', '_front'), ('last_on', '_rear')):
        f = _fn(ctx, name)
        rep.seen(f.qualname)
        t = norm(f.node)
        rep.count()
        rep.check(
            f'self.{field}' in t and f'self.{"_rear" if field == "_front" else "_front"}' not in t,
            R, f'Circuit.{name}', f.path, f.lineno,
            f'reads `{field}`', f'Circuit.{name} does not read `{field}`',
            key='field',
        )


def front_rear_spec(ctx: Ctx, rep: Report) -> None:
    """An operation can be both the first and the last one on a qudit:
    wherever a mutator retargets `_front[q]` and `_rear[q]` under equality
    tests with the same point, the two tests must be independent (neither
    nested in, nor an else-branch of, the other)."""
    R = 'FRONTREAR'
    n = 0
    for name in ('pop', 'replace', 'straighten'):
        f = _fn(ctx, name)
        g = ctx.cfg(f)
        rep.seen(f.qualname)
        fr = [t for t in g.nodes if t.kind == 'test' and norm(
            t.stmt.test).startswith('self._front[')]
        rr = [t for t in g.nodes if t.kind == 'test' and norm(
            t.stmt.test).startswith('self._rear[')]
        for a in fr:
            for b in rr:
                ta, tb = a.stmt.test, b.stmt.test
                if not (isinstance(ta, ast.Compare) and isinstance(
                        tb, ast.Compare)):
                    continue
                if norm(ta.comparators[0]) != norm(tb.comparators[0]):
                    continue
                n += 1
                rep.count()
                dep = any(g.edge_dominates(a.id, lab, b.id)
                          for lab in ('true', 'false')) or any(
                    g.edge_dominates(b.id, lab, a.id)
                    for lab in ('true', 'false'))
                rep.check(
                    not dep, R, f'Circuit.{name}', f.path, b.lineno,
                    f'`{norm(ta)[:40]}` and `{norm(tb)[:40]}` are tested '
                    'independently',
                    f'`{norm(tb)[:50]}` (line {b.lineno}) is only evaluated '
                    f'on one outcome of `{norm(ta)[:50]}` (line '
                    f'{a.lineno}): an operation that is both first and last '
                    'on a qudit gets only one of the two pointers updated',
                    key=norm(tb.comparators[0]),
                )
    rep.floor(R, n, 3, 'front/rear retarget pairs')


def straighten_shadow_spec(ctx: Ctx, rep: Report) -> None:
    """straighten: every qudit of a moved operation joins the shadow."""
    R = 'SHADOW'
    f = _fn(ctx, 'straighten')
    rep.seen(f.qualname)
    g = ctx.cfg(f)
    moved = [x for x in g.nodes if q.assigns('gate_moved', 'True')(x)]
    ext = [x for x in g.nodes if q.has_call(
        'qudits_to_add_to_shadow.extend', ['op.location'])(x)]
    upd = [x for x in g.nodes if q.has_call(
        'shadow_qudits.update', ['qudits_to_add_to_shadow'])(x)]
    rep.count()
    ok = len(moved) == 1 and len(ext) == 1 and len(upd) == 1 and {
        (t.id, l) for t, l in g.guards_of(moved[0].id)
        if t.kind == 'test'} == {
        (t.id, l) for t, l in g.guards_of(ext[0].id) if t.kind == 'test'}
    rep.check(
        ok, R, 'Circuit.straighten:shadow', f.path, f.lineno,
        'all qudits of every moved operation are added to the shadow',
        'a moved operation does not add all of its qudits '
        '(`op.location`) to the shadow region: later cycles on its other '
        'qudits are not pushed and operations get reordered',
        key='shadow',
    )


def insert_spec(ctx: Ctx, rep: Report) -> None:
    I = 'INSERT'
    f = _fn(ctx, 'insert')
    g = ctx.cfg(f)
    rep.seen(f.qualname)
    occ = [t for t in g.nodes if t.kind == 'test' and norm(
        t.stmt.test) == 'self.is_cycle_unoccupied(cycle_index, '
        'op.location)']
    ins = [n for n in g.nodes if q.has_call('self._insert_cycle',
                                            ['cycle_index'])(n)]
    rep.count(4)
    rep.check(
        len(occ) == 1 and len(ins) == 1 and g.edge_dominates(
            occ[0].id, 'false', ins[0].id), I, 'Circuit.insert:open',
        f.path, f.lineno,
        'a new cycle is opened at the index exactly when the slot is '
        'occupied',
        'insert no longer opens a cycle exactly when the target slot is '
        'occupied (the operation would overwrite another or drift)',
        key='open',
    )
    neg = [t for t in g.nodes if t.kind == 'test' and norm(
        t.stmt.test) == 'cycle_index < 0']
    fix = [n for n in g.nodes if q.assigns(
        'cycle_index', 'self.num_cycles + cycle_index')(n)]
    rep.check(
        len(neg) == 1 and len(fix) == 1 and g.edge_dominates(
            neg[0].id, 'true', fix[0].id) and not g.precedes(
            lambda n: n is neg[0], lambda n: n in occ), I,
        'Circuit.insert:negative', f.path, f.lineno,
        'negative indices are normalised before the slot is examined',
        'negative cycle indices are not normalised before use',
        key='negative',
    )
    left = [n for n in g.nodes if n.kind == 'for' and norm(
        n.stmt.iter) == 'reversed(range(cycle_index))']
    right = [n for n in g.nodes if n.kind == 'for' and norm(
        n.stmt.iter) == 'range(cycle_index, self.num_cycles)']
    rep.check(
        len(left) == 1 and len(right) == 1, I, 'Circuit.insert:search',
        f.path, f.lineno,
        'the previous operation is searched leftwards from the index, the '
        'next one rightwards from the index',
        'the neighbour searches no longer run over '
        'reversed(range(cycle_index)) and range(cycle_index, num_cycles)',
        key='search',
    )
    chk = q.has_call('self.check_valid_operation', ['op'])

    def modifies(n) -> bool:
        if any(norm(c.func) in ('self._insert_cycle', 'self.append',
                                'self._append') for c in n.calls()):
            return True
        st = n.stmt
        if n.kind == 'stmt' and isinstance(st, (ast.Assign, ast.AugAssign)):
            ts = st.targets if isinstance(st, ast.Assign) else [st.target]
            return any(norm(t).startswith('self._') for t in ts)
        return False
    rep.check(
        g.must(chk) and not g.precedes(chk, modifies), I,
        'Circuit.insert:validate', f.path, f.lineno,
        'the operation is validated before anything is modified',
        'insert modifies the circuit before validating the operation',
        key='validate',
    )
