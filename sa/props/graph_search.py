"""GROW — connected-subset enumeration expands from every member (C20).

`CouplingGraph.get_subgraphs_of_size` enumerates the connected vertex sets
of a given size with a recursive search that grows a set one vertex at a
time.  A connected set with a branching vertex (a star, a T) can only be
reached if the next vertex may be a neighbour of *any* vertex already in
the set, not just of the one added last.  On the shape of the code:

  start     the driver starts the search from every vertex
  copy      the recursive step works on a copy of the incoming set, with the
            new vertex added (siblings of the recursion do not see each
            other's vertices)
  emit      a set is emitted exactly when it has reached the limit
  frontier  the candidates for the next vertex are drawn from the adjacency
            of every member of the grown set: the expression that produces
            them iterates the grown set and indexes the adjacency with that
            iteration's variable
  recurse   the recursive call passes the grown set

Lines, rings and cliques — all the existing tests use — have no branching
vertex below size 4, so a frontier built from the last vertex alone passes
them.
"""
from __future__ import annotations

import ast

from ..engine import Ctx
from ..report import Report
from ..rules import valnum
from ..source import norm

GRAPH = 'bqskit/qis/graph.py'
R = 'GROW'


def grow(ctx: Ctx, rep: Report) -> None:
    f = ctx.fn(f'{GRAPH}:CouplingGraph._location_search')
    g = ctx.cfg(f)
    rep.seen(f.qualname)
    ps = [p for p in f.params if p != 'self']
    if len(ps) != 4:
        rep.fail(R, 'CouplingGraph._location_search:shape', f.path, f.lineno,
                 'signature is no longer (locations, path, vertex, limit)',
                 key='shape')
        return
    out, path, vertex, limit = ps
    rec = [c for n in g.nodes for c in n.calls()
           if norm(c.func) == 'self._location_search']
    rep.count(4)
    grown = None
    if rec and len(rec[0].args) == 4 and isinstance(rec[0].args[1], ast.Name):
        grown = rec[0].args[1].id
    # copy
    copies = [n for n in g.nodes if isinstance(n.stmt, ast.Assign)
              and grown and norm(n.stmt.targets[0]) == grown]
    adds = [n for n in g.nodes if grown and any(
        norm(c.func) == f'{grown}.add' and [norm(a) for a in c.args] == [
            vertex] for c in n.calls())]
    ok_copy = (
        grown is not None and grown != path and len(copies) == 1
        and norm(copies[0].stmt.value) in (
            f'{path}.copy()', f'set({path})', f'{path} | {{{vertex}}}',
            f'{path}.union({{{vertex}}})')
        and (bool(adds) or vertex in norm(copies[0].stmt.value)))
    rep.check(
        ok_copy, R, 'CouplingGraph._location_search:copy', f.path, f.lineno,
        'each step extends its own copy of the set by the new vertex',
        'the recursive step does not work on a private copy of the incoming '
        'set extended by the new vertex: branches of the search share '
        'vertices', key='copy',
    )
    # emit exactly at the limit
    tests = [t for t in g.nodes if t.kind == 'test' and grown and norm(
        t.stmt.test) in (f'len({grown}) == {limit}',
                         f'{limit} == len({grown})')]
    emits = [n for n in g.nodes if any(
        norm(c.func) == f'{out}.add' for c in n.calls())]
    ok_emit = len(tests) == 1 and len(emits) == 1 and g.edge_dominates(
        tests[0].id, 'true', emits[0].id) and grown is not None and any(
        grown in norm(a) for c in emits[0].calls() for a in c.args) and all(
        not g.edge_dominates(tests[0].id, 'true', g.node_containing(c).id)
        for c in rec)
    rep.check(
        ok_emit, R, 'CouplingGraph._location_search:emit', f.path, f.lineno,
        'a set is emitted exactly when it reaches the limit, and the search '
        'stops there',
        'sets are not emitted exactly at len(set) == limit (or the search '
        'continues past the limit)', key='emit',
    )
    # frontier from every member
    ok_front = False
    why = 'no recursive call over a candidate set'
    for lp in g.nodes:
        if lp.kind != 'for' or not any(
                g.node_containing(c) is not None and g.node_containing(
                    c).id in g.in_loop_body(lp) for c in rec):
            continue
        src = valnum.subst(ctx, f, lp, lp.stmt.iter)
        why = f'candidates come from `{norm(src)[:80]}`'
        for comp in ast.walk(src):
            if not isinstance(comp, (ast.SetComp, ast.ListComp,
                                     ast.GeneratorExp)):
                continue
            over = [ge for ge in comp.generators if norm(ge.iter) == grown
                    and isinstance(ge.target, ast.Name)]
            for ge in over:
                v = ge.target.id
                if any(isinstance(s, ast.Subscript) and norm(
                        s.value) == 'self._adj' and norm(s.slice) == v
                        for s in ast.walk(comp)):
                    ok_front = True
    rep.check(
        ok_front, R, 'CouplingGraph._location_search:frontier', f.path,
        f.lineno,
        'the next vertex may be a neighbour of any member of the set',
        f'the candidates for the next vertex are not drawn from the '
        f'adjacency of every member of the grown set ({why}): connected '
        'sets with a branching vertex (stars, T shapes) are never '
        'enumerated', key='frontier',
    )
    ok_rec = bool(rec) and all(
        len(c.args) == 4 and norm(c.args[0]) == out and norm(
            c.args[1]) == grown and norm(c.args[3]) == limit for c in rec)
    rep.check(
        ok_rec, R, 'CouplingGraph._location_search:recurse', f.path,
        f.lineno, 'the recursion carries the grown set and the same limit',
        'the recursive call does not pass (output, grown set, candidate, '
        'limit)', key='recurse',
    )
    d = ctx.fn(f'{GRAPH}:CouplingGraph.get_subgraphs_of_size')
    rep.seen(d.qualname)
    rep.count()
    nq = {'self.num_qudits'} | {
        s.targets[0].id for s in ast.walk(d.node)
        if isinstance(s, ast.Assign) and len(s.targets) == 1
        and isinstance(s.targets[0], ast.Name)
        and norm(s.value) == 'self.num_qudits'
    }
    starts = [lp for lp in ast.walk(d.node) if isinstance(lp, ast.For)
              and norm(lp.iter) in {f'range({x})' for x in nq}
              and any(isinstance(c, ast.Call) and norm(
                  c.func) == 'self._location_search' and len(c.args) == 4
                  and norm(c.args[2]) == norm(lp.target)
                  and norm(c.args[1]) == 'set()' and norm(
                      c.args[3]) == 'size' for c in ast.walk(lp))]
    rep.check(
        len(starts) == 1, R, 'CouplingGraph.get_subgraphs_of_size:start',
        d.path, d.lineno, 'the search starts from every vertex with the '
        'empty set and the requested size',
        'the enumeration is not started from every vertex with an empty '
        'set and limit `size`', key='start',
    )
