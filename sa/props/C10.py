"""C10 — Every circuit-rewriting pass preserves its target within tolerance.

Decided statically (DESIGN 4/C10):
  GA        every numerical pass commits a candidate only under
            cost(candidate, target) < success_threshold
  RADIX     belief contradiction: a function that selects by the radix of
            its input does not build the replacement as a qubit circuit
  TEMPLATE  rule passes: the template excludes the source gate, contains the
            advertised target, every collected point is replaced
  EFF       removal passes only pop from their working copies
Algebraic correctness of rules and decompositions is not decided.
"""
from __future__ import annotations

import ast
import re

from ..engine import Ctx
from ..report import Report
from ..rules import ga
from ..rules import q
from ..rules import valnum
from ..source import AnalysisError
from ..source import FunctionInfo
from ..source import norm

GATE_OF = {
    'CNOT': 'CNOTGate', 'CZ': 'CZGate', 'CY': 'CYGate', 'CH': 'CHGate',
    'Swap': 'SwapGate', 'SWAP': 'SwapGate',
}


def run(ctx: Ctx, rep: Report) -> None:
    rep.explanation = (
        'Static clauses of C10: the guarded-accept analysis over every '
        'function in bqskit/passes that compares against the success '
        'threshold (GA); classification of every `Circuit(n)` without '
        'radixes in bqskit/passes by whether its function rejects non-'
        'qubits, never looks at radixes, or contradicts itself (RADIX); '
        'the rule-pass template protocol (TEMPLATE); mutation effects of '
        'the gate-removal passes (EFF). The algebra of the rewrites is not '
        'decided.'
    )
    rep.assumptions += [
        'documented best-effort exits of QSearch/LEAP and the diagonal '
        'extraction exception are listed in sa/rules/ga.py',
    ]
    n = ga.rule_ga(ctx, rep)
    rep.floor('GA', n, 13, 'functions comparing against the threshold')
    radix(ctx, rep)
    template(ctx, rep)
    eff(ctx, rep)
    # single-qudit retargeting (ZXZXZ) spells the same rotation two ways
    from ..rules.branchsib import rule_altspell
    rule_altspell(ctx, rep, 'bqskit/passes/', 3)
    # multiplexor decomposition re-orders the location: target last, select
    # qudits in their original order
    from ..rules.stablemove import rule_stablemove
    rule_stablemove(ctx, rep, 'bqskit/passes/', 1)
    # enumeration indices used as identifiers (Walsh string ids, block ids)
    from ..rules.enumid import rule_enumid
    rule_enumid(ctx, rep, ('bqskit/passes/synthesis/',
                           'bqskit/passes/processing/',
                           'bqskit/passes/rules/'), 5)
    # analytic decompositions adjoin their complex factors consistently
    from ..rules.adjoint import rule_adjoint
    rule_adjoint(ctx, rep, ('bqskit/passes/synthesis/',
                            'bqskit/utils/math.py'), 6)
    # inverse sines / cosines of matrix-derived values are clipped (none in
    # the passes today; the rule proves its matcher on a built-in example)
    from ..rules.optrule import rule_nandom
    rule_nandom(ctx, rep, ('bqskit/passes/', 'bqskit/utils/math.py'), 0)
    # unitary diagonalisers come from schur / eigh, never from eig
    from ..rules.optrule import rule_eigunit
    rule_eigunit(ctx, rep, ('bqskit/passes/', 'bqskit/utils/math.py',
                            'bqskit/qis/'))
    # an option a pass accepts is an option the pass reads
    from ..rules.optlive import rule_optlive
    rule_optlive(ctx, rep, ('bqskit/passes/',), 150)
    # index shifts of a two-way scan are applied from the left only
    from ..rules.optlive import rule_shiftdir
    rule_shiftdir(ctx, rep, ('bqskit/passes/processing/',), 3)
    # the option flags of the conversion pass enumerate kinds x targets
    grid(ctx, rep)
    # a structural pass that re-wraps a block keeps the operation's params
    from ..rules.paramflow import rule_paramflow
    rule_paramflow(
        ctx, rep, 'bqskit/passes/util/extend.py:ExtendBlockSizePass.run', {})


# ---------------------------------------------------------------------------
def _reads_radix(f: FunctionInfo) -> list[ast.AST]:
    out = []
    for n in ast.walk(f.node):
        if isinstance(n, ast.Attribute) and n.attr == 'radixes':
            out.append(n)
        elif isinstance(n, ast.Name) and n.id in ('radix', 'radixes') and (
            isinstance(n.ctx, ast.Load)
        ):
            out.append(n)
    return out


def _rejects_non_qubit(ctx: Ctx, f: FunctionInfo) -> bool:
    g = ctx.cfg(f)
    for t in g.nodes:
        if t.kind != 'test':
            continue
        tx = norm(t.stmt.test)
        if ('radixes' in tx and '!= 2' in tx) or 'is_qubit_only()' in tx or (
            'radix != 2' in tx
        ):
            # the branch taken for non-qubits raises
            lab = 'false' if tx.startswith('not ') and 'is_qubit_only' in tx \
                else 'true'
            if 'is_qubit_only()' in tx and not tx.startswith('not '):
                lab = 'false'
            rs = [n for n in g.nodes if isinstance(n.stmt, ast.Raise)
                  and g.edge_dominates(t.id, lab, n.id)]
            if rs:
                return True
    return False


def radix(ctx: Ctx, rep: Report) -> None:
    R = 'RADIX'
    n = 0
    classes = {'rejects-non-qubit': 0, 'radix-blind': 0, 'uses-radix': 0}
    for f in ctx.index.all_functions():
        if not f.path.startswith('bqskit/passes/'):
            continue
        sites = [c for c in ast.walk(f.node) if isinstance(c, ast.Call)
                 and norm(c.func) == 'Circuit' and len(c.args) == 1
                 and not c.keywords]
        if not sites:
            continue
        rep.seen(f.qualname)
        reads = _reads_radix(f)
        rejects = _rejects_non_qubit(ctx, f)
        for c in sites:
            n += 1
            rep.count()
            qn = f'{f.cls.name + "." if f.cls else ""}{f.name}'
            if rejects:
                classes['rejects-non-qubit'] += 1
                rep.ok(R, qn, f.path, c.lineno,
                       'qubit circuit built after non-qubits were rejected')
                continue
            if not reads:
                classes['radix-blind'] += 1
                rep.ok(R, qn, f.path, c.lineno,
                       'qubit algorithm: the function never looks at '
                       'radixes')
                continue
            classes['uses-radix'] += 1
            # contradiction only if the radix-dependent value reaches the
            # new circuit or the new circuit replaces the input
            tgt = None
            for a in ast.walk(f.node):
                if isinstance(a, ast.Assign) and a.value is c and isinstance(
                    a.targets[0], ast.Name,
                ):
                    tgt = a.targets[0].id
            reaches = tgt is not None and any(
                isinstance(x, ast.Call) and norm(x.func) in (
                    'circuit.become', 'circuit.replace_with_circuit')
                and any(norm(y) == tgt for y in x.args)
                for x in ast.walk(f.node))
            rep.check(
                not reaches, R, qn, f.path, c.lineno,
                'radix is read but the qubit circuit does not replace the '
                'input',
                f'the function selects by `{norm(reads[0])}` (so it '
                'believes the radix may differ from 2) and does not reject '
                f'non-qubits, yet builds the replacement as `{norm(c)}` '
                '(default radixes = qubits) and installs it: a qutrit '
                'block fails with a radix mismatch', key='contradiction',
            )
    rep.extra['radix_classes'] = classes
    rep.floor(R, n, 15, '`Circuit(n)` constructions in bqskit/passes')


# ---------------------------------------------------------------------------
def template(ctx: Ctx, rep: Report) -> None:
    T = 'TEMPLATE'
    n = 0
    for c in sorted(ctx.index.classes.values(), key=lambda c: c.name):
        if not c.path.startswith('bqskit/passes/rules/'):
            continue
        m = re.match(r'^([A-Za-z]+)To([A-Za-z]+)Pass$', c.name)
        if not m:
            continue
        src, dst = GATE_OF.get(m.group(1)), GATE_OF.get(m.group(2))
        if src is None or dst is None:
            raise AnalysisError(f'{c.name}: unknown gate abbreviation')
        init, run_ = c.methods.get('__init__'), c.methods.get('run')
        if init is None or run_ is None:
            raise AnalysisError(f'{c.name}: __init__/run vanished')
        n += 1
        rep.seen(init.qualname, run_.qualname)
        used = {
            norm(x.args[0].func) for x in ast.walk(init.node)
            if isinstance(x, ast.Call) and isinstance(
                x.func, ast.Attribute) and x.func.attr == 'append_gate'
            and x.args and isinstance(x.args[0], ast.Call)
        }
        alias = {'CXGate': 'CNOTGate'}
        used = {alias.get(u, u) for u in used}
        rep.count(4)
        rep.check(
            src not in used, T, c.name + ':source', c.path, init.lineno,
            f'the template does not contain the source gate {src}',
            f'the replacement template still contains {src}: the '
            'advertised postcondition "source gate is gone" fails',
            key='source',
        )
        rep.check(
            dst in used, T, c.name + ':target', c.path, init.lineno,
            f'the template contains the advertised target {dst}',
            f'the template does not contain {dst} (it uses {sorted(used)})',
            key='target',
        )
        g = ctx.cfg(run_)
        # (the engine reads `x = []; for ...: if c: x.append(e)` and
        # `x = [e for ... if c]` as the same comprehension)
        want = {f'isinstance(op.gate, {src})',
                f'isinstance(op.gate, {alias.get(src, src)})'} | (
            {'isinstance(op.gate, CXGate)'} if src == 'CNOTGate' else set())
        colls = [
            a for a in ast.walk(run_.node) if isinstance(a, ast.Assign)
            and isinstance(a.targets[0], ast.Name)
            and isinstance(a.value, ast.ListComp)
            and len(a.value.generators) == 1
            and norm(a.value.generators[0].iter) == (
                'circuit.operations_with_cycles()')]
        ok_c = len(colls) == 1
        pts = None
        if ok_c:
            gen = colls[0].value.generators[0]
            pts = colls[0].targets[0].id
            ok_c = len(gen.ifs) == 1 and norm(gen.ifs[0]) in want and norm(
                gen.target) == '(cycle, op)' and norm(
                colls[0].value.elt) == '(cycle, op.location[0])'
        rep.check(
            ok_c, T, c.name + ':collect', c.path, run_.lineno,
            f'collects exactly the operations whose gate is a {src}',
            f'the collected points are not exactly those with '
            f'isinstance(op.gate, {src})', key='collect',
        )
        t = norm(run_.node)
        ok = pts is not None and (
            f'for p in {pts}]' in t
            and f'circuit.batch_replace({pts}, ops)' in t
            and 'Operation(self.cg, circuit[p].location, '
            'self.cg._circuit.params)' in t
            and g.must(q.has_call('circuit.batch_replace'))
            and g.must(q.has_call('circuit.unfold_all', []))
        )
        rep.check(
            ok, T, c.name + ':replace', c.path, run_.lineno,
            'every collected point is replaced by the template at the '
            'operation\'s own location, then unfolded',
            'not every collected point is replaced by the template at '
            'circuit[p].location (or the result is not unfolded)',
            key='replace',
        )
    rep.floor(T, n, 7, 'rule passes')


# ---------------------------------------------------------------------------
def eff(ctx: Ctx, rep: Report) -> None:
    E = 'EFF'
    sites = [
        ('bqskit/passes/processing/scan.py:ScanningGateRemovalPass.run',
         {'working_copy'}),
        ('bqskit/passes/processing/treescan.py:'
         'TreeScanningGateRemovalPass.get_tree_circs', {'work_copy'}),
        ('bqskit/passes/processing/exhaustive.py:'
         'ExhaustiveGateRemovalPass.run', {'copy'}),
    ]
    allowed = {'pop', 'instantiate', 'copy'}
    for qual, names in sites:
        f = ctx.fn(qual)
        rep.seen(f.qualname)
        bad = []
        pops = 0
        for c in ast.walk(f.node):
            if isinstance(c, ast.Call) and isinstance(
                c.func, ast.Attribute,
            ) and norm(c.func.value) in names:
                if c.func.attr == 'pop':
                    pops += 1
                if c.func.attr in ga.MUTATORS and c.func.attr not in allowed:
                    bad.append(c)
        rep.count()
        rep.check(
            not bad and pops >= 1, E, qual.split(':')[1], f.path, f.lineno,
            'working copies are only shortened (pop) and re-instantiated: '
            'the gate count cannot grow',
            'a removal pass edits its working copy with '
            + ', '.join(f'`{norm(b.func)}` (line {b.lineno})' for b in bad)
            + ('' if pops else ' and never pops'), key='only-pop',
        )
    # the shift compensation of left-to-right scanning
    f = ctx.fn('bqskit/passes/processing/scan.py:ScanningGateRemovalPass.run')
    t = norm(f.node)
    rep.count()
    rep.check(
        'idx_shift = circuit.num_cycles' in t
        and 'idx_shift -= working_copy.num_cycles' in t
        and 'cycle -= idx_shift' in t
        and 'working_copy.pop((cycle, op.location[0]))' in t, E,
        'ScanningGateRemovalPass.run:shift', f.path, f.lineno,
        'positions from the original circuit are shifted by the number of '
        'cycles already removed',
        'the cycle index taken from the original circuit is no longer '
        'corrected by (original cycles - current cycles) before popping',
        key='shift',
    )


def grid(ctx: Ctx, rep: Report) -> None:
    """GRID: BlockConversionPass has one flag per kind of block (variable,
    constant, circuit gates) and one branch per (kind, target) pair with
    kind != target.  The guards `self.convert_<kind> and self.convert_target
    == '<target>'` must be pairwise different and, for each target, cover
    every kind but the target itself: a copied guard makes one flag decide
    two conversions and another none."""
    G = 'GRID'
    c = ctx.index.cls('bqskit/passes/util/conversion.py:BlockConversionPass')
    f = c.methods['run']
    init = c.methods['__init__']
    rep.seen(f.qualname)
    flags = sorted({
        t.attr for s in ast.walk(init.node) if isinstance(s, ast.Assign)
        for t in s.targets if isinstance(t, ast.Attribute)
        and t.attr.startswith('convert_') and t.attr != 'convert_target'
    })
    pairs: list[tuple[str, str, int]] = []
    g = ctx.cfg(f)
    for node in g.nodes:
        if node.kind != 'test' or not isinstance(node.stmt, ast.If):
            continue
        # hoisted sub-tests (`to_constant = self.convert_target == ...`)
        # are read through their definitions
        test = valnum.subst(ctx, f, node, node.stmt.test)
        fl = [x.attr for x in ast.walk(test) if isinstance(
            x, ast.Attribute) and x.attr in flags]
        tg = [
            k.comparators[0].value for k in ast.walk(test)
            if isinstance(k, ast.Compare) and any(
                isinstance(x, ast.Attribute) and x.attr == 'convert_target'
                for x in ast.walk(k.left))
            and isinstance(k.comparators[0], ast.Constant)
        ]
        if len(fl) == 1 and len(tg) == 1:
            pairs.append((fl[0], tg[0], node.lineno))
    rep.count()
    dup = sorted({p[:2] for p in pairs if sum(
        1 for q in pairs if q[:2] == p[:2]) > 1})
    targets = sorted({p[1] for p in pairs})
    missing = [
        (fl, t) for t in targets for fl in flags
        if fl != f'convert_{t}' and (fl, t) not in {p[:2] for p in pairs}
    ]
    rep.check(
        len(pairs) >= 4 and not dup and not missing, G,
        'BlockConversionPass.run', f.path, f.lineno,
        f'{len(pairs)} guards, one per (kind, target) pair: '
        + ', '.join(f'{a}->{b}' for a, b, _l in pairs),
        'BlockConversionPass.run: '
        + ('; '.join(f'the guard `self.{a} and self.convert_target == '
                     f'{b!r}` occurs more than once' for a, b in dup))
        + ('; ' if dup and missing else '')
        + ('; '.join(f'no branch is guarded by `self.{a}` for target {b!r}'
                     for a, b in missing))
        + ': one flag decides two conversions and another none',
        key='guards',
    )
    rep.floor(G, len(pairs), 4, 'conversion branches')
