"""C17 — OpenQASM 2 import/export preserves the program.

Decided statically (DESIGN 4/C17):
  REG-gates      every statically named spelling the writer can emit is in
                 the reader's table, with the same constructor class and,
                 where the repository declares them, the same arities
  REG-functions  grammar function terminals = evaluator table = OpenQASM 2
  REG-rules      every semantic grammar rule has a visitor method; operator
                 rules have an evaluator branch
  FLOW           encode/decode structure; translators go through the codec
"""
from __future__ import annotations

import ast
import re

from ..engine import Ctx
from ..report import Report
from ..source import AnalysisError
from ..source import ClassInfo
from ..source import norm

VIS = 'bqskit/ir/lang/qasm2/visitor.py'
PAR = 'bqskit/ir/lang/qasm2/parser.py'
QASM2_FUNCS = {'sin', 'cos', 'tan', 'exp', 'ln', 'sqrt'}  # OpenQASM 2 spec
# spellings deliberately read back as an equal composite (one reason each)
READ_ALIASES = {
    'sxdg': 'DaggerGate(SXGate())',  # SqrtXdgGate == dagger of SX by def.
}
SEMANTIC_RULES = {
    'qreg', 'creg', 'gate', 'ugate', 'cxgate', 'gatep', 'ugatep', 'cxgatep',
    'measure', 'reset', 'barrier', 'incstmt', 'gatedecl', 'rbracket',
}


def run(ctx: Ctx, rep: Report) -> None:
    rep.explanation = (
        'Static clauses of C17: the QASM writer side (class-level '
        '_qasm_name of every gate class that inherits Gate.get_qasm, the '
        'ControlledGate spelling table) is compared with the reader side '
        '(OPENQASMVisitor.fill_gate_defs) on names, constructor classes '
        'and declared arities; the lark grammar (read as data) is compared '
        'with the evaluator table and the OpenQASM 2 function set and with '
        'the visitor\'s methods; encode/decode and the six translators are '
        'checked for going through the codec. Unitary agreement with '
        'Qiskit is not decided.'
    )
    rep.assumptions += [
        'OpenQASM 2 unary functions are sin, cos, tan, exp, ln, sqrt',
        'arities of gates whose expression comes from the binary openqudit '
        'library are not visible in source (listed as arity_unverifiable)',
    ]
    reader = reader_table(ctx)
    rep.floor('REG-gates', len(reader), 60, 'reader gate definitions')
    reg_gates(ctx, rep, reader)
    reg_functions(ctx, rep)
    reg_rules(ctx, rep)
    flow(ctx, rep)
    from .qasm_regs import declonce
    from .qasm_regs import regoff
    regoff(ctx, rep)
    declonce(ctx, rep)
    # grammar hygiene and agreement of the list walkers with the grammar
    from . import qasm_grammar
    qasm_grammar.hygiene(ctx, rep)
    qasm_grammar.listwalk(ctx, rep)
    qasm_grammar.eqqasm(ctx, rep)
    qasm_grammar.unwrap(ctx, rep)
    qasm_grammar.gate_ident(ctx, rep)
    # formal parameters of a written `gate` body (shared with C06)
    from .C06 import qasm_def_cursor
    rep.floor('CURSOR', qasm_def_cursor(ctx, rep), 1,
              'formal-parameter cursor of CircuitGate.get_qasm_gate_def')
    # frozen parameter values are merged back in index order when a gate is
    # written (Operation.get_qasm -> FrozenParameterGate.get_full_params)
    from ..rules.foldorder import rule_insertord
    rule_insertord(ctx, rep, ('bqskit/ir/',), 1)


# ---------------------------------------------------------------------------
def reader_table(ctx: Ctx) -> dict[str, tuple[str, int, int, str, int]]:
    f = ctx.fn(f'{VIS}:OPENQASMVisitor.fill_gate_defs')
    out = {}
    for n in ast.walk(f.node):
        if isinstance(n, ast.Assign) and isinstance(
            n.targets[0], ast.Subscript,
        ) and norm(n.targets[0].value) == 'self.gate_defs' and isinstance(
            n.value, ast.Call,
        ) and norm(n.value.func) == 'GateDef':
            key = n.targets[0].slice
            a = n.value.args
            if not (isinstance(key, ast.Constant) and len(a) == 4):
                raise AnalysisError(
                    f'fill_gate_defs line {n.lineno}: unexpected GateDef form')
            ctor = a[3]
            cname = norm(ctor.func) if isinstance(ctor, ast.Call) else norm(
                ctor)
            out[key.value] = (
                a[0].value, a[1].value, a[2].value, norm(ctor), n.lineno,
            )
            _ = cname
    return out


def _static_qasm_name(c: ClassInfo) -> str | None:
    v = c.class_attrs.get('_qasm_name')
    if isinstance(v, ast.Constant) and isinstance(v.value, str):
        return v.value
    return None


def _declared(ctx: Ctx, c: ClassInfo, attr: str) -> int | None:
    v = c.class_attrs.get(attr)
    if isinstance(v, ast.Constant) and isinstance(v.value, int):
        return v.value
    return None


def _expr_arity(c: ClassInfo) -> tuple[int | None, int | None]:
    """(num_params, num_qubits) from an in-repo expression literal."""
    v = c.class_attrs.get('_expr')
    if not (isinstance(v, ast.Call) and v.args):
        return None, None
    s = v.args[0]
    try:
        txt = ast.literal_eval(s)
    except Exception:
        return None, None
    if not isinstance(txt, str):
        return None, None
    m = re.match(r'\s*\w+\s*\(([^)]*)\)\s*\{(.*)\}\s*$', txt, re.S)
    if not m:
        return None, None
    ps = [p for p in m.group(1).split(',') if p.strip()]
    body = m.group(2)
    depth = 0
    rows = 0
    started = False
    for ch in body:
        if ch == '[':
            depth += 1
            if depth == 2:
                rows += 1
            started = True
        elif ch == ']':
            depth -= 1
    nq = None
    if started and rows and rows & (rows - 1) == 0:
        nq = rows.bit_length() - 1
    return len(ps), nq


def reg_gates(ctx: Ctx, rep: Report, reader) -> None:
    G = 'REG-gates'
    from .C18 import gate_classes
    gate_base = ctx.cls('bqskit/ir/gate.py:Gate')
    base_get_qasm = gate_base.methods.get('get_qasm')
    if base_get_qasm is None:
        raise AnalysisError('Gate.get_qasm vanished')
    n = 0
    unverifiable = []
    for c in gate_classes(ctx):
        name = _static_qasm_name(c)
        if name is None:
            continue
        gq = ctx.index.lookup_method(c, 'get_qasm')
        gd = ctx.index.lookup_method(c, 'get_qasm_gate_def')
        if gq is not base_get_qasm:
            continue  # custom spelling (measure, circuit gate)
        emits_def = gd is not None and gd.cls is not None and (
            gd.cls.name != 'Gate')
        n += 1
        rep.seen(c.qualname)
        rep.count()
        key = name.split('(')[0]
        if emits_def:
            rep.ok(G, c.name, c.path, c.lineno,
                   f'`{key}` is written together with its own gate '
                   'definition')
            continue
        if key not in reader:
            rep.fail(
                G, c.name, c.path, c.lineno,
                f'the writer spells this gate `{key}` but the reader\'s '
                'gate table has no such entry: a circuit containing it '
                'encodes to text that cannot be decoded', key='unreadable',
            )
            continue
        qn, npar, nvars, ctor, line = reader[key]
        ctor_cls = ctor.split('(')[0]
        if '(' in name:
            # spelled as a parameterised gate with literal arguments
            # (`rxx(pi/2)`): read back as that gate with those arguments
            lit = [a for a in name[name.index('(') + 1:].rstrip(
                ')').split(',') if a.strip()]
            wq = _declared(ctx, c, '_num_qudits')
            rep.check(
                len(lit) == npar and (wq is None or wq == nvars), G,
                c.name + ':literal', VIS, line,
                f'`{name}` supplies {len(lit)} literal argument(s) to a '
                f'reader entry taking {npar}',
                f'`{name}` supplies {len(lit)} literal argument(s) on '
                f'{wq} qubit(s) but the reader entry `{key}` takes {npar} '
                f'parameter(s) on {nvars} qubit(s)', key='literal-arity',
            )
            continue
        alias_ok = ctor_cls == c.name or _same_class(
            ctx, ctor_cls, c) or READ_ALIASES.get(key) == ctor
        rep.check(
            alias_ok, G, c.name + ':ctor', VIS, line,
            f'`{key}` is read back as {ctor}',
            f'`{key}` is written by {c.name} but read back as `{ctor}` '
            '(a different gate class)', key='ctor',
        )
        wq = _declared(ctx, c, '_num_qudits')
        wp = _declared(ctx, c, '_num_params')
        ep, eq = _expr_arity(c)
        wq = wq if wq is not None else eq
        wp = wp if wp is not None else ep
        if wq is None and wp is None:
            unverifiable.append(c.name)
            continue
        ok = (wq is None or wq == nvars) and (wp is None or wp == npar)
        rep.count()
        rep.check(
            ok, G, c.name + ':arity', VIS, line,
            f'`{key}` arity (params={wp}, qubits={wq}) matches the reader '
            f'({npar}, {nvars})',
            f'`{key}`: the gate class declares params={wp}, qubits={wq} '
            f'but the reader expects params={npar}, qubits={nvars}',
            key='arity',
        )
    rep.floor(G, n, 51, 'gate classes with a static QASM spelling')
    rep.extra['arity_unverifiable'] = unverifiable
    # reader self-consistency: key == spelled name (or listed alias)
    aliases = {'U1q': 'u1q'}
    for key, (qn, npar, nvars, ctor, line) in sorted(reader.items()):
        rep.count()
        rep.check(
            qn == key or aliases.get(key) == qn, G, f'reader:{key}', VIS,
            line, 'table key equals the definition\'s name',
            f'gate_defs[{key!r}] holds a definition named {qn!r}',
            key='key-name',
        )
    # ControlledGate spelling table
    cg = ctx.cls('bqskit/ir/gates/composed/controlled.py:ControlledGate')
    qf = cg.methods.get('qasm_name')
    if qf is None:
        raise AnalysisError('ControlledGate.qasm_name vanished')
    sup = None
    for x in ast.walk(qf.node):
        if isinstance(x, ast.Assign) and norm(
            x.targets[0]) == 'supported_gates':
            sup = [e.value for e in x.value.elts]
    if sup is None:
        raise AnalysisError('ControlledGate.qasm_name: supported_gates')
    for s in sup:
        rep.count()
        rep.check(
            s in reader, G, f'ControlledGate:{s}', cg.path, qf.lineno,
            f'controlled spelling `{s}` is readable',
            f'ControlledGate can emit `{s}` but the reader has no entry',
            key='controlled',
        )


def _same_class(ctx: Ctx, name: str, c: ClassInfo) -> bool:
    """`name` is an alias of class c (e.g. CNOTGate = CXGate)."""
    for m in ctx.index.modules.values():
        v = m.assigns.get(name)
        if v is not None and norm(v) == c.name:
            return True
        if name in m.classes and m.classes[name] is c:
            return True
    r = None
    for m in ctx.index.modules.values():
        if name in m.imports:
            r = ctx.index.resolve_dotted(m.imports[name])
            break
    return r is c


# ---------------------------------------------------------------------------
def grammar_text(ctx: Ctx) -> str:
    m = ctx.index.module(PAR)
    for n in ast.walk(m.tree):
        if isinstance(n, ast.Call) and norm(n.func) == 'Lark' and n.args:
            try:
                return ast.literal_eval(n.args[0])
            except Exception as e:
                raise AnalysisError(f'grammar is not a literal: {e}')
    raise AnalysisError('Lark(...) grammar not found in parser.py')


def reg_functions(ctx: Ctx, rep: Report) -> None:
    F = 'REG-functions'
    g = grammar_text(ctx)
    terms = dict(re.findall(r'^([A-Z]+):\s*"([^"]+)"\s*$', g, re.M))
    m = re.search(r'^unaryop:(.*?)(?=^\w+:)', g, re.M | re.S)
    if not m:
        raise AnalysisError('grammar rule `unaryop` not found')
    uops = re.findall(r'[A-Z]+', m.group(1))
    lits = {}
    for u in uops:
        if u not in terms:
            raise AnalysisError(f'terminal {u} has no string definition')
        lits[u] = terms[u]
    mod = ctx.index.module(VIS)
    el = mod.assigns.get('eval_locals')
    if not isinstance(el, ast.Dict):
        raise AnalysisError('eval_locals is not a dict literal')
    keys = {k.value for k in el.keys if isinstance(k, ast.Constant)}
    rep.count(len(QASM2_FUNCS) * 2 + len(lits))
    for fn in sorted(QASM2_FUNCS):
        rep.check(
            fn in lits.values(), F, f'grammar:{fn}', PAR, 0,
            f'`{fn}(...)` is accepted by the grammar',
            f'the OpenQASM 2 function `{fn}` is not accepted by the '
            f'grammar (terminals: {sorted(lits.values())})',
            key='grammar',
        )
        rep.check(
            fn in keys, F, f'evaluator:{fn}', VIS, el.lineno,
            f'`{fn}` can be evaluated',
            f'`{fn}(...)` parses but eval_locals has no `{fn}`: evaluating '
            'the expression raises NameError', key='evaluator',
        )
    for t, lit in sorted(lits.items()):
        rep.check(
            lit in QASM2_FUNCS, F, f'terminal:{t}', PAR, 0,
            f'terminal {t} spells the OpenQASM 2 function `{lit}`',
            f'terminal {t} is spelled "{lit}", which is not an OpenQASM 2 '
            'function name (programs using the standard spelling fail to '
            'parse)', key='terminal',
        )
    rep.check(
        'pi' in keys and terms.get('PI') == 'pi', F, 'pi', VIS, el.lineno,
        '`pi` is a grammar constant and evaluable',
        '`pi` is not both parsed and evaluable', key='pi',
    )


def _expression_rules(g: str) -> dict[str, str]:
    """Grammar rules reachable from `exp` (name -> right-hand side)."""
    rules = dict(re.findall(r'^([a-z]\w*):(.*)$', g, re.M))
    if 'exp' not in rules:
        raise AnalysisError('grammar rule `exp` not found')
    seen: set[str] = set()
    todo = ['exp']
    while todo:
        r = todo.pop()
        if r in seen or r not in rules:
            continue
        seen.add(r)
        todo += re.findall(r'\b[a-z]\w*\b', re.sub(r'"[^"]*"|/[^/]*/', ' ',
                                                   rules[r]))
    return {r: rules[r] for r in seen}


def reg_rules(ctx: Ctx, rep: Report) -> None:
    Rl = 'REG-rules'
    g = grammar_text(ctx)
    rules = set(re.findall(r'^([a-z]\w*):', g, re.M))
    vis = ctx.cls(f'{VIS}:OPENQASMVisitor')
    missing_rules = SEMANTIC_RULES - rules
    if missing_rules:
        raise AnalysisError(f'grammar rules vanished: {sorted(missing_rules)}')
    for r in sorted(SEMANTIC_RULES):
        rep.count()
        rep.check(
            r in vis.methods, Rl, f'visitor:{r}', VIS, vis.lineno,
            f'grammar rule `{r}` has a visitor method',
            f'grammar rule `{r}` carries semantics but OPENQASMVisitor has '
            'no method of that name: such statements are silently skipped',
            key='visitor',
        )
    # operator rules have an evaluator branch with the right Python operator
    ev = ctx.fn(f'{VIS}:eval_exp_recurse')
    t = norm(ev.node)
    for rule, frag in (('usub', "code += '-'"), ('pow', '**'),
                       ('unaryexp', 'unaryop')):
        rep.count()
        rep.check(
            rule in rules and f"op.data == '{rule}'" in t and frag in t, Rl,
            f'evaluator:{rule}', VIS, ev.lineno,
            f'expression rule `{rule}` is translated for evaluation',
            f'expression rule `{rule}` is not translated by '
            'eval_exp_recurse (QASM `^` must become `**`, unary minus `-`)',
            key='operator',
        )
    # Parentheses.  The evaluator turns the parse tree back into Python text
    # and eval()s it; lark drops anonymous literal tokens, so every
    # expression rule whose right-hand side brackets a sub-expression with
    # "(" ... ")" needs its own branch that writes the brackets back -
    # otherwise `2*(3+1)` is evaluated as `2*3+1`.
    exp_rules = _expression_rules(g)
    bracketed = sorted(
        r for r in exp_rules
        if re.search(r'"\("\s*\w+\s*"\)"', exp_rules[r]))
    rep.floor(Rl, len(bracketed), 2, 'bracketing expression rules')
    for r in bracketed:
        rep.count()
        ok = False
        for node in ast.walk(ev.node):
            if isinstance(node, ast.If) and norm(
                    node.test) == f"op.data == '{r}'":
                txt = ''.join(
                    c.value for s in node.body for j in ast.walk(s)
                    if isinstance(j, ast.JoinedStr) for c in j.values
                    if isinstance(c, ast.Constant) and isinstance(
                        c.value, str))
                txt += ''.join(
                    c.value for s in node.body for c in ast.walk(s)
                    if isinstance(c, ast.Constant) and isinstance(
                        c.value, str))
                ok = '(' in txt and ')' in txt
        rep.check(
            ok, Rl, f'evaluator:{r}:brackets', VIS, ev.lineno,
            f'`{r}` writes its parentheses back',
            f'grammar rule `{r}: {exp_rules[r].strip()}` brackets a '
            'sub-expression, but eval_exp_recurse has no branch for it that '
            'writes the parentheses back: the parser drops the literal '
            'tokens and the flattened text loses the grouping '
            '(`2*(3+1)` is evaluated as 7)', key='brackets',
        )
    # Numbers spliced into an expression tree are evaluated as text too: a
    # formal parameter replaced by its (possibly negative) argument has to
    # be written as a parenthesised atom, or `a^2` with a = -0.5 becomes
    # `-0.5**2`.
    mod = ctx.index.module(VIS)
    splices = [c for c in ast.walk(mod.tree) if isinstance(c, ast.Call)
               and norm(c.func) == 'lark.Token' and len(c.args) == 2
               and isinstance(c.args[0], ast.Constant)
               and c.args[0].value in ('REAL', 'NNINTEGER')]
    rep.floor(Rl, len(splices), 1, 'numeric tokens created by the reader')
    for c in splices:
        rep.count()
        v = c.args[1]
        lits = [x.value for x in ast.walk(v) if isinstance(x, ast.Constant)
                and isinstance(x.value, str)]
        ok = isinstance(v, ast.JoinedStr) and bool(lits) and lits[0].startswith(
            '(') and lits[-1].endswith(')')
        rep.check(
            ok, Rl, 'evaluator:spliced-number', VIS, c.lineno,
            'a substituted number is written as a parenthesised atom',
            f'`{norm(c)}` splices a run-time number into the expression '
            'tree as bare text: a negative argument then binds weaker than '
            '`^` (`g(-0.5)` with body `rz(a^2)` gives rz(-0.25))',
            key='spliced-number',
        )
    # the U and CX built-ins resolve through the table
    for k in ('U', 'CX'):
        rep.count()
        rep.check(
            f"self.gate_defs['{k}']" in norm(vis.node), Rl, f'builtin:{k}',
            VIS, vis.lineno, f'built-in `{k}` is resolved via the table',
            f'built-in `{k}` is not resolved', key='builtin',
        )


def flow(ctx: Ctx, rep: Report) -> None:
    F = 'FLOW'
    enc = ctx.fn('bqskit/ir/lang/qasm2/qasm2.py:OPENQASM2Language.encode')
    g = ctx.cfg(enc)
    rep.seen(enc.qualname)
    loops = [n for n in g.nodes if n.kind == 'for']
    defs = [n for n in loops if norm(n.stmt.iter) == 'circuit.gate_set']
    ops = [n for n in loops if norm(n.stmt.iter) == 'circuit']
    rep.count(3)
    rep.check(
        len(defs) == 1 and len(ops) == 1 and ops[0].id in g.reach(
            [defs[0].id]) and defs[0].id not in g.reach(
            [ops[0].id], include_starts=False), F,
        'OPENQASM2Language.encode', enc.path, enc.lineno,
        'gate definitions of every gate are written before the operations, '
        'operations in iteration order',
        'encode does not write definitions for circuit.gate_set before the '
        'operations of `for op in circuit`', key='encode-order',
    )
    t = norm(enc.node)
    rep.check(
        'qreg q[{circuit.num_qudits}]' in t and 'OPENQASM 2.0' in t, F,
        'OPENQASM2Language.encode:header', enc.path, enc.lineno,
        'header and one register of the circuit width',
        'header / register declaration changed', key='header',
    )
    dec = ctx.fn('bqskit/ir/lang/qasm2/qasm2.py:OPENQASM2Language.decode')
    t = norm(dec.node)
    rep.seen(dec.qualname)
    rep.check(
        'parse(source)' in t and 'visit_topdown(tree)' in t
        and 'get_circuit()' in t, F, 'OPENQASM2Language.decode', dec.path,
        dec.lineno, 'parse -> top-down visit -> circuit',
        'decode no longer parses, visits top-down and returns the circuit',
        key='decode',
    )
    for lib in ('qiskit', 'cirq', 'pytket'):
        m = ctx.index.module(f'bqskit/ext/{lib}/translate.py')
        for f in m.functions.values():
            if f.name.startswith('_'):
                continue
            rep.seen(f.qualname)
            rep.count()
            txt = norm(f.node)
            to_b = f.name.endswith('_to_bqskit')
            want = 'OPENQASM2Language().decode(' if to_b else (
                'OPENQASM2Language().encode(')
            rets = [r for r in ast.walk(f.node) if isinstance(r, ast.Return)]
            uses = want in txt and bool(rets)
            rep.check(
                uses, F, f'{lib}.{f.name}', f.path, f.lineno,
                'goes through the OpenQASM 2 codec',
                f'{f.name} does not go through {want}...): it no longer '
                'inherits the codec\'s guarantee', key='translator',
            )
    rep.floor(F, 6, 6, 'translator functions')
