"""C08 — Partitioning regroups operations without changing the program.

Decided statically (DESIGN 4/C08):
  SIB        every partitioner discriminates barrier / measurement / reset
             before grouping (five known findings)
  PATH       QuickPartitioner.run puts every operation in exactly one bin,
             emits only original points, and cannot lose a bin silently
  PARAMLIVE  an argument that some caller passes is honoured by the callee
             (Circuit.surround ignores bounding_region: known finding)
  CLOSURE    QuickPartitioner's bin blocking is transitive
  BLOCKALL   every ordering event of the sweep (operation added to a bin,
             barrier queued) is followed by a blocking sweep over all
             active bins
  PARAMFLOW  re-wrapping an existing block carries the operation's params
Block width bounds, dependency blocking and order preservation are
algorithmic and not decided.
"""
from __future__ import annotations

import ast

from ..engine import Ctx
from ..report import Report
from ..rules import q
from ..rules import valnum
from ..rules.paramflow import rule_paramflow
from ..source import AnalysisError
from ..source import ClassInfo
from ..source import FunctionInfo
from ..source import norm

PART = 'bqskit/passes/partitioning/'
TRIO = {'BarrierPlaceholder', 'MeasurementPlaceholder', 'Reset'}


def run(ctx: Ctx, rep: Report) -> None:
    rep.explanation = (
        'Static clauses of C08: every BasePass subclass under '
        'bqskit/passes/partitioning is searched for an isinstance test '
        'covering barrier, measurement and reset (SIB); '
        'QuickPartitioner.run is checked on its CFG for putting each '
        'operation in exactly one bin, emitting get_slice(bin.op_list) and '
        'raising on leftover bins (PATH); parameters that a caller in the '
        'repository passes must be read by the callee beyond their own '
        'validation (PARAMLIVE). Algorithmic correctness of the '
        'partitioners is not decided.'
    )
    rep.assumptions += [
        'barrier-like operations = BarrierPlaceholder, '
        'MeasurementPlaceholder, Reset (bqskit/ir/gates)',
    ]
    sib(ctx, rep)
    path(ctx, rep)
    paramlive(ctx, rep)
    closure(ctx, rep)
    blockall(ctx, rep)
    drain(ctx, rep)
    rule_paramflow(
        ctx, rep, 'bqskit/passes/util/extend.py:ExtendBlockSizePass.run', {})
    rule_paramflow(
        ctx, rep,
        PART + 'quick.py:QuickPartitioner.run.process_pending_bins', {
            'QuickPartitioner.run.process_pending_bins:prev_circ':
            'the popped block was appended by this very function with '
            'append_circuit(subc, loc, as_circuit_gate=True): its operation '
            'parameters are the inner circuit\'s parameters by construction',
        }, floor=2)


def drain(ctx: Ctx, rep: Report) -> None:
    """DRAIN: when the scanning iterator reaches a new cycle it activates
    *every* pending qudit whose region starts at that cycle.  Several qudits
    of one candidate group can start at the same later cycle, so taking
    entries off the pending list has to happen in a loop that goes on while
    the head of the list is due; a single conditional activates one qudit
    and the others are never scanned (their gates leaving the group are not
    seen and the block grows past its width)."""
    mod = ctx.index.module(PART + 'scan.py')
    steps = [f for f in ast.walk(mod.tree) if isinstance(
        f, ast.FunctionDef) and any(
        isinstance(c, ast.Call) and norm(c.func) == 'self.inactive.pop'
        for c in ast.walk(f))]
    rep.floor('DRAIN', len(steps), 1, 'functions that take entries off '
              'the pending-qudit list in scan.py')
    for f in steps:
        rep.count()
        loops = [w for w in ast.walk(f) if isinstance(w, (ast.While, ast.For))]
        pops = [c for c in ast.walk(f) if isinstance(c, ast.Call)
                and norm(c.func) == 'self.inactive.pop']
        in_loop = all(any(p in list(ast.walk(w)) for w in loops)
                      for p in pops)
        acts = [c for c in ast.walk(f) if isinstance(c, ast.Call)
                and norm(c.func) == 'self.active.append']
        act_in_loop = bool(acts) and all(
            any(a in list(ast.walk(w)) for w in loops) for a in acts)
        rep.check(
            in_loop and act_in_loop, 'DRAIN',
            f'ScanPartitioner.FastRegionIterator.{f.name}', mod.path,
            f.lineno,
            'pending qudits that are due are activated in a loop',
            f'`{f.name}` takes an entry off `self.inactive` outside any '
            'loop: only one pending qudit is activated per cycle, although '
            'several can become due at the same cycle', key='loop',
        )


def closure(ctx: Ctx, rep: Report) -> None:
    """CLOSURE: blocking is transitive.  Wherever QuickPartitioner makes a
    bin A wait for a bin B (`A.blocked_qudits.update(B.qudits)`), A must
    also wait for everything B waits for
    (`A.blocked_qudits.update(B.blocked_qudits)`), on the same paths;
    otherwise A can grow onto a qudit across which B is still ordered
    before it, and two blocks end up in the wrong order."""
    f = ctx.fn(PART + 'quick.py:QuickPartitioner.run')
    g = ctx.cfg(f)
    n = 0
    for node in g.nodes:
        for c in node.calls():
            fn = norm(c.func)
            if not fn.endswith('.blocked_qudits.update') or len(c.args) != 1:
                continue
            a = fn[:-len('.blocked_qudits.update')]
            arg = valnum.subst(ctx, f, node, c.args[0])
            if not (isinstance(arg, ast.Attribute) and arg.attr == 'qudits'):
                continue
            b = norm(arg.value)
            n += 1
            rep.count()

            def inherits(m, a=a, b=b) -> bool:
                for k in m.calls():
                    if norm(k.func) == f'{a}.blocked_qudits.update' and len(
                            k.args) == 1 and norm(valnum.subst(
                                ctx, f, m, k.args[0])) == (
                                    f'{b}.blocked_qudits'):
                        return True
                return False
            succ = [x for x, _l in g.succ[node.id]]
            back = {x.id for x in g.nodes if x.kind in ('for', 'while')}
            ok = not (g.reach(succ, blocked=g.ids(inherits)) & (
                back | {g.exit}))
            rep.check(
                ok, 'CLOSURE', f'QuickPartitioner.run:{a}<-{b}', f.path,
                node.lineno,
                f'{a} also inherits {b}.blocked_qudits',
                f'`{a}` is made to wait for `{b}.qudits` without also '
                f'inheriting `{b}.blocked_qudits`: blocking is not '
                'transitive any more, a bin can grow across a qudit on '
                'which an earlier, still open bin is ordered before it',
                key='transitive',
            )
    rep.floor('CLOSURE', n, 1, 'bin-blocking sites in QuickPartitioner.run')


def blockall(ctx: Ctx, rep: Report) -> None:
    """BLOCKALL: every step of QuickPartitioner's sweep that orders a new
    piece after existing bins -- an operation added to a bin
    (`X.add_op(...)`) or a barrier queued as a `Bin` subclass
    (`pending_bins.append(BarrierBin(...))`) -- is followed, before the
    next operation is looked at, by a loop over *all* `active_bins` that
    updates their `blocked_qudits`.  Blocking only the bins that touch the
    new piece directly leaves a bin that precedes it through a chain of
    other bins free to grow onto the new piece's qudits afterwards: a cycle
    of bins none of which can be emitted."""
    f = ctx.fn(PART + 'quick.py:QuickPartitioner.run')
    g = ctx.cfg(f)
    bins = {
        c.name for c in ctx.index.classes.values()
        if c.path == PART + 'quick.py' and (
            c.name == 'Bin' or ctx.index.is_subclass(c, 'Bin'))
    }

    def is_sweep(m) -> bool:
        if m.kind != 'for' or 'active_bins' not in {
                norm(x) for x in ast.walk(m.stmt.iter)}:
            return False
        tg = {x.id for x in ast.walk(m.stmt.target)
              if isinstance(x, ast.Name)}
        for c in ast.walk(m.stmt):
            if isinstance(c, ast.Call):
                fn = norm(c.func)
                if fn.endswith('.blocked_qudits.update') and fn.split(
                        '.')[0] in tg:
                    return True
        return False
    sweeps = g.ids(is_sweep)
    back = {x.id for x in g.nodes if x.kind in ('for', 'while')} - sweeps
    n = 0
    for node in g.nodes:
        if node.kind != 'stmt':
            continue
        what = recv = None
        for c in node.calls():
            fn = norm(c.func)
            if fn.endswith('.add_op'):
                what = f'{fn}(...)'
                recv = fn[:-len('.add_op')]
            elif fn == 'pending_bins.append' and len(c.args) == 1:
                a = valnum.subst(ctx, f, node, c.args[0])
                if isinstance(a, ast.Call) and norm(a.func) in bins:
                    what = f'pending_bins.append({norm(a.func)}(...))'
        if what is None:
            continue
        # only events inside the main sweep over the circuit
        if node.loop_depth == 0:
            continue
        n += 1
        rep.count()
        succ = [x for x, _l in g.succ[node.id]]
        # the next operation is looked at when control returns to a loop
        # header that encloses the event
        outer = {
            h for h in back if node.id in g.in_loop_body(g.nodes[h])
        }
        ok = not (g.reach(succ, blocked=sweeps) & (outer | {g.exit}))
        if not ok and recv is None and outer:
            # a queued barrier changes no bin the sweep reads: a sweep
            # earlier in the same iteration serves as well
            inner = max(outer, key=lambda h: g.nodes[h].loop_depth)
            first = [x for x, lab in g.succ[inner] if lab == 'iter']
            ok = node.id not in g.reach(first, blocked=sweeps | {inner})
        rep.check(
            ok, 'BLOCKALL', f'QuickPartitioner.run:{what}', f.path,
            node.lineno,
            'followed by a blocked_qudits sweep over all active_bins',
            f'`{what}` orders a new piece after existing bins, but control '
            'can return to the next operation without a loop over '
            '`active_bins` that updates `blocked_qudits`: a bin that '
            'precedes the new piece only through other bins may still '
            'grow onto its qudits, and the bins then wait for each other '
            '("Unable to process all pending bins")',
            key='sweep',
        )
    rep.floor('BLOCKALL', n, 2, 'ordering events in QuickPartitioner.run')


def partitioners(ctx: Ctx) -> list[ClassInfo]:
    out = []
    for c in ctx.index.classes.values():
        if c.path.startswith(PART) and ctx.index.is_subclass(c, 'BasePass'):
            out.append(c)
    return sorted(out, key=lambda c: c.name)


def _trio_tests(ctx: Ctx, c: ClassInfo) -> list[tuple[int, set[str]]]:
    """isinstance(x, (...)) tests in the class's methods and in module-level
    helpers / other classes of the same file."""
    out = []
    scope: list[ast.AST] = [c.node]
    for f in c.module.functions.values():
        scope.append(f.node)
    for k in c.module.classes.values():
        if k is not c and not ctx.index.is_subclass(k, 'BasePass'):
            scope.append(k.node)
    for root in scope:
        for n in ast.walk(root):
            if isinstance(n, ast.Call) and norm(n.func) == 'isinstance' and (
                len(n.args) == 2
            ):
                t = n.args[1]
                if isinstance(t, ast.Name):
                    # a module-level tuple constant naming the classes
                    for st in c.module.tree.body:
                        if isinstance(st, ast.Assign) and any(
                                isinstance(x, ast.Name) and x.id == t.id
                                for x in st.targets) and isinstance(
                                    st.value, ast.Tuple):
                            t = st.value
                names = {norm(e) for e in (
                    t.elts if isinstance(t, ast.Tuple) else [t])}
                if names & TRIO:
                    out.append((n.lineno, names))
    return out


def sib(ctx: Ctx, rep: Report) -> None:
    S = 'SIB'
    ps = partitioners(ctx)
    rep.floor(S, len(ps), 7, 'partitioner classes')
    for c in ps:
        rep.seen(c.qualname)
        rep.count()
        tests = _trio_tests(ctx, c)
        if not tests:
            rep.fail(
                S, c.name, c.path, c.lineno,
                'never tests for BarrierPlaceholder / MeasurementPlaceholder '
                '/ Reset: barrier-like operations are grouped into blocks '
                'like ordinary gates (absorbed and possibly reordered)',
                key='no-barrier-test',
            )
            continue
        full = [t for t in tests if TRIO <= t[1]]
        rep.check(
            len(full) == len(tests), S, c.name, c.path, tests[0][0],
            f'{len(tests)} test(s) each cover barrier, measurement and reset',
            'a barrier test covers only ' + '; '.join(
                f'line {ln}: {sorted(ns & TRIO)}' for ln, ns in tests
                if not TRIO <= ns) + ' - the others are treated as '
            'ordinary gates there', key='partial-trio',
        )


def path(ctx: Ctx, rep: Report) -> None:
    P = 'PATH'
    f = ctx.fn(PART + 'quick.py:QuickPartitioner.run')
    g = ctx.cfg(f)
    rep.seen(f.qualname)
    lp = [n for n in g.nodes if n.kind == 'for' and norm(
        n.stmt.iter) == 'circuit.operations_with_cycles()']
    if len(lp) != 1:
        raise AnalysisError('QuickPartitioner.run: main loop not found')
    lp = lp[0]
    body = g.in_loop_body(lp)
    st = [b for b, l in g.succ[lp.id] if l == 'iter'][0]
    bar = [n for n in g.nodes if n.id in body and any(
        norm(c.func) == 'pending_bins.append' and c.args and norm(
            c.args[0]).startswith('BarrierBin(point, ')
        for c in n.calls())]
    add = [n for n in g.nodes if n.id in body and q.has_call(
        'selected_bin.add_op', ['point', 'location'])(n)]
    rep.count(6)
    ok = len(bar) == 1 and len(add) == 1
    exactly = ok and g.must(
        lambda n: n is bar[0] or n is add[0], start=st, ends={lp.id},
        labels_off=['assert-fail']) and add[0].id not in g.reach(
        [bar[0].id], blocked=[lp.id], include_starts=False) and (
        bar[0].id not in g.reach([add[0].id], blocked=[lp.id],
                                 include_starts=False))
    rep.check(
        exactly, P, 'QuickPartitioner.run:one-bin', f.path, lp.lineno,
        'every operation goes into exactly one bin (a BarrierBin of its '
        'own, or the selected bin) on every path of the loop body',
        'some path through the main loop puts an operation into no bin or '
        'into two bins', key='one-bin',
    )
    if ok:
        t = [x for x in g.nodes if x.id in body and x.kind == 'test'
             and 'isinstance(op.gate' in norm(x.stmt.test)]
        rep.check(
            len(t) == 1 and g.edge_dominates(t[0].id, 'true', bar[0].id)
            and g.edge_dominates(t[0].id, 'false', add[0].id), P,
            'QuickPartitioner.run:barrier-branch', f.path, lp.lineno,
            'barrier-like operations get their own BarrierBin, all others '
            'join a gate bin',
            'the BarrierBin branch is not selected exactly by the '
            'barrier-like isinstance test', key='barrier-branch',
        )
        pt = [
            x for x in g.nodes if x.id in body and x.kind == 'stmt'
            and isinstance(x.stmt, ast.Assign)
            and norm(x.stmt.targets[0]) == 'point'
            and norm(valnum.subst(ctx, f, x, x.stmt.value)) == (
                'CircuitPoint(cycle, op.location[0])')
        ]
        rep.check(
            len(pt) == 1, P, 'QuickPartitioner.run:point', f.path,
            lp.lineno, 'the binned point is the operation\'s own position',
            'the binned point is not CircuitPoint(cycle, op.location[0])',
            key='point',
        )
    # after the loop
    after = g.reach([b for b, l in g.succ[lp.id] if l == 'done'])
    ppb = [n for n in g.nodes if n.id in after and n.id not in body
           and q.has_call('process_pending_bins', [])(n)]
    chk = [t for t in g.nodes if t.kind == 'test' and norm(
        t.stmt.test) == 'len(pending_bins) != 0']
    rs = [n for n in g.nodes if isinstance(n.stmt, ast.Raise) and chk
          and g.edge_dominates(chk[0].id, 'true', n.id)]
    bec = [n for n in g.nodes if q.has_call(
        'circuit.become', ['partitioned_circuit', 'False'])(n)]
    rep.check(
        len(ppb) >= 1 and len(chk) == 1 and bool(rs) and len(bec) == 1
        and chk[0].id in g.reach([ppb[-1].id])
        and bec[0].id in g.reach([chk[0].id]), P,
        'QuickPartitioner.run:flush', f.path, f.lineno,
        'after the loop all bins are closed and processed; leftovers raise; '
        'the partitioned circuit replaces the input',
        'leftover bins are not detected after the final '
        'process_pending_bins(), or the result is not installed: '
        'operations can be lost silently', key='flush',
    )
    close = [n for n in g.nodes if n.kind == 'for' and norm(
        n.stmt.iter) == 'active_bins' and any(
        q.has_call('close_bin_qudits')(m) for m in g.nodes
        if m.id in g.in_loop_body(n)) and n.id not in body]
    rep.check(
        len(close) == 1, P, 'QuickPartitioner.run:close-all', f.path,
        f.lineno, 'every still-active bin is closed at the end',
        'bins still active after the last operation are not closed',
        key='close-all',
    )
    # emission: nested helper process_pending_bins
    ppf = [n for n in ast.walk(f.node) if isinstance(
        n, ast.FunctionDef) and n.name == 'process_pending_bins']
    if not ppf:
        raise AnalysisError('process_pending_bins helper not found')
    # structural: the first argument of partitioned_circuit.append_circuit
    # is a name defined as circuit.get_slice(bin.op_list); the third is
    # `not isinstance(bin, BarrierBin)`, possibly through a temporary
    single: dict[str, list[ast.expr]] = {}
    for s in ast.walk(ppf[0]):
        if isinstance(s, ast.Assign) and len(s.targets) == 1 and isinstance(
                s.targets[0], ast.Name):
            single.setdefault(s.targets[0].id, []).append(s.value)

    def _res(e: ast.expr) -> str:
        if isinstance(e, ast.Name) and len(single.get(e.id, [])) == 1:
            return norm(single[e.id][0])
        return norm(e)
    emits = [
        c for c in ast.walk(ppf[0]) if isinstance(c, ast.Call)
        and norm(c.func) == 'partitioned_circuit.append_circuit'
        and len(c.args) >= 4
    ]
    emit_ok = len(emits) == 1 and isinstance(
        emits[0].args[0], ast.Name) and any(
            norm(v) == 'circuit.get_slice(bin.op_list)'
            for v in single.get(emits[0].args[0].id, [])
    ) and _res(emits[0].args[2]) == 'not isinstance(bin, BarrierBin)' and (
        norm(emits[0].args[3]) == 'True')
    rep.check(
        emit_ok, P,
        'QuickPartitioner.run:emit', f.path, ppf[0].lineno,
        'an emitted block is exactly the slice of the bin\'s original '
        'points; barrier bins are emitted unfolded',
        'the emitted block is not circuit.get_slice(bin.op_list) appended '
        'as a block (barrier bins unfolded)', key='emit',
    )
    b = ctx.fn(PART + 'quick.py:Bin.add_op')
    gb = ctx.cfg(b)
    rep.seen(b.qualname)
    rep.count()
    rep.check(
        gb.must(q.has_call('self.op_list.append', ['point'])), P,
        'Bin.add_op', b.path, b.lineno,
        'adding an operation always records its point',
        'Bin.add_op does not record the point on every path', key='add-op',
    )
    bb = ctx.fn(PART + 'quick.py:BarrierBin.__init__')
    gbb = ctx.cfg(bb)
    rep.seen(bb.qualname)
    rep.count()
    rep.check(
        gbb.must(q.has_call('self.add_op', ['point', 'location'])), P,
        'BarrierBin.__init__', bb.path, bb.lineno,
        'a barrier bin holds its barrier',
        'a BarrierBin does not record its own operation', key='barrier-bin',
    )


def _reads(f: FunctionInfo, param: str) -> list[ast.Name]:
    return [n for n in ast.walk(f.node) if isinstance(n, ast.Name)
            and n.id == param and isinstance(n.ctx, ast.Load)]


def _only_validation(f: FunctionInfo, param: str) -> bool:
    """Every read of the parameter is its own normalisation / validation:
    `p = T(p)`, `if p is (not) None`, or inside a test whose body only
    raises or warns."""
    parents: dict[int, ast.AST] = {}
    for n in ast.walk(f.node):
        for c in ast.iter_child_nodes(n):
            parents[id(c)] = n
    for r in _reads(f, param):
        cur: ast.AST = r
        ok = False
        while id(cur) in parents:
            par = parents[id(cur)]
            if isinstance(par, ast.Assign) and len(par.targets) == 1 and (
                norm(par.targets[0]) == param
            ):
                ok = True   # p = T(p)
                break
            if isinstance(par, ast.If) and cur is par.test:
                body_only = all(
                    isinstance(s, (ast.Raise, ast.Pass)) or (
                        isinstance(s, ast.Expr) and isinstance(
                            s.value, ast.Call) and norm(
                            s.value.func).startswith(('warnings.', '_logger'))
                    ) or (
                        isinstance(s, ast.Assign) and norm(
                            s.targets[0]) == param)
                    for s in par.body + par.orelse)
                ok = body_only
                break
            if isinstance(par, (ast.FunctionDef, ast.AsyncFunctionDef)):
                break
            cur = par
        if not ok:
            return False
    return True


def paramlive(ctx: Ctx, rep: Report) -> None:
    L = 'PARAMLIVE'
    circ = ctx.cls('bqskit/ir/circuit.py:Circuit')
    # callers in the partitioning package that pass optional arguments to
    # Circuit region methods
    n = 0
    targets = {}
    for fn in ctx.index.all_functions():
        if not fn.path.startswith('bqskit/passes/'):
            continue
        for c in ast.walk(fn.node):
            if isinstance(c, ast.Call) and isinstance(
                c.func, ast.Attribute,
            ) and norm(c.func.value) == 'circuit' and c.func.attr in (
                circ.methods
            ):
                callee = circ.methods[c.func.attr]
                ps = [p for p in callee.params if p != 'self']
                passed = set(ps[:len(c.args)]) | {k.arg for k in c.keywords
                                                  if k.arg}
                for p in passed:
                    if callee.param_default(p) is not None or any(
                        a.arg == p for a in callee.node.args.kwonlyargs
                    ):
                        targets.setdefault((callee.name, p), []).append(
                            (fn, c.lineno))
    for (meth, p), sites in sorted(targets.items()):
        callee = circ.methods[meth]
        doc = callee.docstring
        # deprecated parameters are exempt (the docstring says so)
        para = ''
        for chunk in doc.split('\n\n'):
            if chunk.strip().startswith(p + ' ('):
                para = chunk
        if 'deprecated' in para.lower():
            continue
        n += 1
        rep.seen(callee.qualname)
        rep.count()
        dead = _only_validation(callee, p) and bool(_reads(callee, p))
        fnames = sorted({f'{f.cls.name + "." if f.cls else ""}{f.name}'
                         for f, _ in sites})
        rep.check(
            not dead, L, f'Circuit.{meth}({p})', callee.path, callee.lineno,
            f'`{p}` (passed by {fnames}) influences the result',
            f'`{p}` is only validated / normalised and never used, yet '
            f'{fnames} pass(es) it and rely on it', key='ignored',
        )
    rep.floor(L, n, 3, 'optional arguments passed by passes to Circuit')
