"""Clauses about Circuit's index conventions (parts of C04 / C05), written
after the defects F40-F44 (DESIGN 8.2).

OOR       `Circuit.insert(cycle, op)` treats a cycle past the end as
          "append as early as possible".  A caller that relies on the
          requested cycle being a real one - it inserts a sequence in reverse
          at one index, or reports the index back as the place of the new
          operation - must have dispatched the out-of-range case first: the
          construct is guarded by a test of that index against
          `self.num_cycles`.
NORMPOINT A negative cycle index names a different cycle after a pop.  A
          method that pops at `point` and then re-inserts at `point[0]`, or
          orders / shifts the raw cycle numbers of several points, first
          normalises them with `self.normalize_point`.
IMUL      A repeat count realised as `range(n - 1)` further copies needs the
          `n <= 0` case handled apart (`c *= 0` must empty the circuit as
          `c * 0` does).
OPVALUE   Operations are shared by reference between a circuit, its callers
          and other circuits: nobody but `Operation` itself stores to an
          operation's `_location`.
"""
from __future__ import annotations

import ast

from ..engine import Ctx
from ..report import Report
from ..rules import valnum
from ..source import AnalysisError
from ..source import norm

CIRC = 'bqskit/ir/circuit.py:Circuit.'


def _guards(ctx: Ctx, f, node) -> str:
    return ' ; '.join(valnum.guards_text(ctx.cfg(f), node))


def oor(ctx: Ctx, rep: Report) -> None:
    R = 'OOR'
    n = 0
    # (1) reversed insertion at one index
    for f in ctx.index.cls('bqskit/ir/circuit.py:Circuit').methods.values():
        g = ctx.cfg(f)
        for node in g.nodes:
            if node.kind != 'for':
                continue
            it = node.stmt.iter
            if not (isinstance(it, ast.Call) and norm(it.func) == 'reversed'):
                continue
            ins = [
                c for c in ast.walk(node.stmt) if isinstance(c, ast.Call)
                and norm(c.func) == 'self.insert' and c.args
                and isinstance(c.args[0], ast.Name)
            ]
            if not ins:
                continue
            idx = ins[0].args[0].id
            tg = {x.id for x in ast.walk(node.stmt.target)
                  if isinstance(x, ast.Name)}
            if idx in tg:
                continue
            n += 1
            rep.count()
            rep.seen(f.qualname)
            gt = _guards(ctx, f, node)
            rep.check(
                'num_cycles' in gt and idx in gt, R,
                f'Circuit.{f.name}:reversed-insert', f.path, node.lineno,
                f'the reversed insertion at `{idx}` is reached only after '
                f'`{idx}` was tested against self.num_cycles',
                f'Circuit.{f.name} inserts a sequence in reverse at the one '
                f'index `{idx}` without having tested it against '
                'self.num_cycles: Circuit.insert appends as early as '
                'possible when the cycle is past the end, so the later '
                'operations of the sequence can land before the earlier ones '
                '(unfold / replace_with_circuit of a block in the last cycle '
                'reorder it)',
                key='reversed-insert',
            )
            # the same index is used for every insertion: a negative one
            # is relative to a circuit that grows with each of them
            neg = any(
                isinstance(k, ast.Compare) and isinstance(k.left, ast.Name)
                and k.left.id == idx and any(isinstance(
                    o, (ast.Lt, ast.LtE)) for o in k.ops)
                and any(
                    (isinstance(c, ast.Constant) and c.value == 0)
                    or isinstance(c, ast.UnaryOp) for c in k.comparators)
                for k in ast.walk(f.node)
            )
            n += 1
            rep.count()
            rep.check(
                neg, R, f'Circuit.{f.name}:negative-index', f.path,
                node.lineno,
                f'a negative `{idx}` is normalised before the repeated '
                'insertion',
                f'Circuit.{f.name} inserts a sequence at the one index '
                f'`{idx}` and never tests it for being negative: '
                'Circuit.insert interprets a negative index relative to the '
                'current number of cycles, which grows with every insertion, '
                'so the operations of the sequence end up interleaved with '
                'the existing ones in the wrong order',
                key='negative-index',
            )
    # (2) fold reports the requested cycle back
    f = ctx.fn(CIRC + 'fold')
    g = ctx.cfg(f)
    for node in g.nodes:
        calls = [c for c in node.calls() if norm(c.func) == (
            'self.insert_circuit')]
        if node.kind != 'stmt' or not calls:
            continue
        n += 1
        rep.count()
        rep.seen(f.qualname)
        gt = _guards(ctx, f, node)
        idx = norm(calls[0].args[0]) if calls[0].args else '?'
        rep.check(
            'num_cycles' in gt and idx in gt, R, 'Circuit.fold:reported-point',
            f.path, node.lineno,
            f'`{idx}` is reported as the new gate\'s cycle only after it was '
            'tested against self.num_cycles',
            f'Circuit.fold inserts the block at `{idx}` and returns that '
            'cycle as the block\'s position without having tested it against '
            'self.num_cycles: after batch_pop it can be past the end, the '
            'block is then appended in an earlier cycle and the returned '
            'point holds no operation',
            key='reported-point',
        )
    rep.floor(R, n, 2, 'constructs that rely on a requested cycle being real')


def normpoint(ctx: Ctx, rep: Report) -> None:
    R = 'NORMPOINT'
    n = 0
    cls = ctx.index.cls('bqskit/ir/circuit.py:Circuit')
    for f in cls.methods.values():
        params = f.params
        pname = 'point' if 'point' in params else (
            'points' if 'points' in params else None)
        if pname is None:
            continue
        body = f.node
        if pname == 'point':
            pops = [c for c in ast.walk(body) if isinstance(c, ast.Call)
                    and norm(c.func) == 'self.pop' and c.args
                    and norm(c.args[0]) == 'point']
            cyc = {'point[0]', 'point.cycle'}
            for s in ast.walk(body):
                if isinstance(s, ast.Assign) and len(s.targets) == 1:
                    t0 = s.targets[0]
                    if isinstance(t0, ast.Tuple) and t0.elts and isinstance(
                            t0.elts[0], ast.Name) and norm(
                                s.value) == 'point':
                        cyc.add(t0.elts[0].id)  # cycle, qudit = point
                    elif isinstance(t0, ast.Name) and norm(s.value) in (
                            'point[0]', 'point.cycle'):
                        cyc.add(t0.id)
            reuse = [
                c for c in ast.walk(body) if isinstance(c, ast.Call)
                and norm(c.func) in ('self.insert', 'self.insert_circuit')
                and c.args and norm(c.args[0]) in cyc
            ]
            if not (pops and reuse):
                continue
            first = min(c.lineno for c in pops + reuse)
        else:
            # raw cycle numbers of several points are ordered or shifted
            aliases = {'points'} | {
                s.targets[0].id for s in ast.walk(body)
                if isinstance(s, ast.Assign) and len(s.targets) == 1
                and isinstance(s.targets[0], ast.Name)
                and any(isinstance(y, ast.Name) and y.id == 'points'
                        for y in ast.walk(s.value))
            }
            uses = [
                x for x in ast.walk(body) if isinstance(x, ast.Call)
                and norm(x.func) == 'sorted'
                and any(isinstance(y, ast.Name) and y.id in aliases
                        for y in ast.walk(x))
            ]
            reins = [c for c in ast.walk(body) if isinstance(c, ast.Call)
                     and norm(c.func) in ('self.replace', 'self.insert')]
            if not (uses and reins):
                continue
            first = min(x.lineno for x in uses)
        n += 1
        rep.count()
        rep.seen(f.qualname)
        normalised = [
            s for s in ast.walk(body) if isinstance(s, ast.Assign)
            and len(s.targets) == 1 and isinstance(s.targets[0], ast.Name)
            and any(isinstance(c, ast.Call) and norm(c.func) == (
                'self.normalize_point') for c in ast.walk(s.value))
            and any(isinstance(x, ast.Name) and x.id == pname
                    for x in ast.walk(s.value))
            and s.lineno <= first
            # under the same name, or under a new one that the later uses
            # (the sort / the re-insertion) read instead of the raw one
            and (s.targets[0].id == pname or not any(
                isinstance(x, ast.Name) and x.id == pname
                and getattr(x, 'lineno', 0) > s.lineno
                and not isinstance(x.ctx, ast.Store)
                for x in ast.walk(body)))
        ]
        rep.check(
            bool(normalised), R, f'Circuit.{f.name}', f.path, f.lineno,
            f'`{pname}` is normalised before its cycle number is reused',
            f'Circuit.{f.name} reuses the raw cycle number of `{pname}` '
            'after the circuit changed (pop, earlier replacements) without '
            'normalising it first: a negative index then names a different '
            'cycle (wrong position, KeyError or IndexError)',
            key='raw-cycle',
        )
    rep.floor(R, n, 3, 'methods that reuse a point after changing the circuit')


def imul(ctx: Ctx, rep: Report) -> None:
    R = 'IMUL'
    f = ctx.fn(CIRC + '__imul__')
    rep.seen(f.qualname)
    rep.count()
    rng = [
        c for c in ast.walk(f.node) if isinstance(c, ast.Call)
        and norm(c.func) == 'range' and len(c.args) == 1
        and isinstance(c.args[0], ast.BinOp)
        and isinstance(c.args[0].op, ast.Sub)
        and isinstance(c.args[0].left, ast.Name)
    ]
    ok = True
    if rng:
        cnt = rng[0].args[0].left.id
        tests = [t for t in ast.walk(f.node) if isinstance(t, (
            ast.If, ast.IfExp)) and cnt in {
                x.id for x in ast.walk(t.test) if isinstance(x, ast.Name)}]
        ok = bool(tests)
    rep.check(
        ok, R, 'Circuit.__imul__', f.path, f.lineno,
        'the zero repeat count is handled apart from the range(n - 1) copies',
        'Circuit.__imul__ realises the repeat count as range(n - 1) further '
        'copies and never tests n: `c *= 0` leaves c unchanged although '
        '`c * 0` is the empty circuit',
        key='zero',
    )


def batchshift(ctx: Ctx, rep: Report) -> None:
    """BATCHSHIFT: unfolding a block inserts cycles in front of the other
    operations of its own cycle.  A batch editor that unfolds several points
    and visits them in descending order is safe across cycles only; the
    loop that calls `self.unfold` must also read `self.num_cycles` to learn
    by how much the remaining points of the same cycle moved."""
    R = 'BATCHSHIFT'
    f = ctx.fn(CIRC + 'batch_unfold')
    rep.seen(f.qualname)
    loops = [
        lp for lp in ast.walk(f.node) if isinstance(lp, (ast.For, ast.While))
        and any(isinstance(c, ast.Call) and norm(c.func) == 'self.unfold'
                for c in ast.walk(lp))
    ]
    rep.count()
    ok = bool(loops) and all(
        any(isinstance(x, ast.Attribute) and x.attr == 'num_cycles'
            for x in ast.walk(lp)) for lp in loops)
    rep.check(
        ok, R, 'Circuit.batch_unfold', f.path, f.lineno,
        'the unfolding loop measures the growth of the circuit',
        'Circuit.batch_unfold unfolds the points one after the other '
        'without reading self.num_cycles: the other CircuitGates of the '
        'same cycle are pushed right by the unfolded block and the next '
        'point holds no operation (IndexError, circuit left half unfolded)',
        key='same-cycle',
    )


def idlerow(ctx: Ctx, rep: Report) -> None:
    """IDLEROW: invariant 1 of Circuit - no idle cycle.  A method that
    vacates grid slots (`self._circuit[row][q] = None`) tests rows for
    idleness afterwards (`self._is_cycle_idle`), *after* the vacating
    store; `straighten` only looked at the rows it filled."""
    R = 'IDLEROW'
    n = 0
    cls = ctx.index.cls('bqskit/ir/circuit.py:Circuit')
    for f in cls.methods.values():
        stores = [
            s for s in ast.walk(f.node) if isinstance(s, ast.Assign)
            and isinstance(s.value, ast.Constant) and s.value.value is None
            and any(isinstance(t, ast.Subscript) and norm(t).startswith(
                'self._circuit[') for t in s.targets)
        ]
        if not stores:
            continue
        n += 1
        rep.count()
        rep.seen(f.qualname)
        last = max(s.lineno for s in stores)
        idle = [
            k for k in ast.walk(f.node) if isinstance(k, ast.Call)
            and norm(k.func).endswith('_is_cycle_idle') and k.lineno > last
        ]
        rep.check(
            bool(idle), R, f'Circuit.{f.name}', f.path, last,
            'rows are tested for idleness after slots were vacated',
            f'Circuit.{f.name} stores None into grid slots and never tests '
            'a row with _is_cycle_idle afterwards: a row that held only '
            'the removed / moved operations stays in the circuit as an '
            'idle cycle',
            key='vacated',
        )
    rep.floor(R, n, 2, 'methods that vacate grid slots')


_POS_MEMO = '''
class Op:
    def __init__(self, params):
        self._params = list(params)
        self._utry = None

    @property
    def params(self):
        return self._params

    def get_unitary(self):
        if self._utry is None:
            self._utry = self.gate.get_unitary(self.params)
        return self._utry
'''


def _memo_alias(cnode: ast.ClassDef) -> list[tuple[str, str, int]]:
    """(memo field, source field, line) for every `if self.M is None:
    self.M = f(self.F)` where the class hands out `self._F` itself (a
    mutable list) through a property."""
    lists = set()
    for m in cnode.body:
        if isinstance(m, ast.FunctionDef) and m.name == '__init__':
            for s in ast.walk(m):
                if isinstance(s, (ast.Assign, ast.AnnAssign)):
                    tg = s.targets[0] if isinstance(s, ast.Assign) else (
                        s.target)
                    v = s.value
                    if isinstance(tg, ast.Attribute) and norm(
                            tg.value) == 'self' and v is not None and any(
                                isinstance(c, ast.Call) and norm(
                                    c.func) == 'list' for c in ast.walk(v)
                            ) or (isinstance(tg, ast.Attribute) and isinstance(
                                v, (ast.List, ast.ListComp))):
                        lists.add(tg.attr)
    handed = set()
    for m in cnode.body:
        if isinstance(m, ast.FunctionDef) and any(
                norm(d) == 'property' for d in m.decorator_list):
            for r in ast.walk(m):
                if isinstance(r, ast.Return) and isinstance(
                        r.value, ast.Attribute) and norm(
                            r.value.value) == 'self' and (
                                r.value.attr in lists):
                    handed.add(r.value.attr)
                    handed.add(m.name)
    out = []
    for m in cnode.body:
        if not isinstance(m, ast.FunctionDef):
            continue
        for t in ast.walk(m):
            if not isinstance(t, ast.If):
                continue
            tx = norm(t.test)
            for s in ast.walk(t):
                if isinstance(s, ast.Assign) and isinstance(
                        s.targets[0], ast.Attribute) and norm(
                            s.targets[0].value) == 'self':
                    memo = s.targets[0].attr
                    if f'self.{memo} is None' not in tx and (
                            f'self.{memo} is not None' not in tx):
                        continue
                    src = {
                        x.attr for x in ast.walk(s.value)
                        if isinstance(x, ast.Attribute)
                        and norm(x.value) == 'self'
                    } & handed
                    for f_ in sorted(src):
                        out.append((memo, f_, s.lineno))
    return out


def memoalias(ctx: Ctx, rep: Report) -> None:
    """MEMOALIAS: a value memoised on an object may only depend on state
    that cannot change behind the object's back.  `Operation.params` hands
    out the parameter list itself; Circuit.set_param and friends write into
    it in place.  A matrix cached from `self.params` and invalidated only
    by the property setter goes stale on the first in-place write."""
    R = 'MEMOALIAS'
    if len(_memo_alias(ast.parse(_POS_MEMO).body[0])) != 1:
        raise AnalysisError('MEMOALIAS no longer matches its positive '
                            'example')
    n = 0
    for c in ctx.index.classes.values():
        if not c.path.startswith('bqskit/ir/'):
            continue
        n += 1
        for memo, src, line in _memo_alias(c.node):
            rep.count()
            rep.fail(
                R, f'{c.name}.{memo}', c.path, line,
                f'{c.name} memoises `self.{memo}` from `self.{src}`, a list '
                'the class hands out by reference: an in-place write '
                '(Circuit.set_param, freeze_param, op.params[i] = x) does '
                'not invalidate the cached value, which is then returned '
                'for the old parameters',
                key=f'{memo}<-{src}',
            )
    rep.count()
    rep.ok(R, 'bqskit/ir', 'bqskit/ir/operation.py', 1,
           f'{n} classes under bqskit/ir: no memo of aliased mutable state')
    rep.floor(R, n, 100, 'classes under bqskit/ir')


_POS = '''
def f(self, op, loc):
    op._location = loc
'''


def _loc_stores(tree: ast.AST) -> list[ast.AST]:
    out = []
    for n in ast.walk(tree):
        tg = []
        if isinstance(n, ast.Assign):
            tg = n.targets
        elif isinstance(n, (ast.AugAssign, ast.AnnAssign)):
            tg = [n.target]
        for t in tg:
            for x in ast.walk(t):
                if isinstance(x, ast.Attribute) and x.attr == '_location' and (
                        norm(x.value) != 'self'):
                    out.append(n)
    return out


def opvalue(ctx: Ctx, rep: Report) -> None:
    R = 'OPVALUE'
    if len(_loc_stores(ast.parse(_POS))) != 1:
        raise AnalysisError('OPVALUE no longer matches its positive example')
    n = 0
    for f in ctx.index.all_functions():
        if not f.path.startswith('bqskit/'):
            continue
        n += 1
        bad = _loc_stores(f.node)
        if f.name in ('insert_qudit', 'pop_qudit', 'renumber_qudits') or bad:
            rep.count()
            rep.seen(f.qualname)
            rep.check(
                not bad, R,
                (f.cls.name + '.' if f.cls is not None else '') + f.name,
                f.path, bad[0].lineno if bad else f.lineno,
                'stores to no operation\'s _location',
                f'{f.qualname} stores to `{norm(bad[0].targets[0]) if bad and isinstance(bad[0], ast.Assign) else "._location"}`: '
                'the Operation object may be held by the caller, twice by '
                'this circuit or by another circuit, all of which are '
                'rewritten with it (an object appended twice is shifted '
                'twice)', key='store',
            )
    rep.floor(R, n, 1000, 'functions scanned for stores to _location')
