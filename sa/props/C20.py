"""C20 — Coupling-graph and qudit-permutation utilities.

Static analysis decides only the representation invariant here
(DESIGN 4/C20):
  NF      undirected edges are stored normalised; every membership probe is
          normalised, drawn from the set, or tries both orders
  SYM     the adjacency and weight views are written symmetrically
  FIELDS  the three parallel views are derived from the one normalised edge
          set; the copy-constructor carries every attribute
  CTOR    graphs returned by the constructors / subgraph functions are
          built through CouplingGraph(...) (which normalises)
Shortest paths, subgraph enumeration and permutation matrices are not
decided.
"""
from __future__ import annotations

import ast

from ..engine import Ctx
from ..report import Report
from ..rules import edgenf
from ..rules import fields
from ..source import AnalysisError
from ..source import norm
from .C16 import copy_ctor

GRAPH = edgenf.GRAPH


def run(ctx: Ctx, rep: Report) -> None:
    rep.explanation = (
        'Static clauses of C20, all about the representation of '
        'CouplingGraph: normal form of stored edges and of every probe '
        '(NF), symmetric writes of the adjacency and weight views (SYM), '
        'derivation of all views from the one edge set and a field-'
        'complete copy-constructor (FIELDS), construction of returned '
        'graphs through the normalising constructor (CTOR). The '
        'algorithmic content of the property (paths, enumeration, '
        'permutations, Kronecker products) is not decided by static '
        'analysis.'
    )
    rep.assumptions += ['qudits are numbered 0..n-1']
    edgenf.rule_nf(ctx, rep)
    sym(ctx, rep)
    n = copy_ctor(ctx, rep)
    rep.floor('FIELDS', n, 7, 'copy-constructor fields')
    ctor(ctx, rep)
    # connected-subset enumeration grows from every member of the set
    from .graph_search import grow
    grow(ctx, rep)
    # UnitaryBuilder (an anchor of C20 too): the in-place and the evaluating
    # contraction are the same expressions (shared with C06)
    from .C06 import clone_rule
    clone_rule(ctx, rep)
    # loops index a table over the table's own domain
    from ..rules.rangedom import rule_rangedom
    rule_rangedom(ctx, rep, ('bqskit/qis/',), 3)
    perm_sort(ctx, rep)
    # order / tautology rules of the utility layer
    from ..rules.utilrules import rule_utils
    rule_utils(ctx, rep, ('bqskit/qis/', 'bqskit/utils/math.py',
                          'bqskit/ir/location.py', 'bqskit/ir/region.py'))


def perm_sort(ctx: Ctx, rep: Report) -> None:
    """SORTALL: PermutationMatrix.from_qudit_location completes the location
    to a permutation of all qudits and sorts it with swaps, recording every
    swap; the sorting loop has to visit every position of the *completed*
    permutation (a location shorter than the register leaves a tail that
    may still be out of order after len(location) steps)."""
    f = ctx.fn('bqskit/qis/permutation.py:PermutationMatrix.'
               'from_qudit_location')
    rep.seen(f.qualname)
    loops = [lp for lp in ast.walk(f.node) if isinstance(lp, ast.For) and any(
        isinstance(c, ast.Call) and norm(c.func).endswith('.apply_left')
        for c in ast.walk(lp))]
    rep.count()
    ok = len(loops) == 1 and norm(loops[0].iter) in (
        'enumerate(current_perm)', 'range(num_qudits)',
        'range(len(current_perm))')
    rep.check(
        ok, 'SORTALL', 'PermutationMatrix.from_qudit_location', f.path,
        f.lineno, 'the swap-sort visits every position of the completed '
        'permutation',
        'the loop that sorts the completed permutation iterates `'
        + (norm(loops[0].iter) if loops else '?')
        + '`, not every position of `current_perm`: for a partial location '
        'the unlisted tail can stay unsorted and the matrix returned is a '
        'different permutation', key='all-positions',
    )


def sym(ctx: Ctx, rep: Report) -> None:
    S = 'SYM'
    f = ctx.fn(f'{GRAPH}:CouplingGraph.__init__')
    n = 0
    views = set()
    for lp in ast.walk(f.node):
        if not isinstance(lp, ast.For):
            continue
        it = norm(lp.iter)
        if it not in ('self._edges', 'self._remote_edges',
                      'edge_weights_overrides.items()'):
            continue
        t = lp.target
        if isinstance(t, ast.Tuple) and isinstance(t.elts[0], ast.Tuple):
            t = t.elts[0]
        if not (isinstance(t, ast.Tuple) and len(t.elts) == 2):
            raise AnalysisError(f'graph.__init__: loop target at {lp.lineno}')
        a, b = norm(t.elts[0]), norm(t.elts[1])
        writes = []
        for st in lp.body:
            if isinstance(st, ast.Assign):
                writes.append(('set', norm(st.targets[0]), norm(st.value)))
            elif isinstance(st, ast.Expr) and isinstance(
                st.value, ast.Call,
            ):
                writes.append(('call', norm(st.value.func),
                               ','.join(norm(x) for x in st.value.args)))
        n += 1
        rep.count()
        want = set()
        for kind, tgt, val in writes:
            if tgt.startswith('self._mat['):
                views.add(('_mat', it))
                want.add((kind, tgt.replace(f'[{a}][{b}]', '[#1][#2]')
                          .replace(f'[{b}][{a}]', '[#2][#1]'), val))
            elif tgt.startswith('self._adj['):
                views.add(('_adj', it))
        mirrored = True
        for kind, tgt, val in writes:
            if tgt == f'self._mat[{a}][{b}]':
                mirrored &= ('set', f'self._mat[{b}][{a}]', val) in writes
            if tgt == f'self._mat[{b}][{a}]':
                mirrored &= ('set', f'self._mat[{a}][{b}]', val) in writes
            if tgt == f'self._adj[{a}].add':
                mirrored &= ('call', f'self._adj[{b}].add', a) in writes
            if tgt == f'self._adj[{b}].add':
                mirrored &= ('call', f'self._adj[{a}].add', b) in writes
        rep.check(
            mirrored and bool(writes), S,
            f'CouplingGraph.__init__:{it}', f.path, lp.lineno,
            'each edge is entered in both directions with the same value',
            f'the loop over `{it}` writes one direction of an edge without '
            'its mirror: the graph is no longer undirected in that view',
            key=it,
        )
    rep.floor(S, n, 4, 'edge loops in the constructor')
    for v in ('_adj', '_mat'):
        rep.count()
        rep.check(
            (v, 'self._edges') in views, 'FIELDS',
            f'CouplingGraph.__init__:{v}', f.path, f.lineno,
            f'`{v}` is filled from the normalised edge set',
            f'`{v}` is no longer derived from self._edges', key=v,
        )


def ctor(ctx: Ctx, rep: Report) -> None:
    C = 'CTOR'
    cls = ctx.cls(f'{GRAPH}:CouplingGraph')
    n = 0
    for f in cls.methods.values():
        ann = f.node.returns
        if ann is None or norm(ann) != 'CouplingGraph':
            continue
        rets = [r for r in ast.walk(f.node) if isinstance(r, ast.Return)]
        n += 1
        rep.seen(f.qualname)
        rep.count()
        bad = [
            r for r in rets if not (
                isinstance(r.value, ast.Call) and norm(
                    r.value.func) == 'CouplingGraph')
        ]
        rep.check(
            not bad and bool(rets), C, f'CouplingGraph.{f.name}', f.path,
            f.lineno, 'returns a graph built by the normalising constructor',
            'returns something other than CouplingGraph(...): '
            + '; '.join(f'line {r.lineno}: `{norm(r)[:50]}`' for r in bad),
            key='ctor',
        )
    rep.floor(C, n, 7, 'functions returning a CouplingGraph')
    # get_subgraph: induced edges, both endpoints renumbered alike
    f = ctx.fn(f'{GRAPH}:CouplingGraph.get_subgraph')
    app = [c for c in ast.walk(f.node) if isinstance(c, ast.Call)
           and norm(c.func) == 'subgraph.append']
    rep.count(2)
    ok = len(app) == 1 and norm(app[0].args[0]) == (
        '(renumbering[q_i], renumbering[q_i_neighbor])')
    rep.check(
        ok, 'FLOW', 'CouplingGraph.get_subgraph:renumber', f.path, f.lineno,
        'both endpoints of an induced edge go through the same renumbering',
        'the endpoints of an induced edge are not both renumbered through '
        '`renumbering`', key='renumber',
    )
    inner = [lp for lp in ast.walk(f.node) if isinstance(lp, ast.For)
             and norm(lp.iter) == 'location_set.intersection(self._adj[q_i])']
    outer = [lp for lp in ast.walk(f.node) if isinstance(lp, ast.For)
             and norm(lp.iter) == 'location' and norm(lp.target) == 'q_i']
    ret = [r for r in ast.walk(f.node) if isinstance(r, ast.Return)]
    rep.check(
        len(inner) == 1 and len(outer) == 1 and len(ret) == 1 and norm(
            ret[0].value) == 'CouplingGraph(subgraph, len(location))',
        'FLOW', 'CouplingGraph.get_subgraph:induced', f.path, f.lineno,
        'edges = neighbours of each location qudit that are also in the '
        'location; width = len(location)',
        'the sub-graph is no longer the graph induced by `location` with '
        'len(location) qudits', key='induced',
    )
    _ = fields
