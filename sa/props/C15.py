"""C15 — Scheduler bookkeeping stays in bounds and assigns every task
exactly once.

Decided statically (DESIGN 4/C15):
  LOCK       read-receipt mutex discipline on the worker
  COUP       schedule_tasks updates enqueue, task count, idle count (with
             the non-negativity `min`) and submit cache together
  REG        the receipt the employee echoes is the id the boss cached
  PATH       exactly one completion notice per finished task on every role
  FLOW       handle_waiting's correction: receipt -> unaccounted tasks ->
             clamped idle count -> aggregate delta, range assertion
  PARTITION  assign_tasks / send_up_or_schedule_tasks split the task list
             into complementary pieces
Counter exactness under message crossings is not decided.
"""
from __future__ import annotations

import ast

from ..engine import Ctx
from ..report import Report
from ..rules import q
from ..rules import runtime as R
from ..rules import valnum
from ..rules.linear import linform
from ..source import AnalysisError
from ..source import norm
from .C07 import lock_rule


def run(ctx: Ctx, rep: Report) -> None:
    rep.explanation = (
        'Static clauses of C15: the read-receipt lock discipline (LOCK); '
        'ServerBase.schedule_tasks co-updates the four pieces of per-'
        'employee bookkeeping and recomputes the aggregate (COUP); the '
        'receipt echoed by workers and managers is the id the boss cached '
        '(REG); every role emits exactly one completion notice per '
        'finished task (PATH); handle_waiting applies the read-receipt '
        'correction with clamping and keeps the range assertion (FLOW); '
        'task lists are split into complementary slices (PARTITION). '
        'Exactness of the counters over all delivery orders is not decided.'
    )
    rep.assumptions += ['per-channel FIFO delivery']
    lock_rule(ctx, rep)
    coup(ctx, rep)
    reg(ctx, rep)
    path(ctx, rep)
    flow(ctx, rep)
    partition(ctx, rep)


def coup(ctx: Ctx, rep: Report) -> None:
    C = 'COUP'
    f = ctx.fn(R.BASE + '.schedule_tasks')
    g = ctx.cfg(f)
    rep.seen(f.qualname)
    lps = [n for n in g.nodes if n.kind == 'for']
    if len(lps) != 1:
        raise AnalysisError('schedule_tasks: single assignment loop expected')
    lp = lps[0]
    if not isinstance(lp.stmt.target, ast.Tuple):
        raise AnalysisError('schedule_tasks: loop target (e, assignment)')
    e, a = [norm(x) for x in lp.stmt.target.elts]
    body = g.in_loop_body(lp)
    snd = [g.node_containing(s.node) for s in R.sends_in(f, 'ServerBase')
           if s.kind == 'SUBMIT_BATCH']
    cnt = [n for n in g.nodes if n.id in body and isinstance(
        n.stmt, ast.AugAssign) and norm(n.stmt.target) == f'{e}.num_tasks']
    idle = [n for n in g.nodes if n.id in body and isinstance(
        n.stmt, ast.AugAssign) and norm(
        n.stmt.target) == f'{e}.num_idle_workers']
    cache = [n for n in g.nodes if n.id in body and q.has_call(
        f'{e}.submit_cache.append')(n)]
    skip = [t for t in g.nodes if t.id in body and t.kind == 'test']
    st = [b for b, l in g.succ[lp.id] if l == 'iter'][0]
    rep.count(7)
    allfour = snd + cnt + idle + cache
    together = len(snd) == 1 and len(cnt) == 1 and len(idle) == 1 and len(
        cache) == 1
    if together:
        # on every path of an iteration either none or all four happen
        for x in allfour:
            for y in allfour:
                if x is y:
                    continue
                r = g.reach([st], blocked=[y.id, lp.id])
                if x.id in r and lp.id in g.reach(
                    [x.id], blocked=[y.id], include_starts=False,
                ) | {lp.id} and not _before(g, y, x, lp):
                    together = together and _same_region(g, x, y, lp)
    rep.check(
        together, C, 'ServerBase.schedule_tasks', f.path, lp.lineno,
        'enqueue, task count, idle count and submit cache are updated '
        'together for every non-empty assignment',
        'SUBMIT_BATCH enqueue, num_tasks, num_idle_workers and submit_cache '
        'are not updated together for every non-empty assignment',
        key='together',
    )
    if not together:
        return
    # the skip guard is exactly "empty assignment"
    nt = [n for n in g.nodes if n.id in body and q.assigns(
        'num_tasks', f'len({a})')(n)]
    ok_skip = len(skip) == 1 and norm(skip[0].stmt.test) in (
        'num_tasks == 0', f'len({a}) == 0') and len(nt) == 1
    rep.check(
        ok_skip, C, 'ServerBase.schedule_tasks:skip', f.path, lp.lineno,
        'only empty assignments are skipped',
        'assignments are skipped by a test other than "no tasks"',
        key='skip',
    )
    pay = [s for s in R.sends_in(f, 'ServerBase') if s.kind == 'SUBMIT_BATCH']
    rep.check(
        norm(pay[0].payload) == a and norm(
            pay[0].node.args[0].elts[0]) == f'{e}.conn', C,
        'ServerBase.schedule_tasks:send', f.path, lp.lineno,
        'the assignment goes to the employee it was computed for',
        'the batch is not sent on the connection of the employee it was '
        'assigned to', key='send-to',
    )
    rep.check(
        isinstance(cnt[0].stmt.op, ast.Add) and norm(
            cnt[0].stmt.value) == 'num_tasks', C,
        'ServerBase.schedule_tasks:num_tasks', f.path, cnt[0].lineno,
        'num_tasks grows by the batch size',
        f'num_tasks is updated by `{norm(cnt[0].stmt)}`', key='num_tasks',
    )
    v = idle[0].stmt.value
    ok_min = isinstance(idle[0].stmt.op, ast.Sub) and isinstance(
        v, ast.Call) and norm(v.func) == 'min' and {
        norm(x) for x in v.args} == {'num_tasks', f'{e}.num_idle_workers'}
    rep.check(
        ok_min, C, 'ServerBase.schedule_tasks:idle', f.path, idle[0].lineno,
        'idle count shrinks by min(batch, idle): never negative',
        f'idle count is updated by `{norm(idle[0].stmt)}`; without the '
        'min(num_tasks, idle) clamp it can go negative', key='idle-min',
    )
    ca = cache[0].calls()[0].args[0]
    rep.check(
        isinstance(ca, ast.Tuple) and norm(ca.elts[0]) == (
            f'{a}[0].unique_id') and norm(ca.elts[1]) == 'num_tasks', C,
        'ServerBase.schedule_tasks:cache', f.path, cache[0].lineno,
        'submit cache records (id of the first task, batch size)',
        f'submit cache records `{norm(ca)}`', key='cache-entry',
    )
    agg = [n for n in g.nodes if isinstance(n.stmt, ast.Assign) and norm(
        n.stmt.targets[0]) == 'self.num_idle_workers']
    rep.check(
        len(agg) == 1 and agg[0].id not in body and norm(
            agg[0].stmt.value) == (
            'sum((e.num_idle_workers for e in self.employees))')
        and lp.id not in g.reach([agg[0].id], include_starts=False), C,
        'ServerBase.schedule_tasks:aggregate', f.path, f.lineno,
        'the aggregate idle count is recomputed after the loop',
        'the aggregate idle count is not recomputed from the employees '
        'after scheduling', key='aggregate',
    )


def _before(g, y, x, lp) -> bool:
    return x.id in g.reach([y.id], blocked=[lp.id], include_starts=False)


def _same_region(g, x, y, lp) -> bool:
    """No test inside the loop body separates x from y."""
    gx = {(t.id, lab) for t, lab in g.guards_of(x.id)}
    gy = {(t.id, lab) for t, lab in g.guards_of(y.id)}
    return gx == gy


def reg(ctx: Ctx, rep: Report) -> None:
    Rg = 'REG'
    f = ctx.fn(R.WORKER + '.recv_incoming')
    rep.count(3)
    vals = sorted({
        norm(n.value) for n in ast.walk(f.node)
        if isinstance(n, ast.Assign) and norm(
            n.targets[0]) == 'self.most_recent_read_submit'})
    rep.check(
        vals == ['task.unique_id', 'tasks[0].unique_id'], Rg,
        'Worker.recv_incoming', f.path, f.lineno,
        'worker receipt = id of the first task of the batch (read before '
        'the batch is split)',
        f'worker receipts are {vals}; the boss caches '
        'assignment[0].unique_id, so the receipt would not be found',
        key='worker-receipt',
    )
    g = ctx.cfg(f)
    rd = [n for n in g.nodes if q.assigns(
        'self.most_recent_read_submit', 'tasks[0].unique_id')(n)]
    pp = [n for n in g.nodes if any(norm(c.func) == 'tasks.pop'
                                    for c in n.calls())]
    rep.check(
        len(rd) == 1 and len(pp) == 1 and not g.precedes(
            lambda n: n is rd[0], lambda n: n is pp[0]), Rg,
        'Worker.recv_incoming:order', f.path, f.lineno,
        'the receipt is read before a task is popped off the batch',
        'the batch is modified before its first id is recorded',
        key='receipt-before-pop',
    )
    m = ctx.fn(R.MGR + '.handle_message')
    vals = sorted({
        norm(n.value) for n in ast.walk(m.node)
        if isinstance(n, ast.Assign) and norm(
            n.targets[0]) == 'self.most_recent_read_submit'})
    rep.seen(f.qualname, m.qualname)
    rep.check(
        vals == ['rtask.unique_id', 'rtasks[0].unique_id'], Rg,
        'Manager.handle_message', m.path, m.lineno,
        'manager receipt = id of the first task of the batch from above',
        f'manager receipts are {vals}', key='manager-receipt',
    )
    t = ctx.fn(R.RT + 'task.py:RuntimeTask.unique_id')
    rep.count()
    rep.check(
        'return self.return_address' in norm(t.node), Rg,
        'RuntimeTask.unique_id', t.path, t.lineno,
        'unique id = return address (stable across processes)',
        'unique_id is no longer the return address', key='unique-id',
    )


def path(ctx: Ctx, rep: Report) -> None:
    P = 'PATH'
    f = ctx.fn(R.WORKER + '._process_task_completion')
    g = ctx.cfg(f)
    rep.seen(f.qualname)
    sends = R.sends_in(f, 'Worker')
    upd = [g.node_containing(s.node) for s in sends if s.kind == 'UPDATE']
    res = [g.node_containing(s.node) for s in sends if s.kind == 'RESULT']
    gone = [n for n in g.nodes if isinstance(n.stmt, ast.Return)]
    rep.count(4)
    once = len(upd) == 1 and len(res) == 1 and g.must(
        lambda n: n in upd or n in res or n in gone) and not (
        res[0].id in g.reach([upd[0].id], include_starts=False)
        or upd[0].id in g.reach([res[0].id], include_starts=False))
    rep.check(
        once, P, 'Worker._process_task_completion', f.path, f.lineno,
        'a finished task produces exactly one of UPDATE(-1) / RESULT',
        'a finished (not cancelled) task does not produce exactly one of '
        'UPDATE(-1) (local delivery) and RESULT (upward) on every path: '
        'the boss\'s task count drifts', key='one-notice',
    )
    us = [s for s in sends if s.kind == 'UPDATE']
    rep.check(
        bool(us) and norm(us[0].payload) == '-1', P,
        'Worker._process_task_completion:update', f.path, f.lineno,
        'local completion is reported as -1',
        f'local completion is reported as `{norm(us[0].payload) if us else "?"}`',
        key='minus-one',
    )
    loc = [t for t in g.nodes if t.kind == 'test' and norm(
        t.stmt.test) == 'task.return_address.worker_id == self._id']
    rep.check(
        len(loc) == 1 and bool(upd) and g.edge_dominates(
            loc[0].id, 'true', upd[0].id) and g.edge_dominates(
            loc[0].id, 'false', res[0].id), P,
        'Worker._process_task_completion:route', f.path, f.lineno,
        'local results are delivered locally, others go upward',
        'the local/remote split of result delivery is broken', key='route',
    )
    rs = [s for s in sends if s.kind == 'RESULT']
    pk = [n for n in ast.walk(f.node) if isinstance(n, ast.Assign)
          and norm(n.targets[0]) == 'packaged_result']
    rep.check(
        bool(rs) and len(pk) == 1 and norm(pk[0].value) == (
            'RuntimeResult(task.return_address, result, self._id)'), P,
        'Worker._process_task_completion:result', f.path, f.lineno,
        'the result travels with its return address and the id of the '
        'worker that completed it',
        'the packaged result is not RuntimeResult(task.return_address, '
        'result, self._id)', key='package',
    )
    # manager
    f = ctx.fn(R.MGR + '.handle_result_from_below')
    g = ctx.cfg(f)
    rep.seen(f.qualname)
    sends = R.sends_in(f, 'Manager')
    upd = [g.node_containing(s.node) for s in sends if s.kind == 'UPDATE']
    res = [g.node_containing(s.node) for s in sends if s.kind == 'RESULT']
    dec = [n for n in g.nodes if isinstance(n.stmt, ast.AugAssign)
           and norm(n.stmt.target).endswith('.num_tasks')]
    rep.count(2)
    rep.check(
        len(dec) == 1 and isinstance(dec[0].stmt.op, ast.Sub) and norm(
            dec[0].stmt.value) == '1' and g.must(lambda n: n is dec[0])
        and 'get_employee_responsible_for(result.completed_by)' in norm(
            dec[0].stmt.target), P, 'Manager.handle_result_from_below:count',
        f.path, f.lineno,
        'the completing employee\'s task count drops by one, once',
        'the completing employee\'s task count is not decremented exactly '
        'once', key='decrement',
    )
    rep.check(
        len(upd) == 1 and len(res) == 1 and g.must(
            lambda n: n in upd or n in res) and res[0].id not in g.reach(
            [upd[0].id], include_starts=False), P,
        'Manager.handle_result_from_below:notice', f.path, f.lineno,
        'exactly one of UPDATE(-1) / RESULT goes upstream',
        'a result from below does not lead to exactly one of UPDATE and '
        'RESULT upstream', key='one-notice',
    )
    f = ctx.fn(R.DET + '.handle_result')
    g = ctx.cfg(f)
    dec = [n for n in g.nodes if isinstance(n.stmt, ast.AugAssign)
           and norm(n.stmt.target).endswith('.num_tasks')]
    rep.count()
    rep.check(
        len(dec) == 1 and isinstance(dec[0].stmt.op, ast.Sub) and norm(
            dec[0].stmt.value) == '1' and g.must(lambda n: n is dec[0]), P,
        'DetachedServer.handle_result:count', f.path, f.lineno,
        'every arriving result decrements its employee\'s count once',
        'an arriving result does not decrement the count exactly once',
        key='decrement',
    )
    hu = ctx.fn(R.MGR + '.handle_update')
    t = norm(hu.node)
    rep.count()
    rep.check(
        'self.conn_to_employee_dict[conn].num_tasks += task_diff' in t
        and '(self.upstream, RuntimeMessage.UPDATE, task_diff)' in t, P,
        'Manager.handle_update', hu.path, hu.lineno,
        'an UPDATE is applied locally and passed on unchanged',
        'an UPDATE from below is not applied and forwarded unchanged',
        key='update',
    )
    # the server applies the same message: the employee's count moves by
    # the payload (managers report +k for tasks they keep, -1 per task that
    # finishes without its result passing through)
    hm = ctx.fn(R.DET + '.handle_message')
    d = [x for x in R.dispatchers(hm) if x.direction == 'BELOW']
    b = d[0].branch('UPDATE') if d else None
    rep.count()
    ok = False
    if b is not None:
        gm = ctx.cfg(hm)
        for st in b.body:
            for n in ast.walk(st):
                if isinstance(n, ast.AugAssign) and isinstance(
                        n.op, ast.Add) and norm(n.target) == (
                        'self.conn_to_employee_dict[conn].num_tasks'):
                    nd = gm.node_containing(n.value) or gm.node_containing(n)
                    v = norm(valnum.subst(ctx, hm, nd, n.value)) if nd else (
                        norm(n.value))
                    ok = v in ('payload', 'cast(int, payload)', 'task_diff')
    rep.check(
        ok, P, 'DetachedServer.BELOW:UPDATE', hm.path,
        b.lineno if b else hm.lineno,
        'an UPDATE from below moves the employee\'s task count by its '
        'payload',
        'the server does not add the UPDATE payload to the sending '
        'employee\'s num_tasks: a manager that reports +k kept tasks is '
        'booked wrongly and its count drifts (negative after the tasks '
        'finish)', key='update-server',
    )


def flow(ctx: Ctx, rep: Report) -> None:
    F = 'FLOW'
    f = ctx.fn(R.BASE + '.handle_waiting')
    g = ctx.cfg(f)
    rd = ctx.rd(f)
    rep.seen(f.qualname)
    ex = g.nodes[g.exit]
    setn = [n for n in g.nodes if isinstance(n.stmt, ast.Assign) and norm(
        n.stmt.targets[0]) == 'employee.num_idle_workers']
    rep.count(6)
    if len(setn) != 1:
        rep.fail(F, 'ServerBase.handle_waiting', f.path, f.lineno,
                 'employee.num_idle_workers is not assigned exactly once',
                 key='assign')
        return
    deps, defs = rd.closure(setn[0], setn[0].stmt.value)
    rep.check(
        {'new_idle_count', 'read_receipt', 'conn'} <= deps and any(
            'get_num_of_tasks_sent_since' in norm(d.value)
            for d in defs if d.value is not None), F,
        'ServerBase.handle_waiting:correction', f.path, setn[0].lineno,
        'stored idle count depends on the reported count and on the tasks '
        'sent since the read receipt',
        'the stored idle count no longer depends on both the reported '
        'count and get_num_of_tasks_sent_since(read_receipt): the '
        'message-crossing race is uncorrected', key='correction',
    )
    adj = [d for d in defs if d.name == 'adjusted_idle_count']
    v = adj[0].value if adj else setn[0].stmt.value
    clamp = isinstance(v, ast.Call) and norm(v.func) == 'max' and any(
        norm(a) == '0' for a in v.args)
    inner = [a for a in v.args if norm(a) != '0'] if clamp else []
    lf = linform(inner[0], adj[0].node if adj else setn[0], rd) if inner \
        else None
    rep.check(
        clamp and lf is not None and sorted(lf.values()) == [-1, 1]
        and any(k.startswith('new_idle_count') and c == 1
                for k, c in lf.items()), F,
        'ServerBase.handle_waiting:clamp', f.path, setn[0].lineno,
        'idle = max(reported - unaccounted, 0)',
        f'idle count is computed as `{norm(v)}`; it must be '
        'max(reported - unaccounted, 0) to stay non-negative', key='clamp',
    )
    old = [n for n in g.nodes if q.assigns(
        'old_count', 'employee.num_idle_workers')(n)]
    rep.check(
        len(old) == 1 and not g.precedes(
            lambda n: n is old[0], lambda n: n is setn[0]), F,
        'ServerBase.handle_waiting:old', f.path, f.lineno,
        'the previous idle count is saved before it is overwritten',
        'the previous idle count is read after being overwritten (delta '
        'is always zero)', key='old-first',
    )
    aggn = [n for n in g.nodes if isinstance(n.stmt, ast.AugAssign) and norm(
        n.stmt.target) == 'self.num_idle_workers']
    ok = len(aggn) == 1 and isinstance(aggn[0].stmt.op, ast.Add)
    if ok:
        lf = linform(aggn[0].stmt.value, aggn[0], rd)
        ok = lf is not None and any(
            'new_idle_count' in k or 'adjusted' in k or k.startswith('max(')
            for k, c in lf.items() if c == 1) and any(
            k.startswith('employee.num_idle_workers') and c == -1
            for k, c in lf.items())
    rep.check(
        ok, F, 'ServerBase.handle_waiting:aggregate', f.path, f.lineno,
        'aggregate += (new idle - old idle)',
        'the aggregate idle count is not updated by (adjusted - old)',
        key='delta',
    )
    asserts = [n for n in g.nodes if isinstance(n.stmt, ast.Assert)]
    rep.check(
        any(norm(n.stmt.test) == (
            '0 <= self.num_idle_workers <= self.total_workers')
            for n in asserts), F, 'ServerBase.handle_waiting:assert', f.path,
        f.lineno, 'the range assertion is in place',
        'the consistency assertion 0 <= idle <= total was removed',
        key='assert',
    )
    emp = [n for n in g.nodes if q.assigns(
        'employee', 'self.conn_to_employee_dict[conn]')(n)]
    rep.check(
        len(emp) == 1, F, 'ServerBase.handle_waiting:employee', f.path,
        f.lineno, 'the employee is the one owning the connection',
        'the employee is not looked up from the message\'s connection',
        key='employee',
    )
    _ = ex
    # get_num_of_tasks_sent_since
    f = ctx.fn(R.EMP + '.get_num_of_tasks_sent_since')
    g = ctx.cfg(f)
    rep.seen(f.qualname)
    none_t = [t for t in g.nodes if t.kind == 'test' and norm(
        t.stmt.test) == 'read_receipt is None']
    rets = [n for n in g.nodes if isinstance(n.stmt, ast.Return)]
    rep.count(3)
    r_all = [n for n in rets if none_t and g.edge_dominates(
        none_t[0].id, 'true', n.id)]
    rep.check(
        len(r_all) == 1 and norm(r_all[0].stmt.value) == (
            'sum((count for _, count in self.submit_cache))'), F,
        'RuntimeEmployee.get_num_of_tasks_sent_since:none', f.path,
        f.lineno, 'without a receipt every cached batch is unaccounted',
        'without a receipt the whole cache is not summed', key='none',
    )
    lp = [n for n in g.nodes if n.kind == 'for']
    trim = [n for n in g.nodes if isinstance(n.stmt, ast.Assign) and norm(
        n.stmt.targets[0]) == 'self.submit_cache']
    found = [t for t in g.nodes if t.kind == 'test' and norm(
        t.stmt.test) == 'addr == read_receipt']
    ok = len(lp) == 1 and len(trim) == 1 and len(found) == 1 and (
        norm(lp[0].stmt.iter) == 'enumerate(self.submit_cache)')
    eff = None
    if ok:
        i = norm(lp[0].stmt.target.elts[0])
        tv = trim[0].stmt.value
        r_in = [n for n in rets if g.edge_dominates(
            found[0].id, 'true', n.id)]
        ok = isinstance(tv, ast.Subscript) and isinstance(
            tv.slice, ast.Slice) and tv.slice.upper is None and len(
            r_in) == 1
        if ok:
            lo = norm(tv.slice.lower) if tv.slice.lower else '0'
            sm = r_in[0].stmt.value
            sl = [x for x in ast.walk(sm) if isinstance(x, ast.Subscript)
                  and norm(x.value) == 'self.submit_cache']
            after = norm(sl[0].slice.lower) if sl and isinstance(
                sl[0].slice, ast.Slice) and sl[0].slice.lower else '0'
            eff = (lo, after)
            ok = (lo, after) in ((i, '1'), (f'{i} + 1', '0')) and (
                g.nodes[trim[0].id].id in g.reach([found[0].id])
                and r_in[0].id in g.reach([trim[0].id]))
    rep.check(
        ok, F, 'RuntimeEmployee.get_num_of_tasks_sent_since:since', f.path,
        f.lineno,
        'counts exactly the batches sent strictly after the receipt and '
        'forgets older ones',
        f'the cache is trimmed from `{eff[0] if eff else "?"}` and summed '
        f'from `{eff[1] if eff else "?"}`: the batches counted are not '
        'exactly those sent after the acknowledged one', key='since',
    )
    rep.check(
        any(isinstance(n.stmt, ast.Raise) for n in g.nodes), F,
        'RuntimeEmployee.get_num_of_tasks_sent_since:missing', f.path,
        f.lineno, 'an unknown receipt is an error',
        'an unknown receipt is silently accepted', key='missing',
    )
    # manager -> upstream WAITING
    f = ctx.fn(R.MGR + '.update_upstream_idle_workers')
    g = ctx.cfg(f)
    rep.seen(f.qualname)
    ws = [s for s in R.sends_in(f, 'Manager') if s.kind == 'WAITING']
    pay = None
    for n in ast.walk(f.node):
        if isinstance(n, ast.Assign) and norm(n.targets[0]) == 'payload':
            pay = norm(n.value)
    ch = [t for t in g.nodes if t.kind == 'test' and norm(t.stmt.test) == (
        'self.num_idle_workers != self.last_num_idle_sent_up')]
    rec = [n for n in g.nodes if q.assigns(
        'self.last_num_idle_sent_up', 'self.num_idle_workers')(n)]
    rep.count()
    rep.check(
        len(ws) == 1 and pay == (
            '(self.num_idle_workers, self.most_recent_read_submit)')
        and len(ch) == 1 and len(rec) == 1, F,
        'Manager.update_upstream_idle_workers', f.path, f.lineno,
        'a changed idle count is sent up with the manager\'s receipt and '
        'remembered',
        'the manager does not send (idle count, read receipt) upstream '
        'when its idle count changed', key='waiting-up',
    )
    wk = ctx.fn(R.WORKER + '._get_next_ready_task')
    pl = [n for n in ast.walk(wk.node) if isinstance(n, ast.Assign)
          and norm(n.targets[0]) == 'payload']
    rep.count()
    rep.check(
        len(pl) == 1 and norm(pl[0].value) == (
            '(1, self.most_recent_read_submit)'), F,
        'Worker._get_next_ready_task:waiting', wk.path, wk.lineno,
        'an idle worker reports (1, its receipt)',
        'the worker\'s WAITING payload is not (1, most_recent_read_submit)',
        key='waiting-worker',
    )


def partition(ctx: Ctx, rep: Report) -> None:
    P = 'PARTITION'
    f = ctx.fn(R.MGR + '.send_up_or_schedule_tasks')
    g = ctx.cfg(f)
    rep.seen(f.qualname)
    sch = [c for n in g.nodes for c in n.calls()
           if norm(c.func) == 'self.schedule_tasks']
    up = [s for s in R.sends_in(f, 'Manager') if s.kind == 'SUBMIT_BATCH']
    rep.count(2)
    ok = len(sch) == 1 and len(up) == 1
    a = b = None
    if ok:
        # through local temporaries (`kept = tasks[:k]`)
        a = valnum.subst(ctx, f, g.node_containing(sch[0]), sch[0].args[0])
        b = valnum.subst(ctx, f, g.node_containing(up[0].node),
                         up[0].payload)
        ok = isinstance(a, ast.Subscript) and isinstance(
            b, ast.Subscript) and isinstance(a.slice, ast.Slice) and (
            isinstance(b.slice, ast.Slice)) and norm(a.value) == norm(
            b.value) == 'tasks' and a.slice.lower is None and (
            b.slice.upper is None) and a.slice.upper is not None and (
            b.slice.lower is not None) and norm(a.slice.upper) == norm(
            b.slice.lower)
    rep.check(
        ok, P, 'Manager.send_up_or_schedule_tasks', f.path, f.lineno,
        'tasks[:k] stay, tasks[k:] go up: every task exactly once',
        'the kept and forwarded slices of the task list are not '
        'complementary (a task is lost or duplicated)', key='slices',
    )
    # the count reported upstream is the count of the *kept* slice (or its
    # bound k, the historical over-approximation) - never the surplus: the
    # server later subtracts one per completed task of this manager
    upd = [s for s in R.sends_in(f, 'Manager') if s.kind == 'UPDATE']
    rep.count()
    ok_u = ok and len(upd) == 1
    if ok_u:
        k = norm(a.slice.upper)
        kept = norm(a)
        un = g.node_containing(upd[0].node)
        pay = norm(valnum.subst(ctx, f, un, upd[0].payload))
        ok_u = pay in (k, f'len({kept})', f'min(len(tasks), {k})',
                       f'min({k}, len(tasks))')
        if pay == k:
            rep.observe(
                'Manager.send_up_or_schedule_tasks reports the bound '
                f'`{k}` upstream even when fewer tasks than that are kept '
                '(len(tasks) < idle workers): the server\'s task count for '
                'this manager then drifts upward by the difference. C15 '
                'claims exact quiescent counts only for a server that '
                'manages its workers directly, so this is an observation, '
                'not a violation.')
    rep.check(
        ok_u, P, 'Manager.send_up_or_schedule_tasks:count', f.path, f.lineno,
        'upstream is told the number of tasks kept below this manager',
        'the UPDATE sent upstream does not carry the number of tasks kept '
        'below this manager (the bound of the kept slice tasks[:k]): the '
        'server subtracts one per completed task and its per-employee task '
        'count goes negative or drifts', key='kept-count',
    )
    gt = [t for t in g.nodes if t.kind == 'test' and norm(
        t.stmt.test) == 'len(tasks) > num_idle']
    upn = g.node_containing(up[0].node) if up else None
    rep.check(
        len(gt) == 1 and upn is not None and g.edge_dominates(
            gt[0].id, 'true', upn.id), P,
        'Manager.send_up_or_schedule_tasks:guard', f.path, f.lineno,
        'the surplus goes up exactly when there is one',
        'the surplus batch is not guarded by len(tasks) > num_idle',
        key='surplus-guard',
    )
    f = ctx.fn(R.BASE + '.assign_tasks')
    g = ctx.cfg(f)
    rd = ctx.rd(f)
    rep.seen(f.qualname)
    rep.count(4)
    z = [n for n in g.nodes if n.kind == 'for' and norm(
        n.stmt.iter) == 'zip(idle_id_repeated_list, tasks)']
    rep.check(
        len(z) == 1, P, 'ServerBase.assign_tasks:idle', f.path, f.lineno,
        'the first tasks are paired with idle slots one to one',
        'idle slots are not zipped with the task list', key='zip',
    )
    nr = [n for n in g.nodes if isinstance(n.stmt, ast.Assign) and norm(
        n.stmt.targets[0]) == 'num_remaining_tasks']
    lf = linform(nr[0].stmt.value, nr[0], rd) if len(nr) == 1 else None
    rep.check(
        lf == {'len(tasks)': 1, 'len(idle_id_repeated_list)': -1}, P,
        'ServerBase.assign_tasks:remaining', f.path, f.lineno,
        'remaining = len(tasks) - number of idle slots',
        f'remaining count is `{norm(nr[0].stmt.value) if nr else "?"}`',
        key='remaining',
    )
    early = [t for t in g.nodes if t.kind == 'test' and norm(
        t.stmt.test) == 'num_remaining_tasks <= 0']
    rem = [n for n in g.nodes if isinstance(n.stmt, ast.Assign) and norm(
        n.stmt.targets[0]) == 'remaining_tasks']
    rep.check(
        len(early) == 1 and len(rem) == 1 and norm(
            rem[0].stmt.value) == 'list(tasks[-num_remaining_tasks:])'
        and g.edge_dominates(early[0].id, 'false', rem[0].id), P,
        'ServerBase.assign_tasks:tail', f.path, f.lineno,
        'the tasks not given to idle slots are exactly the tail of the list',
        'the remaining tasks are not tasks[-remaining:] (taken only when '
        'remaining > 0)', key='tail',
    )
    wl = [t for t in g.nodes if t.kind == 'test' and isinstance(
        t.stmt, ast.While) and norm(t.stmt.test) == (
        'len(remaining_tasks) > 0')]
    ok = len(wl) == 1
    if ok:
        body = g.in_loop_body(wl[0])
        pops = [n for n in g.nodes if n.id in body and any(
            norm(c.func) == 'remaining_tasks.pop' for c in n.calls())]
        ok = len(pops) == 1 and any(
            norm(c.func).startswith('assignments[') and norm(
                c.func).endswith('.append') for c in pops[0].calls())
    rep.check(
        ok, P, 'ServerBase.assign_tasks:drain', f.path, f.lineno,
        'each remaining task is popped once and appended to one assignment',
        'the remaining tasks are not drained one by one into assignments',
        key='drain',
    )
