"""C06 — Circuit simulation equals the ordered product of its operations.

Decided statically (DESIGN 4/C06):
  CURSOR  every function that walks the operations with a running parameter
          index uses the default (DAG) iteration order, slices
          params[i : i+W] and advances i by the same W exactly once per
          iteration, reading before advancing
  CLONE   UnitaryBuilder.apply_right/left and their eval_ clones compute the
          same contraction (forward-substituted expressions are equal)
  GRAD    product-rule structure of Circuit.get_unitary_and_grad
  ITER    __iter__ / operations() / operations_with_cycles() defaults
The contraction itself, gradients' values and mixed-radix arithmetic are
not decided.
"""
from __future__ import annotations

import ast
import copy

from ..engine import Ctx
from ..report import Report
from ..rules import clone
from ..rules import valnum
from ..rules.linear import linform
from ..source import AnalysisError
from ..source import norm

CIRC = 'bqskit/ir/circuit.py'
UB = 'bqskit/qis/unitary/unitarybuilder.py'
WIDTHS = {'op.num_params', 'len(op.params)'}
DEFAULT_ITERS = {'self', 'self.operations_with_cycles()', 'self.operations()'}


def run(ctx: Ctx, rep: Report) -> None:
    rep.explanation = (
        'Static clauses of C06: the parameter-cursor discipline of the '
        'sibling walkers in Circuit (CURSOR), equality of the value-'
        'numbered contraction expressions of UnitaryBuilder.apply_* and '
        'eval_apply_* (CLONE), the product-rule structure of '
        'get_unitary_and_grad (GRAD) and the default iteration order '
        '(ITER). Numerical correctness of the contraction is not decided.'
    )
    rep.assumptions += [
        'Operation.__init__ checks len(params) == num_params (so the two '
        'width expressions are aliases)',
    ]
    cursor(ctx, rep)
    clone_rule(ctx, rep)
    grad(ctx, rep)
    iters(ctx, rep)
    # the backward grid walk is the mirror image of the forward one
    from ..rules.mirror import rule_mirror
    it = 'bqskit/ir/iterator.py:CircuitGridIterator.'
    rule_mirror(ctx, rep, it + 'increment_iter', it + 'decrement_iter')
    # radix-generic code never falls back to qubits
    from ..rules.radixdrop import rule_pow2
    from ..rules.radixdrop import rule_radixdrop
    rule_radixdrop(ctx, rep, (
        'bqskit/ir/circuit.py', 'bqskit/qis/', 'bqskit/ir/gates/'), 15)
    rule_pow2(ctx, rep, (
        'bqskit/qis/unitary/', 'bqskit/qis/state/', 'bqskit/ir/circuit.py'))
    # nothing is memoised from state that is handed out by reference
    from .circuit_edit import memoalias
    memoalias(ctx, rep)


def _loops_over_ops(f) -> list[ast.For]:
    return [n for n in ast.walk(f.node) if isinstance(n, ast.For)
            and norm(n.iter) in DEFAULT_ITERS | {
                'reversed(self)', 'self.operations_with_cycles(reverse=True)'}]


def cursor(ctx: Ctx, rep: Report) -> None:
    C = 'CURSOR'
    n = 0
    for name in ('get_unitary', 'get_statevector', 'get_unitary_and_grad',
                 'set_params'):
        f = ctx.fn(f'{CIRC}:Circuit.{name}')
        g = ctx.cfg(f)
        rd = ctx.rd(f)
        rep.seen(f.qualname)
        lps = [lp for lp in _loops_over_ops(f) if any(
            (isinstance(x, ast.AugAssign) and norm(
                x.target) == 'param_index') or (
                isinstance(x, ast.Subscript) and norm(x.value) == 'params'
                and isinstance(x.slice, ast.Slice))
            for x in ast.walk(lp))]
        if len(lps) != 1:
            raise AnalysisError(f'Circuit.{name}: cursor loop not found')
        lp = lps[0]
        n += 1
        rep.count(3)
        qn = f'Circuit.{name}'
        rep.check(
            norm(lp.iter) == 'self' and norm(lp.target) == 'op', C,
            qn + ':order', f.path, lp.lineno,
            'walks the operations in default (simulation) order',
            f'walks `{norm(lp.iter)}`: parameters are defined in the '
            'order of `for op in self`', key='order',
        )
        lpn = [x for x in g.nodes if x.stmt is lp][0]
        body = g.in_loop_body(lpn)
        uses = [x for x in g.nodes if x.id in body for s in x.walk()
                if isinstance(s, ast.Subscript) and norm(
                    s.value) == 'params' and isinstance(s.slice, ast.Slice)]
        adv = [x for x in g.nodes if x.id in body and isinstance(
            x.stmt, ast.AugAssign) and norm(x.stmt.target) == 'param_index']
        ok = len(uses) == 1 and len(adv) == 1
        why = f'{len(uses)} slice(s), {len(adv)} advance(s)'
        if ok:
            sl = [s for s in uses[0].walk() if isinstance(
                s, ast.Subscript) and norm(s.value) == 'params'][0].slice
            lo = norm(sl.lower) if sl.lower else '0'
            hi = linform(sl.upper, uses[0], rd) if sl.upper else None
            w = norm(valnum.subst(ctx, f, adv[0], adv[0].stmt.value))
            ok = (
                lo == 'param_index' and isinstance(adv[0].stmt.op, ast.Add)
                and w in WIDTHS and hi is not None
                and hi.get('param_index') == 1
                and any(hi.get(x) == 1 for x in WIDTHS)
                and len(hi) == 2 and sl.step is None
            )
            why = (f'slice [{lo}:{norm(sl.upper) if sl.upper else ""}], '
                   f'advance `{norm(adv[0].stmt)}`')
            if ok:
                # same guard region; read before advance; once per iteration
                gu = {(t.id, l) for t, l in g.guards_of(uses[0].id)}
                ga = {(t.id, l) for t, l in g.guards_of(adv[0].id)}
                r = g.reach([adv[0].id], blocked=[lpn.id],
                            include_starts=False)
                ok = gu == ga and uses[0].id not in r
                why += '' if ok else (
                    '; slice and advance are not in the same branch, or the '
                    'cursor advances before it is read')
        rep.check(
            ok, C, qn + ':slice', f.path, lp.lineno,
            f'per iteration: params[i : i+W] then i += W ({why})',
            f'the parameter cursor is not read as params[i : i+W] and '
            f'advanced by the same W exactly once per iteration ({why}): '
            'operations receive the wrong parameters', key='slice',
        )
        init = [x for x in g.nodes if isinstance(x.stmt, ast.Assign) and norm(
            x.stmt.targets[0]) == 'param_index']
        rep.check(
            len(init) == 1 and norm(init[0].stmt.value) == '0'
            and init[0].id not in body, C, qn + ':init', f.path, lp.lineno,
            'the cursor starts at 0 before the loop',
            'the cursor does not start at 0 once before the loop',
            key='init',
        )
    # params: defining order
    n += params_order(ctx, rep)
    # get_param_location: count-based cursor
    f = ctx.fn(f'{CIRC}:Circuit.get_param_location')
    g = ctx.cfg(f)
    rd = ctx.rd(f)
    rep.seen(f.qualname)
    lps = [lp for lp in ast.walk(f.node) if isinstance(lp, ast.For)]
    rep.count(3)
    ok = len(lps) == 1 and norm(lps[0].iter) == (
        'self.operations_with_cycles()')
    rep.check(
        ok, C, 'Circuit.get_param_location:order', f.path, f.lineno,
        'walks operations_with_cycles() with default arguments',
        'does not walk self.operations_with_cycles() in default order',
        key='order',
    )
    adv = [x for x in g.nodes if isinstance(x.stmt, ast.AugAssign) and norm(
        x.stmt.target) == 'count']
    par = [x for x in g.nodes if isinstance(x.stmt, ast.Assign) and norm(
        x.stmt.targets[0]) == 'param']
    tst = [x for x in g.nodes if x.kind == 'test' and norm(
        x.stmt.test) == 'count > param_index']
    w = norm(valnum.subst(ctx, f, adv[0], adv[0].stmt.value)) if adv else ''
    ok = len(adv) == 1 and len(par) == 1 and len(tst) == 1 and (
        w in WIDTHS) and isinstance(adv[0].stmt.op, ast.Add)
    lf = linform(par[0].stmt.value, par[0], rd) if ok else None
    ok = ok and lf == {'param_index': 1, 'count': -1, w: 1}
    rep.check(
        ok, C, 'Circuit.get_param_location:offset', f.path, f.lineno,
        'offset inside the operation = index - (count - W)',
        f'the operation-local offset is `{norm(par[0].stmt.value) if par else "?"}` '
        f'(linear form {lf}); expected param_index - (count - W)',
        key='offset',
    )
    ret = [x for x in g.nodes if isinstance(x.stmt, ast.Return)]
    rep.check(
        len(ret) == 1 and norm(ret[0].stmt.value) == (
            '(cycle, op.location[0], param)') and bool(tst)
        and g.edge_dominates(tst[0].id, 'true', ret[0].id), C,
        'Circuit.get_param_location:result', f.path, f.lineno,
        'returns (cycle, first qudit of the operation, offset) for the '
        'first operation whose cumulative count exceeds the index',
        'the returned location is not (cycle, op.location[0], param) under '
        '`count > param_index`', key='result',
    )
    n += 1
    # CircuitGate.get_qasm_gate_def formal numbering (range form)
    n += qasm_def_cursor(ctx, rep)
    rep.floor(C, n, 7, 'cursor walkers')
    # get_param / set_param / freeze_param go through get_param_location
    for name in ('get_param', 'set_param', 'freeze_param'):
        f = ctx.fn(f'{CIRC}:Circuit.{name}')
        rep.seen(f.qualname)
        t = norm(f.node)
        rep.count()
        rep.check(
            'cycle, qudit, param = self.get_param_location(param_index)'
            in t and ('self[cycle, qudit]' in t or '(cycle, qudit)' in t), C,
            f'Circuit.{name}', f.path, f.lineno,
            'addresses the parameter through get_param_location',
            'does not address the parameter through '
            'get_param_location(param_index)', key='via-location',
        )
    param_index_spaces(ctx, rep)


def param_index_spaces(ctx: Ctx, rep: Report) -> None:
    """IXT for parameter indices.  `get_param_location(g)` translates a
    circuit-wide parameter index g into (cycle, qudit, l) with l local to
    the operation.  The two index spaces must not be mixed: l may only
    index an operation's own parameter vector (`<op>.params[l]`, a copy of
    it, the key of with_frozen_params), and only a circuit-wide index may
    go to the Circuit methods that take one (those with a parameter called
    `param_index`).  For the first operation both numbers coincide, which
    is why a mix-up survives small tests."""
    X = 'IXT'
    circ = ctx.cls(f'{CIRC}:Circuit')
    global_sinks = {
        name for name, m in circ.methods.items()
        if 'param_index' in m.params}
    if 'get_param_location' not in global_sinks:
        raise AnalysisError('get_param_location(param_index) vanished')
    n = 0
    for name, f in sorted(circ.methods.items()):
        unpack = [
            s for s in ast.walk(f.node) if isinstance(s, ast.Assign)
            and isinstance(s.value, ast.Call)
            and norm(s.value.func) == 'self.get_param_location'
            and isinstance(s.targets[0], ast.Tuple)
            and len(s.targets[0].elts) == 3
            and isinstance(s.targets[0].elts[2], ast.Name)]
        for u in unpack:
            n += 1
            rep.count()
            local = u.targets[0].elts[2].id
            glob = {x.id for a in u.value.args for x in ast.walk(a)
                    if isinstance(x, ast.Name)}
            bad = []
            for c in ast.walk(f.node):
                if isinstance(c, ast.Call) and isinstance(
                        c.func, ast.Attribute) and norm(
                        c.func.value) == 'self' and (
                        c.func.attr in global_sinks) and c is not u.value:
                    if any(isinstance(x, ast.Name) and x.id == local
                           for a in c.args[:1] + [
                               k.value for k in c.keywords
                               if k.arg == 'param_index']
                           for x in ast.walk(a)):
                        bad.append(
                            f'line {c.lineno}: `{norm(c)}` passes the '
                            f'operation-local index `{local}` where a '
                            'circuit-wide parameter index is expected')
                if isinstance(c, ast.Subscript) and isinstance(
                        c.value, ast.Attribute) and c.value.attr == 'params' \
                        and norm(c.value.value) != 'self':
                    if any(isinstance(x, ast.Name) and x.id in glob
                           for x in ast.walk(c.slice)):
                        bad.append(
                            f'line {c.lineno}: `{norm(c)}` indexes an '
                            'operation\'s parameters with the circuit-wide '
                            'index')
            rep.check(
                not bad, X, f'Circuit.{name}:param-index', f.path, u.lineno,
                f'`{local}` (operation-local) and {sorted(glob)} '
                '(circuit-wide) are kept apart',
                '; '.join(bad) + ': for every operation but the first the '
                'wrong parameter is read or frozen', key='spaces',
            )
    rep.floor(X, n, 3, 'get_param_location call sites in Circuit')


def params_order(ctx: Ctx, rep: Report) -> int:
    """`Circuit.params` is the vector every consumer indexes (set_params,
    get_unitary(params), the native cost engine): it must be the
    concatenation of op.params in the *default iteration order* - the same
    walk the simulators use - not any other enumeration of the same
    operations (the cycle grid orders a cycle by lowest qudit, iteration by
    first location)."""
    C = 'CURSOR'
    f = ctx.fn(f'{CIRC}:Circuit.params')
    rep.seen(f.qualname)
    sources = []
    for n in ast.walk(f.node):
        if isinstance(n, (ast.For, ast.comprehension)):
            sources.append(norm(n.iter))
    reads = any(isinstance(x, ast.Attribute) and x.attr == 'params'
                and norm(x.value) != 'self' for x in ast.walk(f.node))
    ok = reads and bool(sources) and any(s in DEFAULT_ITERS for s in sources)
    odd = [s for s in sources if s not in DEFAULT_ITERS and (
        '_circuit' in s or 'reversed' in s or 'reverse=True' in s
        or '_dag' in s or 'sorted' in s)]
    rep.count()
    rep.check(
        ok and not odd, C, 'Circuit.params', f.path, f.lineno,
        'flat parameter vector = concatenation in default iteration order',
        'Circuit.params no longer concatenates op.params in the order of '
        f'`for op in self` (it enumerates {sources}): set_params, '
        'get_unitary(params) and the cost engine index the vector in '
        'iteration order, so parameters are attributed to the wrong '
        'operations', key='params',
    )
    return 1


def qasm_def_cursor(ctx: Ctx, rep: Report) -> int:
    """CircuitGate.get_qasm_gate_def numbers the formal parameters p0, p1,
    ... of the written gate body with the same running cursor discipline as
    the simulators: start at 0, name range(i, i + W) for the operation, then
    i += W exactly once per operation - whatever kind of operation it is
    (a nested block consumes formals too)."""
    C = 'CURSOR'
    f = ctx.fn('bqskit/ir/gates/circuitgate.py:CircuitGate.'
               'get_qasm_gate_def')
    g = ctx.cfg(f)
    rep.seen(f.qualname)
    loops = [x for x in g.nodes if x.kind == 'for' and norm(
        x.stmt.iter) == 'self._circuit' and norm(x.stmt.target) == 'op']
    rep.count(2)
    if len(loops) != 1:
        rep.fail(C, 'CircuitGate.get_qasm_gate_def:order', f.path, f.lineno,
                 'the body is not written by one walk `for op in '
                 'self._circuit` (default order)', key='order')
        return 0
    lp = loops[0]
    rep.ok(C, 'CircuitGate.get_qasm_gate_def:order', f.path, lp.lineno,
           'walks the inner circuit in default order')
    body = g.in_loop_body(lp)
    sums = {f'param_index + {w}' for w in WIDTHS}

    def _val(x, e) -> str:
        return norm(valnum.subst(ctx, f, x, e))
    adv = [x for x in g.nodes if x.id in body and (
        (isinstance(x.stmt, ast.AugAssign) and isinstance(x.stmt.op, ast.Add)
         and norm(x.stmt.target) == 'param_index'
         and norm(x.stmt.value) in WIDTHS)
        # or spelled `i = i + W`, possibly through a temporary
        or (isinstance(x.stmt, ast.Assign) and x.kind == 'stmt'
            and norm(x.stmt.targets[0]) == 'param_index'
            and _val(x, x.stmt.value) in sums))]
    reads = [x for x in g.nodes if x.id in body and x not in adv and any(
        isinstance(s, ast.Call) and norm(s.func) == 'range'
        and len(s.args) == 2 and norm(s.args[0]) == 'param_index'
        and _val(x, s.args[1]) in sums
        for s in x.walk())]
    init = [d for d in ctx.rd(f).reaching(lp, 'param_index')
            if d.node.id not in body]
    st = [b for b, l in g.succ[lp.id] if l == 'iter']
    ok = bool(adv) and len(reads) == 1 and bool(st) and bool(init) and all(
        d.kind == 'assign' and norm(d.value) == '0' for d in init)
    why = (f'{len(reads)} read(s) of range(i, i + W), {len(adv)} advance(s)')
    if ok:
        once = g.must(lambda m: m in adv, start=st[0], ends={lp.id})
        twice = any(
            y.id in g.reach([x.id], blocked={lp.id}, include_starts=False)
            for x in adv for y in adv)
        late = any(
            reads[0].id in g.reach([x.id], blocked={lp.id},
                                   include_starts=False) for x in adv)
        ok = once and not twice and not late
        if not once:
            why += '; some kind of operation does not advance the cursor'
        if twice:
            why += '; the cursor can advance twice for one operation'
        if late:
            why += '; the cursor advances before the formals are named'
    rep.check(
        ok, C, 'CircuitGate.get_qasm_gate_def:slice', f.path, lp.lineno,
        'formals p[i : i+W] are named, then i += W, once per operation',
        'the formal-parameter cursor of the written gate body is not '
        f'(0; name range(i, i+W); i += W once per operation): {why} - later '
        'operations re-use the formals of earlier ones and the written '
        'gate denotes a different unitary', key='slice',
    )
    return 1


def _normalise_tensor(e: ast.AST, which: str) -> str:
    t = clone.text(e)
    t = t.replace('self.tensor.copy()', 'self.tensor')
    t = t.replace('(utry.dagger if inverse else utry)', 'M')
    t = t.replace('utry.dagger if inverse else utry', 'M')
    t = t.replace('cast(CircuitLocation, location)', 'location')
    return t


def clone_rule(ctx: Ctx, rep: Report) -> None:
    K = 'CLONE'
    for a, b in (('apply_right', 'eval_apply_right'),
                 ('apply_left', 'eval_apply_left')):
        fa = ctx.fn(f'{UB}:UnitaryBuilder.{a}')
        fb = ctx.fn(f'{UB}:UnitaryBuilder.{b}')
        rep.seen(fa.qualname, fb.qualname)
        ea = clone.straightline(fa.body)
        eb = clone.straightline(fb.body)
        if 'self.tensor' not in ea or '<return>' not in eb:
            raise AnalysisError(f'UnitaryBuilder.{a}/{b}: tensor chain '
                                'not found')
        ta = _normalise_tensor(ea['self.tensor'], a)
        rb = eb['<return>']
        # strip the trailing reshape((self.dim, self.dim)) of the eval clone
        if isinstance(rb, ast.Call) and isinstance(
            rb.func, ast.Attribute,
        ) and rb.func.attr == 'reshape' and norm(rb.args[0]) == (
            '(self.dim, self.dim)'
        ):
            rb = rb.func.value
        else:
            rep.fail(K, f'UnitaryBuilder.{b}', fb.path, fb.lineno,
                     'does not end by reshaping to (dim, dim)',
                     key='reshape')
        tb = _normalise_tensor(rb, b)
        rep.count()
        i = 0
        while i < min(len(ta), len(tb)) and ta[i] == tb[i]:
            i += 1
        rep.check(
            ta == tb, K, f'UnitaryBuilder.{a}~{b}', fb.path, fb.lineno,
            'the in-place contraction and its evaluating clone are the same '
            f'expression ({len(ta)} characters after substitution)',
            f'{a} and {b} contract differently; first difference: '
            f'`…{ta[max(0, i - 40):i + 60]}…` vs '
            f'`…{tb[max(0, i - 40):i + 60]}…`', key='clone',
        )
        # the eval clone must not write self.tensor
        wr = [n for n in ast.walk(fb.node) if isinstance(
            n, (ast.Assign, ast.AugAssign)) and any(
            norm(t) == 'self.tensor' for t in (
                n.targets if isinstance(n, ast.Assign) else [n.target]))]
        rep.count()
        rep.check(
            not wr and 'self.tensor.copy()' in norm(fb.node), K,
            f'UnitaryBuilder.{b}:pure', fb.path, fb.lineno,
            'the evaluating clone works on a copy and leaves the builder '
            'unchanged', 'the evaluating clone modifies self.tensor',
            key='pure',
        )
    # structural facts of the contraction that both clones share
    f = ctx.fn(f'{UB}:UnitaryBuilder.apply_right')
    env = clone.straightline(f.body)
    facts = {
        'left_perm': 'list(cast(CircuitLocation, location))',
        'right_perm': '[x + self.num_qudits for x in '
                      'range(self.num_qudits)]',
        'perm': None,
    }
    rep.count(3)
    rep.check(
        clone.text(env.get('left_perm', ast.Constant(0))) == (
            facts['left_perm']), K, 'UnitaryBuilder.apply_right:location',
        f.path, f.lineno,
        'the gate\'s qudits come first, in the order given by the location',
        'the location qudits are not moved to the front in location order',
        key='left-perm',
    )
    mid = clone.text(env.get('mid_perm', ast.Constant(0)))
    rep.check(
        mid == '[x for x in range(self.num_qudits) if x not in '
        + facts['left_perm'] + ']', K, 'UnitaryBuilder.apply_right:rest',
        f.path, f.lineno,
        'the remaining qudits follow in increasing order',
        f'the remaining qudits are ordered as `{mid}`', key='mid-perm',
    )
    ld = clone.text(env.get('left_dim', ast.Constant(0)))
    rep.check(
        ld == 'int(np.prod([self.radixes[x] for x in '
        + facts['left_perm'] + ']))', K, 'UnitaryBuilder.apply_right:dim',
        f.path, f.lineno,
        'left dimension = product of the radixes at the location',
        f'left dimension is `{ld}`', key='left-dim',
    )
    # StateVector.apply vs apply_right: same permutation construction
    sv = ctx.fn('bqskit/qis/state/state.py:StateVector.apply')
    rep.seen(sv.qualname)
    es = clone.straightline(sv.body)
    perm = clone.text(es.get('perm', ast.Constant(0)))
    rep.count()
    rep.check(
        perm == 'list(cast(CircuitLocation, location)) + [x for x in '
        'list(range(self.num_qudits)) if x not in cast(CircuitLocation, '
        'location)]', K, 'StateVector.apply:perm', sv.path, sv.lineno,
        'state application uses the same ordering (location first, rest '
        'increasing) as the unitary builder',
        f'StateVector.apply orders qudits as `{perm}`', key='state-perm',
    )
    _ = copy


def grad(ctx: Ctx, rep: Report) -> None:
    G = 'GRAD'
    f = ctx.fn(f'{CIRC}:Circuit.get_unitary_and_grad')
    g = ctx.cfg(f)
    rep.seen(f.qualname)
    # the three lists are appended together in every branch
    lp = [x for x in g.nodes if x.kind == 'for' and norm(
        x.stmt.iter) == 'self']
    if len(lp) != 1:
        raise AnalysisError('get_unitary_and_grad: collection loop')
    body = g.in_loop_body(lp[0])
    st = [b for b, l in g.succ[lp[0].id] if l == 'iter'][0]
    rep.count(5)
    ok = True
    for lst, val in (('matrices', 'M'), ('grads', 'dM'),
                     ('locations', 'op.location')):
        apps = [x for x in g.nodes if x.id in body and any(
            norm(c.func) == f'{lst}.append' and [norm(a) for a in c.args] == [
                val] for c in x.calls())]
        ok = ok and bool(apps) and g.must(
            lambda n, apps=apps: n in apps, start=st, ends={lp[0].id})
    rep.check(
        ok, G, 'Circuit.get_unitary_and_grad:collect', f.path, f.lineno,
        'every operation contributes its matrix, gradient and location, in '
        'step, on every path',
        'matrices / grads / locations are not appended together for every '
        'operation: the three parallel lists fall out of step',
        key='collect',
    )
    loops = [x for x in g.nodes if x.kind == 'for']
    z1 = [x for x in loops if norm(x.stmt.iter) == 'zip(matrices, locations)']
    z2 = [x for x in loops if norm(x.stmt.iter) == (
        'zip(matrices, grads, locations)')]
    ok = len(z1) == 1 and len(z2) == 1 and norm(
        z1[0].stmt.target) == '(M, loc)' and norm(
        z2[0].stmt.target) == '(M, dM, loc)'
    rep.check(
        ok, G, 'Circuit.get_unitary_and_grad:zip', f.path, f.lineno,
        'the parallel lists are zipped back in the order they were filled',
        'the parallel lists are not zipped consistently', key='zip',
    )
    if not ok:
        return
    b1 = g.in_loop_body(z1[0])
    pre = [x for x in g.nodes if x.id in b1 and any(
        norm(c.func) == 'right.apply_right' and [
            norm(a) for a in c.args] == ['M', 'loc'] for c in x.calls())]
    rep.check(
        len(pre) == 1 and z2[0].id in g.reach([z1[0].id]) and (
            z1[0].id not in g.reach([z2[0].id], include_starts=False)), G,
        'Circuit.get_unitary_and_grad:right', f.path, f.lineno,
        'the right partial product first holds the whole circuit',
        'the right partial product is not built from every operation '
        'before the gradient loop', key='right-init',
    )
    b2 = g.in_loop_body(z2[0])

    def one(pred):
        xs = [x for x in g.nodes if x.id in b2 and pred(x)]
        return xs[0] if len(xs) == 1 else None
    strip = one(lambda x: any(
        norm(c.func) == 'right.apply_left' and [norm(a) for a in c.args] == [
            'M', 'loc'] and any(k.arg == 'inverse' and norm(
                k.value) == 'True' for k in c.keywords) for c in x.calls()))
    read = one(lambda x: isinstance(x.stmt, ast.Assign) and norm(
        x.stmt.value) == 'right.get_unitary()')
    acc = one(lambda x: any(
        norm(c.func) == 'full_grads.append' and norm(c.args[0]) == (
            'right_utry @ left.eval_apply_right(grad, loc)')
        for c in x.calls()))
    ext = one(lambda x: any(
        norm(c.func) == 'left.apply_right' and [norm(a) for a in c.args] == [
            'M', 'loc'] for c in x.calls()))
    ok = all(v is not None for v in (strip, read, acc, ext))
    if ok:
        def before(a, b):
            return b.id in g.reach([a.id], blocked=[z2[0].id],
                                   include_starts=False)
        ok = before(strip, read) and before(read, acc) and before(
            acc, ext) and not before(ext, acc)
    rep.check(
        ok, G, 'Circuit.get_unitary_and_grad:product-rule', f.path, f.lineno,
        'per operation: remove it from the right product (inverse on the '
        'left), insert each derivative between left and right, then extend '
        'the left product',
        'the product-rule loop no longer strips the operation from the '
        'right product, forms right @ left.eval_apply_right(grad, loc) and '
        'then extends the left product, in that order', key='product-rule',
    )
    ret = [x for x in g.nodes if isinstance(x.stmt, ast.Return)]
    rep.check(
        len(ret) == 1 and norm(ret[0].stmt.value) == (
            '(left.get_unitary(), np.array(full_grads))'), G,
        'Circuit.get_unitary_and_grad:return', f.path, f.lineno,
        'returns (full left product, stacked gradients)',
        'does not return (left.get_unitary(), np.array(full_grads))',
        key='return',
    )
    gg = ctx.fn(f'{CIRC}:Circuit.get_grad')
    rep.count()
    rep.check(
        'return self.get_unitary_and_grad(params)[1]' in norm(gg.node), G,
        'Circuit.get_grad', gg.path, gg.lineno,
        'get_grad is component 1 of get_unitary_and_grad',
        'get_grad is not component 1 of get_unitary_and_grad', key='grad',
    )


def iters(ctx: Ctx, rep: Report) -> None:
    I = 'ITER'
    it = ctx.fn(f'{CIRC}:Circuit.__iter__')
    rv = ctx.fn(f'{CIRC}:Circuit.__reversed__')
    rep.seen(it.qualname, rv.qualname)
    rep.count(2)
    ti, tr = norm(it.node), norm(rv.node)
    rep.check(
        'CircuitIterator(self' in ti and 'reverse=True' not in ti, I,
        'Circuit.__iter__', it.path, it.lineno,
        'default iteration is the forward circuit iterator',
        'Circuit.__iter__ is no longer the forward CircuitIterator',
        key='iter',
    )
    rep.check(
        'reverse=True' in tr, I, 'Circuit.__reversed__', rv.path, rv.lineno,
        'reversed iteration asks for reverse=True',
        'Circuit.__reversed__ does not request reverse=True', key='reversed',
    )
