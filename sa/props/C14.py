"""C14 — A crashed worker or manager unblocks every waiting client with an
error.

Decided statically (DESIGN 4/C14):
  RECV  a connection-loss exception raised by a blocking receive/send inside
        a loop is never swallowed back into the loop: it propagates, or the
        handler that catches it reaches a terminating effect
  MUST  the reaction chain: disconnect -> (employee) shutdown -> every
        employee told and joined -> client connections closed -> client
        call raises; shutdown forwarded on every role
Crash points, timing and second crashes are not enumerated.
"""
from __future__ import annotations

import ast

from ..cfg import handler_names
from ..engine import Ctx
from ..report import Report
from ..rules import q
from ..rules import runtime as R
from ..source import AnalysisError
from ..source import norm

LOSS = {'EOFError', 'ConnectionResetError', 'OSError', 'Exception',
        'BaseException', 'ConnectionError', 'BrokenPipeError'}
TERMINATORS = (
    'self.handle_disconnect', 'self.handle_shutdown', 'os.kill', 'exit',
    'sys.exit', 'self.close',
)


def run(ctx: Ctx, rep: Report) -> None:
    rep.explanation = (
        'Static clauses of C14: every blocking receive / send on a '
        'connection inside a loop in bqskit/runtime and compiler.py is '
        'classified: a connection-loss exception either propagates out of '
        'the function or is caught by a handler that, on every path, '
        'reaches a terminating effect (disconnect handling, shutdown, '
        'self-kill, re-raise) (RECV); the reaction chain from a lost '
        'employee connection to a raised client-side error is present on '
        'every path of each link (MUST).'
    )
    rep.assumptions += [
        'multiprocessing.Connection.recv raises EOFError / '
        'ConnectionResetError when the peer is gone',
    ]
    recv_rule(ctx, rep)
    chain(ctx, rep)


def _conn_calls(f):
    """recv()/send() calls on something that looks like a connection."""
    out = []
    for c in ast.walk(f.node):
        if isinstance(c, ast.Call) and isinstance(c.func, ast.Attribute) \
                and c.func.attr in ('recv', 'send'):
            recv = norm(c.func.value)
            if 'conn' in recv.lower() or recv in (
                'outgoing[0]', 'self.upstream', 'client',
            ):
                out.append(c)
    return out


def _thread_targets(cls) -> set[str]:
    """Methods of cls started as `Thread(target=self.<m>, ...)`."""
    out = set()
    for m in cls.methods.values():
        for c in ast.walk(m.node):
            if isinstance(c, ast.Call) and norm(c.func) in (
                    'Thread', 'threading.Thread'):
                for k in c.keywords:
                    if k.arg == 'target' and isinstance(
                            k.value, ast.Attribute) and norm(
                            k.value.value) == 'self':
                        out.add(k.value.attr)
    return out


def recv_rule(ctx: Ctx, rep: Report) -> None:
    RV = 'RECV'
    n = 0
    handshakes = []
    for qual in (R.WORKER, R.BASE, R.DET, R.ATT, R.MGR, R.COMP, R.EMP):
        cls = ctx.cls(qual)
        for f in cls.methods.values():
            calls = _conn_calls(f)
            if not calls:
                continue
            g = ctx.cfg(f)
            for c in calls:
                nd = g.node_containing(c)
                if nd is None:
                    continue
                if nd.loop_depth == 0:
                    handshakes.append(f'{cls.name}.{f.name}:{c.lineno}')
                    continue
                n += 1
                rep.seen(f.qualname)
                rep.count()
                hs = [g.nodes[b] for b, lab in g.succ[nd.id] if lab == 'exc']
                catching = [h for h in hs if not handler_names(h.stmt)
                            or handler_names(h.stmt) & LOSS]
                qn = f'{cls.name}.{f.name}'
                what = f'`{norm(c)[:40]}`'
                # In a thread's main function an exception that is not
                # caught only ends that thread: the process stays alive and
                # deaf.  There, the handler must cover *every* way a dead
                # peer shows up: end of file and the OS-level resets.
                if f.name in _thread_targets(cls) and catching:
                    names = set().union(*[handler_names(h.stmt) for h in hs])
                    universal = any(not handler_names(h.stmt) for h in hs) \
                        or bool(names & {'Exception', 'BaseException'})
                    full = universal or (
                        'EOFError' in names
                        and bool(names & {'OSError', 'ConnectionError'}))
                    rep.count()
                    rep.check(
                        full, RV, qn + ':coverage', f.path, c.lineno,
                        f'{what}: the handler covers end-of-file and '
                        'OS-level connection loss',
                        f'{what} runs in the thread function {qn}, whose '
                        f'handler catches only {sorted(names)}: a connection '
                        'reset or broken pipe (OSError) escapes, ends the '
                        'thread without the terminating effect, and the '
                        'process stays alive without a receiver',
                        key='coverage',
                    )
                if not catching:
                    rep.ok(RV, qn, f.path, c.lineno,
                           f'{what}: connection loss propagates to the '
                           'caller')
                    continue
                stopped = [
                    m for m in g.nodes
                    if (q.assigns('self._running', 'False')(m)
                        or q.assigns('self.running', 'False')(m))
                    and not g.precedes(lambda x, m=m: x is m,
                                       lambda x: x is nd)
                ]
                if stopped:
                    rep.ok(RV, qn, f.path, c.lineno,
                           f'{what}: runs only after the loop flag was '
                           'cleared (the node is already stopping)')
                    continue
                bad = []
                for h in catching:
                    term = lambda m: any(
                        norm(x.func) in TERMINATORS for x in m.calls()
                    ) or isinstance(m.stmt, ast.Raise)
                    # from the handler entry, every path that re-enters the
                    # loop or leaves the function passes a terminator
                    loop_heads = {
                        x.id for x in g.nodes
                        if x.kind in ('for', 'test') and isinstance(
                            x.stmt, (ast.For, ast.While))
                    }
                    ends = loop_heads | {g.exit}
                    if not g.must(term, start=h.id, ends=ends):
                        path = g.witness(h.id, ends, g.ids(term))
                        bad.append(
                            f'handler at line {h.lineno} '
                            f'(`{h.text()}`) can return to the loop without '
                            'disconnect/shutdown/kill/raise: '
                            + q.path_text(path))
                rep.check(
                    not bad, RV, qn, f.path, c.lineno,
                    f'{what}: connection loss is caught and leads to a '
                    'terminating effect on every path',
                    f'{what}: ' + '; '.join(bad) + ' - a dead peer is '
                    'swallowed and the node keeps running in a damaged '
                    'state', key=norm(c.func),
                )
    rep.floor(RV, n, 4, 'blocking receives/sends inside loops')
    rep.extra['handshake_receives'] = handshakes


def chain(ctx: Ctx, rep: Report) -> None:
    M = 'MUST'

    def fn(qual, name):
        f = ctx.fn(f'{qual}.{name}')
        rep.seen(f.qualname)
        return f, ctx.cfg(f)

    # ServerBase.run: EOF -> handle_disconnect; finally shutdown
    f, g = fn(R.BASE, 'run')
    rv = [n for n in g.nodes if q.has_call('conn.recv', [])(n)]
    hs = [g.nodes[b] for n in rv for b, lab in g.succ[n.id] if lab == 'exc'
          and handler_names(g.nodes[b].stmt) & {'EOFError'}]
    rep.count(4)
    rep.check(
        len(rv) == 1 and len(hs) == 1 and {'EOFError',
                                            'ConnectionResetError'}
        <= handler_names(hs[0].stmt) and g.must(
            q.has_call('self.handle_disconnect', ['conn']), start=hs[0].id,
            ends={n.id for n in g.nodes if n.kind in ('for', 'test')}
            | {g.exit}), M, 'ServerBase.run:eof', f.path, f.lineno,
        'EOF / reset on any connection is routed to handle_disconnect(conn)',
        'EOFError/ConnectionResetError from conn.recv() is not routed to '
        'handle_disconnect(conn)', key='eof',
    )
    fin = [n for n in ast.walk(f.node) if isinstance(n, ast.Try)
           and n.finalbody]
    rep.check(
        len(fin) == 1 and any(
            isinstance(c, ast.Call) and norm(c.func) == 'self.handle_shutdown'
            for s in fin[0].finalbody for c in ast.walk(s)), M,
        'ServerBase.run:finally', f.path, f.lineno,
        'leaving the main loop always runs handle_shutdown()',
        'the main loop can be left without handle_shutdown() (no finally)',
        key='finally',
    )
    sig = [t for t in g.nodes if t.kind == 'test' and norm(
        t.stmt.test) == 'direction == MessageDirection.SIGNAL']
    rep.check(
        len(sig) == 1 and g.must(
            q.has_call('self.handle_shutdown', []),
            start=[b for b, l in g.succ[sig[0].id] if l == 'true'][0]), M,
        'ServerBase.run:signal', f.path, f.lineno,
        'the interrupt hotline triggers shutdown',
        'the SIGNAL direction does not trigger handle_shutdown', key='signal',
    )
    lp = [t for t in g.nodes if t.kind == 'test' and isinstance(
        t.stmt, ast.While)]
    rep.check(
        len(lp) == 1 and norm(lp[0].stmt.test) == 'self.running', M,
        'ServerBase.run:loop', f.path, f.lineno,
        'the loop ends when running is cleared',
        'the main loop is not controlled by self.running', key='loop',
    )
    # handle_disconnect
    f, g = fn(R.BASE, 'handle_disconnect')
    emp = [t for t in g.nodes if t.kind == 'test' and norm(
        t.stmt.test) == 'conn in self.conn_to_employee_dict']
    sd = [n for n in g.nodes if q.has_call('self.handle_shutdown', [])(n)]
    rep.count(2)
    rep.check(
        g.must(q.has_call('self.sel.unregister', ['conn'])) and g.must(
            q.has_call('conn.close', [])), M, 'ServerBase.handle_disconnect',
        f.path, f.lineno,
        'a lost connection is unregistered and closed (the selector cannot '
        'spin on it)', 'a lost connection is not unregistered and closed on '
        'every path', key='unregister',
    )
    rep.check(
        len(emp) == 1 and len(sd) == 1 and g.edge_dominates(
            emp[0].id, 'true', sd[0].id) and g.must(
            lambda n: n is sd[0],
            start=[b for b, l in g.succ[emp[0].id] if l == 'true'][0]), M,
        'ServerBase.handle_disconnect:employee', f.path, f.lineno,
        'losing an employee connection shuts the node down',
        'losing an employee (worker/manager) connection does not lead to '
        'handle_shutdown(): the runtime keeps waiting for results that '
        'can never arrive', key='employee-shutdown',
    )
    # handle_shutdown (base)
    f, g = fn(R.BASE, 'handle_shutdown')
    rep.count(4)
    rep.check(
        g.must(q.assigns('self.running', 'False')), M,
        'ServerBase.handle_shutdown:running', f.path, f.lineno,
        'running is cleared', 'running is not cleared', key='running',
    )
    for call in ('initiate_shutdown', 'complete_shutdown'):
        loops = [n for n in g.nodes if n.kind == 'for' and norm(
            n.stmt.iter) == 'self.employees' and any(
            q.has_call(f'{norm(n.stmt.target)}.{call}', [])(m)
            for m in g.nodes if m.id in g.in_loop_body(n))]
        rep.check(
            len(loops) == 1 and g.must(lambda n: n is loops[0]), M,
            f'ServerBase.handle_shutdown:{call}', f.path, f.lineno,
            f'every employee gets {call}()',
            f'not every employee gets {call}() on every path', key=call,
        )
    rep.check(
        g.must(q.has_call('self.sel.close', [])), M,
        'ServerBase.handle_shutdown:selector', f.path, f.lineno,
        'the selector is closed', 'the selector is not closed', key='sel',
    )
    wake = [n for n in g.nodes if q.has_call('self.outgoing.put')(n)]
    join = [n for n in g.nodes if q.has_call('self.outgoing_thread.join',
                                             [])(n)]
    alive = [t for t in g.nodes if t.kind == 'test' and norm(
        t.stmt.test) == 'self.outgoing_thread.is_alive()']
    rep.count()
    rep.check(
        len(wake) == 1 and len(join) == 1 and len(alive) == 1
        and not g.precedes(lambda n: n is wake[0], lambda n: n is join[0]),
        M, 'ServerBase.handle_shutdown:outgoing', f.path, f.lineno,
        'the outgoing thread is woken, then joined',
        'the outgoing thread is joined without being woken (deadlock) or '
        'never stopped', key='outgoing',
    )
    f, g = fn(R.BASE, 'send_outgoing')
    brk = [n for n in g.nodes if isinstance(n.stmt, ast.Break)]
    t = [x for x in g.nodes if x.kind == 'test' and norm(
        x.stmt.test) == 'self.running']
    rep.count()
    rep.check(
        len(t) == 1 and len(brk) >= 1 and g.edge_dominates(
            t[0].id, 'false', brk[0].id), M, 'ServerBase.send_outgoing:stop',
        f.path, f.lineno, 'the outgoing loop ends once running is cleared',
        'the outgoing loop cannot be stopped', key='stop',
    )
    # employee
    f, g = fn(R.EMP, 'initiate_shutdown')
    rep.count(2)
    rep.check(
        any(s.kind == 'SHUTDOWN' for s in R.sends_in(f, 'RuntimeEmployee')),
        M, 'RuntimeEmployee.initiate_shutdown', f.path, f.lineno,
        'employees are told SHUTDOWN', 'employees are not told SHUTDOWN',
        key='send',
    )
    f, g = fn(R.EMP, 'complete_shutdown')
    rep.check(
        g.must(q.has_call('self.conn.close', [])) and any(
            q.has_call('self.process.join', [])(n) for n in g.nodes), M,
        'RuntimeEmployee.complete_shutdown', f.path, f.lineno,
        'the employee process is joined and its connection closed',
        'the employee is not joined / its connection is not closed',
        key='complete',
    )
    # detached: close clients
    f, g = fn(R.DET, 'handle_shutdown')
    lp = [n for n in g.nodes if n.kind == 'for' and 'self.clients' in norm(
        n.stmt.iter)]
    rep.count(2)
    cl = [m for n in lp for m in g.nodes if m.id in g.in_loop_body(n)
          and q.has_call(f'{norm(n.stmt.target)}.close', [])(m)]
    rep.check(
        g.must(q.has_call('super().handle_shutdown', [])) and len(
            lp) == 1 and bool(cl) and g.must(lambda n: n is lp[0]), M,
        'DetachedServer.handle_shutdown', f.path, f.lineno,
        'base shutdown runs and every client connection is closed (so the '
        'client-side recv raises)',
        'server shutdown does not close every client connection: blocked '
        'clients wait forever', key='close-clients',
    )
    sup = [n for n in g.nodes if q.has_call('super().handle_shutdown',
                                            [])(n)]
    rep.check(
        bool(sup) and bool(lp) and not g.precedes(
            lambda n: n in sup, lambda n: n is lp[0]), M,
        'DetachedServer.handle_shutdown:order', f.path, f.lineno,
        'employees are shut down before client connections are closed',
        'client connections are closed before the base shutdown', key='order',
    )
    # the listener thread loops `while self.running`; the base shutdown is
    # what clears that flag, so waking and joining the listener before it
    # leaves the listener blocked in accept() again and the join never
    # returns: the shutdown, and with it every waiting client, hangs
    joins = [n for n in g.nodes if q.has_call('self.listen_thread.join',
                                              [])(n)]
    rep.count()
    rep.check(
        bool(sup) and bool(joins) and not g.precedes(
            lambda n: n in sup, lambda n: n in joins), M,
        'DetachedServer.handle_shutdown:listener', f.path, f.lineno,
        'the running flag is cleared (base shutdown) before the listener '
        'thread is joined',
        'the listener thread is joined on a path that has not yet run the '
        'base shutdown: its loop condition `self.running` is still true, '
        'it re-enters accept() and the join blocks for ever',
        key='listener-order',
    )
    # manager: forward upstream
    f, g = fn(R.MGR, 'handle_shutdown')
    rep.count()
    up = [s for s in R.sends_in(f, 'Manager') if s.kind == 'SHUTDOWN']
    rep.check(
        g.must(q.has_call('super().handle_shutdown', [])) and len(up) == 1,
        M, 'Manager.handle_shutdown', f.path, f.lineno,
        'a manager shuts its subtree down and tells its boss',
        'a manager does not forward SHUTDOWN upstream (the server never '
        'learns that a subtree died)', key='upstream',
    )
    # attached
    f, g = fn(R.ATT, 'handle_disconnect')
    rep.count()
    rep.check(
        g.must(q.has_call('self.handle_shutdown', [])), M,
        'AttachedServer.handle_disconnect', f.path, f.lineno,
        'any disconnect in attached mode is a shutdown',
        'a disconnect in attached mode does not shut the server down',
        key='attached',
    )
    # SHUTDOWN branches
    for qual, direction in ((R.DET, 'BELOW'), (R.MGR, 'ABOVE')):
        d = [x for x in R.dispatchers(ctx.fn(qual + '.handle_message'))
             if x.direction == direction][0]
        b = d.branch('SHUTDOWN')
        rep.count()
        rep.check(
            b is not None and any(
                isinstance(c, ast.Call) and norm(
                    c.func) == 'self.handle_shutdown'
                for s in b.body for c in ast.walk(s)), M,
            f'{qual.split(":")[1]}.{direction}:SHUTDOWN', d.fn.path,
            b.lineno if b else d.fn.lineno,
            'SHUTDOWN from a peer shuts this node down',
            'SHUTDOWN from a peer is not acted upon', key='shutdown-branch',
        )
    # worker
    f, g = fn(R.WORKER, 'recv_incoming')
    d = R.dispatchers(f)[0]
    b = d.branch('SHUTDOWN')
    rep.count(2)
    rep.check(
        b is not None and any(
            isinstance(c, ast.Call) and norm(c.func) == 'os.kill'
            for s in b.body for c in ast.walk(s)), M,
        'Worker.recv_incoming:SHUTDOWN', f.path, b.lineno if b else 0,
        'a worker told to shut down kills itself',
        'a worker ignores SHUTDOWN', key='worker-shutdown',
    )
    f, g = fn(R.WORKER, '_loop')
    hs = [n for n in g.nodes if n.kind == 'except' and norm(
        n.stmt.type) == 'Exception']
    err = [s for s in R.sends_in(f, 'Worker') if s.kind == 'ERROR']
    rep.check(
        bool(hs) and g.must(q.assigns('self._running', 'False'),
                            start=hs[0].id) and len(err) == 1, M,
        'Worker._loop', f.path, f.lineno,
        'an internal worker error stops the worker and is reported upward',
        'an internal worker error is swallowed', key='worker-loop',
    )
    # every override of handle_disconnect still reaches the base version,
    # which is where "one of my employees is gone" becomes a shutdown
    for qual in (R.DET, R.ATT, R.MGR):
        c = ctx.cls(qual)
        m = c.methods.get('handle_disconnect')
        if m is None:
            continue
        gm = ctx.cfg(m)
        rep.seen(m.qualname)
        rep.count()
        rep.check(
            gm.must(q.either(
                q.has_call('super().handle_disconnect', ['conn']),
                q.has_call('self.handle_shutdown', [])),
                ends={gm.exit}), M,
            f'{c.name}.handle_disconnect:base', m.path, m.lineno,
            'the override reaches ServerBase.handle_disconnect on every '
            'path',
            f'{c.name}.handle_disconnect can return without calling '
            'super().handle_disconnect(conn): the loss of a worker / '
            'manager connection is then never turned into a shutdown and '
            'the waiting clients are not told', key='override-base',
        )
    # client
    for meth in ('_send_recv', '_send'):
        f, g = fn(R.COMP, meth)
        hs = [n for n in g.nodes if n.kind == 'except' and norm(
            n.stmt.type) == 'Exception']
        rep.count()
        ok = len(hs) == 1 and g.must(
            q.assigns('self.conn', 'None'), start=hs[0].id,
            ends={g.exit, g.raise_exit}) and g.must(
            lambda n: isinstance(n.stmt, ast.Raise), start=hs[0].id,
            ends={g.exit}) and not (
            g.exit in g.reach([hs[0].id]))
        rep.check(
            ok, M, f'Compiler.{meth}', f.path, f.lineno,
            'a closed / broken server connection becomes RuntimeError in '
            'the client call',
            'a failure of the server connection can return normally from '
            'the client call (no exception): the caller sees a hang or a '
            'wrong value', key='client-raise',
        )
    f, g = fn(R.DET, 'handle_error')
    t = [x for x in g.nodes if x.kind == 'test' and norm(
        x.stmt.test) == 'isinstance(error_payload, tuple)']
    rep.count()
    rep.check(
        len(t) == 1 and g.must(
            q.has_call('self.handle_shutdown', []),
            start=[b for b, l in g.succ[t[0].id] if l == 'false'][0],
            ends={g.exit, g.raise_exit}, labels_off=['assert-fail']), M,
        'DetachedServer.handle_error:system', f.path, f.lineno,
        'an internal error bubbling up from a worker shuts the server down',
        'an internal (non task) error from below does not shut the server '
        'down', key='system-error',
    )
    _ = AnalysisError
