"""PERMDIR — a renumbering applies the permutation in one direction
everywhere (part of C04 / C05).

`Circuit.renumber_qudits(perm)` moves qudit q to position perm[q].  Every
view of the circuit is rewritten in that sense, in one of two spellings that
must not be confused:

  source-indexed       the *new key / new element position* is computed from
                       the old one:   {perm[q]: ... for q, ... in old.items()}
                       CircuitLocation([perm[q] for q in op.location])
  destination-indexed  a sequence is rebuilt position by position, and
                       position q of the result takes the old entry that
                       moves there:   old[perm.index(q)] for q in range(n)

Using perm[q] where perm.index(q) is due (or the reverse) applies the inverse
permutation to that one view - identical for involutions (a single swap,
disjoint swaps), so only a 3-cycle shows it.  The rule classifies every use
of the permutation inside renumber_qudits by its context and reports a use
in the wrong direction.
"""
from __future__ import annotations

import ast

from ..engine import Ctx
from ..report import Report
from ..source import norm

R = 'PERMDIR'
CIRC = 'bqskit/ir/circuit.py'


def _range_var(gen: ast.comprehension | ast.For) -> str | None:
    """Loop variable of `for q in range(...)`."""
    it = gen.iter
    if isinstance(it, ast.Call) and norm(it.func) == 'range' and isinstance(
            gen.target, ast.Name):
        return gen.target.id
    return None


def permdir(ctx: Ctx, rep: Report) -> None:
    f = ctx.fn(f'{CIRC}:Circuit.renumber_qudits')
    rep.seen(f.qualname)
    # the name the permutation list goes by inside the function
    perm = None
    for st in ast.walk(f.node):
        if isinstance(st, ast.Assign) and isinstance(
                st.targets[0], ast.Name) and isinstance(
                st.value, ast.ListComp) and norm(
                st.value.generators[0].iter) == 'qudit_permutation':
            perm = st.targets[0].id
    perm = perm or 'qudit_permutation'
    n = 0
    # destination-indexed rebuilds: comprehension / loop over range(...)
    for node in ast.walk(f.node):
        gens = []
        if isinstance(node, (ast.ListComp, ast.GeneratorExp, ast.SetComp)):
            gens = [(g, node.elt) for g in node.generators]
        for g, elt in gens:
            v = _range_var(g)
            if v is None:
                continue
            fwd = [x for x in ast.walk(elt) if isinstance(x, ast.Subscript)
                   and norm(x.value) == perm and norm(x.slice) == v]
            inv = [x for x in ast.walk(elt) if isinstance(x, ast.Call)
                   and norm(x.func) == f'{perm}.index' and [
                       norm(a) for a in x.args] == [v]]
            if not fwd and not inv:
                continue
            n += 1
            rep.count()
            rep.check(
                bool(inv) and not fwd, R,
                f'Circuit.renumber_qudits:dest:{norm(elt)[:40]}', f.path,
                node.lineno,
                f'position {v} of the rebuilt sequence takes the entry of '
                f'qudit {perm}.index({v})',
                f'`{norm(node)[:90]}` rebuilds a sequence position by '
                f'position but indexes the old one with `{perm}[{v}]`: that '
                'is the inverse renumbering (it coincides with the right one '
                'only for self-inverse permutations)', key='destination',
            )
    # source-indexed rewrites: keys / locations computed from old indices
    for node in ast.walk(f.node):
        if isinstance(node, ast.DictComp):
            srcs = {x.id for g in node.generators
                    for x in ast.walk(g.target) if isinstance(x, ast.Name)}
            inv = [x for x in ast.walk(node.key) if isinstance(x, ast.Call)
                   and norm(x.func) == f'{perm}.index']
            fwd = [x for x in ast.walk(node.key) if isinstance(
                x, ast.Subscript) and norm(x.value) == perm]
            if not fwd and not inv:
                continue
            n += 1
            rep.count()
            rep.check(
                bool(fwd) and not inv, R,
                f'Circuit.renumber_qudits:src:{norm(node.key)[:40]}', f.path,
                node.lineno,
                'the new key is the image of the old one',
                f'the key `{norm(node.key)}` of a rewritten map is computed '
                f'with `{perm}.index(...)`: the inverse renumbering',
                key='source',
            )
    rep.floor(R, n, 6, 'uses of the permutation in renumber_qudits')
