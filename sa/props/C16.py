"""C16 — Objects shipped between processes arrive equal to what was sent.

Decided statically (DESIGN 4/C16):
  FIELDS  field-complete copy / become / clear / copy-constructor
  REDUCE  Circuit.__reduce__ (writer) and rebuild_circuit (reader) agree on
          the shape of the pickled state; get/setstate are symmetric
  HASH    eq/hash consistency of every class that defines either
  REG     PassData reserved keys cover every reserved field
"""
from __future__ import annotations

import ast

from ..engine import Ctx
from ..report import Report
from ..rules import fields
from ..rules import hashrule
from ..source import AnalysisError
from ..source import norm

CIRC = 'bqskit/ir/circuit.py'


def run(ctx: Ctx, rep: Report) -> None:
    rep.explanation = (
        'Static clauses of C16: hand-written copy/become/clear methods and '
        'the CouplingGraph copy-constructor carry every instance field '
        'assigned in __init__ (FIELDS); the Circuit pickle writer and reader '
        'agree on tuple shapes, gate-table indexing and the dill/pickle '
        'flag, and Workflow/RuntimeFuture state methods are symmetric '
        '(REDUCE); every __eq__/__hash__ pair in bqskit/ is consistent and '
        'order independent (HASH). Equality of concrete round-tripped '
        'objects is not decided.'
    )
    rep.assumptions += [
        'instance fields = attributes assigned in the class\'s own __init__',
        'pickle/dill/copy.deepcopy behave as documented',
    ]
    circ = ctx.cls(f'{CIRC}:Circuit')
    pdata = ctx.cls('bqskit/compiler/passdata.py:PassData')
    n = 0
    n += fields.rule_become(ctx, rep, circ)
    n += fields.rule_copy(ctx, rep, circ)
    n += fields.rule_become(ctx, rep, pdata)
    n += fields.rule_copy(ctx, rep, pdata)
    n += clear_rule(ctx, rep, circ)
    n += copy_ctor(ctx, rep)
    rep.floor('FIELDS', n, 30, 'field obligations')
    # become(deepcopy=True) shares no nested container with its source
    from ..rules.deepbranch import rule_deep_branch
    rule_deep_branch(ctx, rep, circ)
    # cached singletons hand (args, kwargs) back to pickle
    from .cached_pickle import newargs
    newargs(ctx, rep)
    from .cached_pickle import cachekey
    cachekey(ctx, rep)
    # no equality (or any other test) compares a field with itself
    from ..rules.taut import rule_taut
    rule_taut(ctx, rep, ('bqskit/',), 1000)
    reserved(ctx, rep, pdata)
    reduce_rule(ctx, rep)
    state_rule(ctx, rep)
    classes = sorted(ctx.index.classes.values(), key=lambda c: c.qualname)
    k = hashrule.rule_hash(ctx, rep, classes)
    rep.floor('HASH', k, 25, 'classes defining __eq__/__hash__')


def clear_rule(ctx: Ctx, rep: Report, circ) -> int:
    f = circ.methods.get('clear')
    if f is None:
        raise AnalysisError('Circuit.clear vanished')
    rep.seen(f.qualname)
    g = ctx.cfg(f)
    mutable = [
        x for x in fields.init_fields(ctx, circ)
        if x not in ('_num_qudits', '_radixes')
    ]
    n = 0
    for field in sorted(mutable):
        n += 1
        rep.count()
        ok = g.must(lambda nd, field=field: isinstance(
            nd.stmt, ast.Assign) and any(
            norm(t) == f'self.{field}' for t in nd.stmt.targets))
        rep.check(
            ok, 'FIELDS', 'Circuit.clear', f.path, f.lineno,
            f'`{field}` is reset', f'`{field}` is not reset by clear(): the '
            'view keeps describing operations that are gone', key=field,
        )
    return n


def copy_ctor(ctx: Ctx, rep: Report) -> int:
    """CouplingGraph(graph: CouplingGraph): the early-return branch carries
    every attribute that the normal branch assigns."""
    f = ctx.fn('bqskit/qis/graph.py:CouplingGraph.__init__')
    rep.seen(f.qualname)
    g = ctx.cfg(f)
    tests = [t for t in g.nodes if t.kind == 'test' and norm(
        t.stmt.test) == 'isinstance(graph, CouplingGraph)']
    if not tests:
        raise AnalysisError('CouplingGraph.__init__: copy branch not found')
    t = tests[0]
    allf = fields.init_fields(ctx, ctx.cls('bqskit/qis/graph.py:CouplingGraph'))
    in_branch = set()
    for nd in g.nodes:
        if nd.kind == 'stmt' and isinstance(
            nd.stmt, (ast.Assign, ast.AnnAssign),
        ) and g.edge_dominates(t.id, 'true', nd.id):
            tg = nd.stmt.targets[0] if isinstance(
                nd.stmt, ast.Assign) else nd.stmt.target
            if isinstance(tg, ast.Attribute) and norm(tg.value) == 'self':
                v = nd.stmt.value
                if v is not None and norm(v) in (
                    f'graph.{tg.attr}',
                ):
                    in_branch.add(tg.attr)
    n = 0
    for field in sorted(allf):
        n += 1
        rep.count()
        rep.check(
            field in in_branch, 'FIELDS', 'CouplingGraph.__init__(copy)',
            f.path, t.lineno, f'`{field}` copied from the source graph',
            f'`{field}` is not copied in the copy-constructor branch: a '
            'graph built from another graph lacks it', key=field,
        )
    return n


def reserved(ctx: Ctx, rep: Report, pdata) -> None:
    """Every reserved PassData field is reachable through the mapping
    interface (update() iterates the keys)."""
    keys = pdata.class_attrs.get('_reserved_keys')
    if not isinstance(keys, (ast.List, ast.Tuple)):
        raise AnalysisError('PassData._reserved_keys is not a literal list')
    names = {e.value for e in keys.elts if isinstance(e, ast.Constant)}
    for field in sorted(fields.init_fields(ctx, pdata)):
        if field == '_data':
            continue
        rep.count()
        rep.check(
            field.lstrip('_') in names, 'REG', 'PassData._reserved_keys',
            pdata.path, keys.lineno,
            f'`{field.lstrip("_")}` is a reserved key (so update()/items() '
            'carry it)', f'field `{field}` has no reserved key: '
            'PassData.update() and iteration silently skip it', key=field,
        )
        has_prop = field.lstrip('_') in pdata.methods and (
            field.lstrip('_') + '.setter' in pdata.methods
        )
        rep.check(
            has_prop, 'REG', 'PassData.' + field.lstrip('_'), pdata.path,
            keys.lineno, 'has property + setter (used by __setitem__)',
            f'reserved key `{field.lstrip("_")}` has no property/setter: '
            '__getitem__/__setitem__ on it raise', key=field + ':prop',
        )
    rep.floor('REG', len(names), 7, 'reserved keys')


def reduce_rule(ctx: Ctx, rep: Report) -> None:
    R = 'REDUCE'
    w = ctx.fn(f'{CIRC}:Circuit.__reduce__')
    r = ctx.fn(f'{CIRC}:rebuild_circuit')
    rep.seen(w.qualname, r.qualname)
    # the returned pair
    rets = [n for n in ast.walk(w.node) if isinstance(n, ast.Return)]
    if len(rets) != 1 or not isinstance(rets[0].value, ast.Tuple):
        raise AnalysisError('Circuit.__reduce__: single tuple return expected')
    fn_e, data_e = rets[0].value.elts
    rep.count()
    rep.check(
        norm(fn_e) == 'rebuild_circuit', R, 'Circuit.__reduce__', w.path,
        rets[0].lineno, 'reconstructor is rebuild_circuit',
        f'reconstructor is `{norm(fn_e)}`', key='ctor',
    )
    data = None
    for n in ast.walk(w.node):
        if isinstance(n, ast.Assign) and norm(n.targets[0]) == norm(data_e):
            data = n.value
    if not isinstance(data, ast.Tuple):
        raise AnalysisError('Circuit.__reduce__: data tuple not found')
    want = ['self.num_qudits', 'self.radixes', 'serialized_gates',
            'pickle.dumps(cycles)']
    got = [norm(e) for e in data.elts]
    params = [p for p in r.params]
    rep.count()
    rep.check(
        got == want and len(params) == len(got), R, 'Circuit.__reduce__',
        w.path, data.lineno,
        f'state {got} matches rebuild_circuit{tuple(params)} positionally',
        f'state {got} does not match the reader\'s parameters {params} '
        f'(expected {want})', key='state-shape',
    )
    # marshalled op: writer triple, reader indices
    mop = None
    for n in ast.walk(w.node):
        if isinstance(n, ast.Assign) and norm(n.targets[0]) == 'marshalled_op':
            mop = n.value
    wtxt = [norm(e) for e in mop.elts] if isinstance(mop, ast.Tuple) else []
    reads = {}
    for n in ast.walk(r.node):
        if isinstance(n, ast.Assign) and isinstance(n.value, ast.Subscript) \
                and norm(n.value.value) == 'marshalled_op':
            reads[norm(n.targets[0])] = norm(n.value.slice)
        if isinstance(n, ast.Assign) and isinstance(n.value, ast.Subscript) \
                and norm(n.value.value) == 'gate_table' and isinstance(
                    n.value.slice, ast.Subscript):
            reads['gate'] = norm(n.value.slice.slice)
    ok = (
        len(wtxt) == 3 and wtxt[0] == 'gate_table[op.gate]'
        and wtxt[1].startswith('op.location') and wtxt[2] == 'op.params'
        and reads.get('gate') == '0' and reads.get('location') == '1'
        and reads.get('params') == '2'
    )
    rep.count()
    rep.check(
        ok, R, 'rebuild_circuit', r.path, r.lineno,
        'operation triple (gate index, location, params) is written and '
        'read in the same positions',
        f'writer emits {wtxt}; reader takes {reads}', key='op-shape',
    )
    # Operation(gate, location, params) in the reader, appended at cycle i
    ops = [c for c in ast.walk(r.node) if isinstance(c, ast.Call)
           and norm(c.func) == 'circuit._append']
    ok = bool(ops) and norm(ops[0].args[0]) == (
        'Operation(gate, location, params)'
    ) and len(ops[0].args) == 2
    cyc_var = norm(ops[0].args[1]) if ops and len(ops[0].args) == 2 else '?'
    loops = [lp for lp in ast.walk(r.node) if isinstance(lp, ast.For)
             and norm(lp.iter) == 'enumerate(cycles)']
    ok = ok and bool(loops) and isinstance(
        loops[0].target, ast.Tuple) and norm(
        loops[0].target.elts[0]) == cyc_var
    app = [c for c in ast.walk(r.node) if isinstance(c, ast.Call)
           and norm(c.func) == 'circuit._append_cycle']
    rep.count()
    rep.check(
        ok and bool(app), R, 'rebuild_circuit', r.path, r.lineno,
        'each pickled cycle becomes one new cycle holding its operations '
        '(cycle layout is preserved)',
        'the reader no longer re-creates one cycle per pickled cycle with '
        'Operation(gate, location, params) appended at that cycle index',
        key='cycle-layout',
    )
    # gate table: writer index = position in serialized list; flag agrees
    g = ctx.cfg(w)
    gate_loops = [n for n in g.nodes if n.kind == 'for'
                  and norm(n.stmt.iter) == 'self.gate_set']
    if not gate_loops:
        raise AnalysisError('__reduce__: loop over self.gate_set not found')
    gl = gate_loops[0]
    gv = norm(gl.stmt.target)
    body = g.in_loop_body(gl)
    idx_nodes = [n for n in g.nodes if n.id in body and isinstance(
        n.stmt, ast.Assign) and norm(n.stmt.targets[0]) == f'gate_table[{gv}]'
        and norm(n.stmt.value) == 'len(serialized_gates)']
    app_nodes = [n for n in g.nodes if n.id in body and any(
        norm(c.func) == 'serialized_gates.append' for c in n.calls())]
    # every append is preceded by the index assignment in the iteration
    order_ok = bool(idx_nodes) and bool(app_nodes) and all(
        a.id in g.reach([idx_nodes[0].id], blocked=[gl.id])
        and idx_nodes[0].id not in g.reach([a.id], blocked=[gl.id],
                                           include_starts=False)
        for a in app_nodes
    )
    rep.count()
    rep.check(
        order_ok, R, 'Circuit.__reduce__', w.path, gl.lineno,
        'gate table index = position of the gate in the serialized list, '
        'taken before the append',
        'gate table indices no longer equal positions in the serialized '
        'gate list (operations would be rebuilt with the wrong gate)',
        key='gate-index',
    )
    # flag: every append pushes (flag, dumps) with flag False<->pickle,
    # True<->dill; the reader branches on the flag the same way
    pairs = set()
    for a_ in app_nodes:
        for c in a_.calls():
            if norm(c.func) == 'serialized_gates.append' and c.args and (
                isinstance(c.args[0], ast.Tuple)
            ) and len(c.args[0].elts) == 2:
                fl, payload = c.args[0].elts
                lib = norm(payload.func).split('.')[0] if isinstance(
                    payload, ast.Call) else '?'
                pairs.add((norm(fl), lib))
    rg = ctx.cfg(r)
    rtests = [t for t in rg.nodes if t.kind == 'test']
    reader = set()
    for nd in rg.nodes:
        for c in nd.calls():
            f_ = norm(c.func)
            if f_ in ('dill.loads', 'pickle.loads') and c.args and norm(
                c.args[0]) == 'serialized_gate':
                for t in rtests:
                    if norm(t.stmt.test) == 'is_dill':
                        if rg.edge_dominates(t.id, 'true', nd.id):
                            reader.add(('True', f_.split('.')[0]))
                        if rg.edge_dominates(t.id, 'false', nd.id):
                            reader.add(('False', f_.split('.')[0]))
    rep.count()
    rep.check(
        pairs == {('False', 'pickle'), ('True', 'dill')} and reader == pairs,
        R, 'Circuit.__reduce__', w.path, w.lineno,
        'dill/pickle flag written and interpreted consistently',
        f'the (is_dill, bytes) flag is written as {sorted(pairs)} and read '
        f'as {sorted(reader)}', key='dill-flag',
    )
    rkeys = [n for n in rg.nodes if isinstance(n.stmt, ast.Assign) and norm(
        n.stmt.targets[0]).startswith('gate_table[')]
    rl = [n for n in rg.nodes if n.kind == 'for' and norm(
        n.stmt.iter) == 'enumerate(serialized_gates)']
    ok = bool(rkeys) and bool(rl) and isinstance(
        rl[0].stmt.target, ast.Tuple) and norm(
        rkeys[0].stmt.targets[0]) == (
        f'gate_table[{norm(rl[0].stmt.target.elts[0])}]')
    rep.count()
    rep.check(
        ok, R, 'rebuild_circuit', r.path, r.lineno,
        'reader keys the gate table by position in the serialized list',
        'reader no longer keys the gate table by position', key='gate-key',
    )
    # cycles are grouped by the cycle of operations_with_cycles
    ol = [n for n in g.nodes if n.kind == 'for' and norm(
        n.stmt.iter) == 'self.operations_with_cycles()']
    grp = False
    if ol and isinstance(ol[0].stmt.target, ast.Tuple):
        cv = norm(ol[0].stmt.target.elts[0])
        ob = g.in_loop_body(ol[0])
        newc = [n for n in g.nodes if n.id in ob and any(
            norm(c.func) == 'cycles.append' and c.args
            and isinstance(c.args[0], ast.List) and not c.args[0].elts
            for c in n.calls())]
        tests = [t for t in g.nodes if t.id in ob and t.kind == 'test'
                 and isinstance(t.stmt.test, ast.Compare)
                 and norm(t.stmt.test.left) == cv
                 and isinstance(t.stmt.test.ops[0], ast.NotEq)]
        addop = [n for n in g.nodes if n.id in ob and any(
            norm(c.func) == 'cycles[-1].append' for c in n.calls())]
        grp = bool(newc) and bool(tests) and bool(addop) and all(
            g.edge_dominates(tests[0].id, 'true', n.id) for n in newc
        ) and not any(
            g.edge_dominates(t.id, lab, addop[0].id)
            for t in tests for lab in ('true', 'false')
        )
        if grp:
            # the remembered cycle is updated under the same test
            last = norm(tests[0].stmt.test.comparators[0])
            upd = [n for n in g.nodes if n.id in ob and isinstance(
                n.stmt, ast.Assign) and norm(n.stmt.targets[0]) == last
                and norm(n.stmt.value) == cv]
            grp = bool(upd) and g.edge_dominates(
                tests[0].id, 'true', upd[0].id)
    rep.count()
    rep.check(
        grp, R, 'Circuit.__reduce__', w.path, w.lineno,
        'operations are grouped per cycle in cycle order (a new group '
        'starts exactly when the cycle changes)',
        'operations are no longer grouped by their cycle: the rebuilt '
        'circuit would have a different cycle layout', key='grouping',
    )


def state_rule(ctx: Ctx, rep: Report) -> None:
    R = 'REDUCE'
    wf = ctx.cls('bqskit/compiler/workflow.py:Workflow')
    gs, ss = wf.methods.get('__getstate__'), wf.methods.get('__setstate__')
    if gs is None or ss is None:
        raise AnalysisError('Workflow.__getstate__/__setstate__ vanished')
    rep.seen(gs.qualname, ss.qualname)
    a, b = norm(gs.node), norm(ss.node)
    rep.count()
    rep.check(
        'dill.dumps(self.__dict__' in a
        and 'self.__dict__.update(dill.loads(state))' in b, R, 'Workflow',
        wf.path, gs.lineno,
        '__getstate__ dumps the whole __dict__ and __setstate__ restores it',
        'Workflow state methods are no longer symmetric over __dict__',
        key='workflow-state',
    )
    fut = ctx.cls('bqskit/runtime/future.py:RuntimeFuture')
    g = fut.methods.get('__getstate__')
    if g is not None:
        rep.seen(g.qualname)
        rep.count()
        rep.check(
            'raise' in norm(g.node) or 'return' in norm(g.node), R,
            'RuntimeFuture.__getstate__', fut.path, g.lineno,
            'futures define an explicit pickling policy',
            'RuntimeFuture.__getstate__ is empty', key='future-state',
        )
