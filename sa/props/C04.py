"""C04 — Circuit editing calls have their documented effect on program order.

Decided statically (necessary structural clauses only, see DESIGN 4/C04):
  DUNDER    in-place operators return the receiver
  DEAD      documented result values are computed on live paths
  BATCHORD  batch editors visit points in an order that keeps indices valid
  SEQORD    composite editors emit operations in program order
            (insert-at-fixed-index loops iterate reversed; append loops
            forward; inverse reversed with per-op inverse; + and radd operand
            order), and map locations through the given location
"""
from __future__ import annotations

import ast

from ..engine import Ctx
from ..report import Report
from ..rules import small
from ..rules import valnum
from ..rules.linear import linform
from ..source import AnalysisError
from ..source import FunctionInfo
from ..source import norm

CIRC = 'bqskit/ir/circuit.py'
SHRINKERS = {
    'pop', 'pop_cycle', 'unfold', 'replace', 'replace_with_circuit',
    'remove', 'replace_gate',
}


def run(ctx: Ctx, rep: Report) -> None:
    rep.explanation = (
        'Structural clauses of C04 decided from the AST/CFG of '
        'bqskit/ir/circuit.py: in-place operators return self; result '
        'values are live; batch editors use an index-safe visiting order; '
        'composite editors (insert_circuit, append_circuit, get_inverse, '
        '+, radd, *, compress, unfold_all) emit operations in program '
        'order with locations mapped through the supplied location. The '
        'history-level statement (equality with a list-of-cycles model) is '
        'not decided.'
    )
    rep.assumptions += [
        'CPython ast; own CFG/reaching-definition engine',
        'Circuit.pop/pop_cycle may delete a cycle (read from circuit.py); '
        'therefore a loop calling them at several cycles must go downward '
        'or compensate',
    ]
    n = small.rule_dunder(ctx, rep)
    rep.floor('DUNDER', n, 2, 'in-place operator methods')

    circ = ctx.cls(f'{CIRC}:Circuit')
    n_dead = 0
    scope = list(circ.methods.values())
    if ctx.thorough:
        scope = [
            f for m in ctx.index.modules.values()
            if m.path.startswith('bqskit/ir/')
            for f in list(m.functions.values()) + [
                x for c in m.classes.values() for x in c.methods.values()
            ]
        ]
    for f in scope:
        rep.seen(f.qualname)
        n_dead += small.rule_dead_none_test(ctx, rep, f)
    rep.floor('DEAD', n_dead, 5, '`is None` tests over locals')

    batchord(ctx, rep, circ)
    seqord(ctx, rep)
    from . import circuit_extra
    circuit_extra.append_spec(ctx, rep)
    circuit_extra.insert_spec(ctx, rep)
    circuit_extra.straighten_shadow_spec(ctx, rep)
    # unfolding inlines the block with the operation's parameters
    from ..rules.paramflow import rule_paramflow
    for name in ('unfold', 'unfold_all'):
        rule_paramflow(ctx, rep, f'bqskit/ir/circuit.py:Circuit.{name}', {})
    # renumbering applies the permutation in one direction to every view
    from .permdir import permdir
    permdir(ctx, rep)
    # index conventions: out-of-range cycles, negative points, zero repeats
    from . import circuit_edit
    circuit_edit.oor(ctx, rep)
    circuit_edit.normpoint(ctx, rep)
    circuit_edit.imul(ctx, rep)
    circuit_edit.batchshift(ctx, rep)
    # by-value editing (remove, point, count) rests on Operation equality
    from ..rules.taut import rule_taut
    rule_taut(ctx, rep, ('bqskit/ir/',), 300)


# ---------------------------------------------------------------------------

def _self_call(c: ast.Call) -> str | None:
    f = c.func
    if isinstance(f, ast.Attribute) and isinstance(f.value, ast.Name) and (
        f.value.id == 'self'
    ):
        return f.attr
    return None


def batchord(ctx: Ctx, rep: Report, circ) -> None:
    """Loops over several positions that call a cycle-removing editor."""
    found = 0
    for f in circ.methods.values():
        g = ctx.cfg(f)
        rd = ctx.rd(f)
        for loop in [n for n in g.nodes if n.kind == 'for' or (
            n.kind == 'test' and isinstance(n.stmt, ast.While)
        )]:
            body = g.in_loop_body(loop)
            calls = []
            for nid in body:
                nd = g.nodes[nid]
                # only direct members of this loop (not of an inner loop)
                for c in nd.calls():
                    if _self_call(c) in SHRINKERS and c.args:
                        calls.append((nd, c))
            if not calls:
                continue
            for nd, c in calls:
                inner = [
                    l for l in g.nodes
                    if l.id in body and l.kind == 'for' and l is not loop
                    and nd.id in g.in_loop_body(l)
                ]
                if inner:
                    continue  # judged with the innermost loop
                found += 1
                rep.count()
                idiom, why = classify_batch(ctx, f, g, rd, loop, body, nd, c)
                qn = f'Circuit.{f.name}'
                rep.check(
                    idiom is not None, 'BATCHORD', qn, f.path, nd.lineno,
                    f'`{norm(c)[:60]}` in loop `{loop.text()[:60]}`: '
                    f'{idiom} ({why})',
                    f'`{norm(c)[:60]}` in loop `{loop.text()[:60]}` removes '
                    'cycles while later positions still refer to the old '
                    f'numbering: {why}',
                    key=f'{_self_call(c)}',
                )
    rep.floor('BATCHORD', found, 4, 'batch-edit loops')


def classify_batch(ctx, f, g, rd, loop, body, nd, c):
    name = _self_call(c)
    pos = c.args[0]
    # (1) relookup: the position is found afresh in every iteration
    if name == 'remove':
        return 'relookup', 'remove() locates the operation itself'
    deps, defs = rd.closure(nd, pos)
    for d in defs:
        if d.node.id in body and d.value is not None and any(
            _self_call(x) == 'point' for x in ast.walk(d.value)
            if isinstance(x, ast.Call)
        ):
            return 'relookup', 'position recomputed by self.point() each time'
    if any(_self_call(x) == 'point' for x in ast.walk(pos)
           if isinstance(x, ast.Call)):
        return 'relookup', 'position recomputed by self.point() each time'
    if loop.kind != 'for':
        return None, 'while-loop without a fresh lookup of the position'
    direction, base = small.loop_iter_info(loop.stmt)
    # resolve a name to its defining expression(s)
    base_defs = []
    if isinstance(base, ast.Name):
        base_defs = [d for d in rd.reaching(loop, base.id)
                     if d.value is not None and not d.partial]
    srt = None
    cand = [base] + [d.value for d in base_defs[-1:]]
    for b in cand:
        if isinstance(b, ast.Call) and isinstance(b.func, ast.Name) and (
            b.func.id == 'sorted'
        ):
            srt = b
    if direction.endswith('-sorted'):
        srt = srt or loop.stmt.iter
        direction = direction.split('-')[0]
        # find the sorted() call in the iter expression
        for x in ast.walk(loop.stmt.iter):
            if isinstance(x, ast.Call) and isinstance(x.func, ast.Name) and (
                x.func.id == 'sorted'
            ):
                srt = x
    # (2) same cycle: every position shares one loop-invariant cycle
    if srt is None and base_defs:
        v = base_defs[-1].value
        if isinstance(v, ast.ListComp) and isinstance(v.elt, ast.Tuple):
            cyc = v.elt.elts[0]
            bound = {x.id for gen in v.generators
                     for x in ast.walk(gen.target) if isinstance(x, ast.Name)}
            if not ({x.id for x in ast.walk(cyc)
                     if isinstance(x, ast.Name)} & bound):
                return 'same-cycle', (
                    f'all positions lie in cycle `{norm(cyc)}`'
                )
    # (2b) ascending by construction: a filtered copy of range(a, b), walked
    # through reversed(): latest cycle first
    if srt is None and base_defs:
        v = base_defs[-1].value
        if (
            isinstance(v, ast.ListComp) and len(v.generators) == 1
            and isinstance(v.generators[0].iter, ast.Call)
            and norm(v.generators[0].iter.func) == 'range'
            and len(v.generators[0].iter.args) <= 2
            and norm(v.elt) == norm(v.generators[0].target)
            and direction == 'reversed'
            and norm(pos) == norm(loop.stmt.target)
        ):
            return 'descending', (
                'a filtered range walked backwards: latest cycle first'
            )
    if srt is None:
        return None, (
            'the positions are not visited in sorted order '
            f'(iterating `{norm(loop.stmt.iter)[:50]}`)'
        )
    sorted_desc = any(
        k.arg == 'reverse' and isinstance(k.value, ast.Constant)
        and k.value.value for k in srt.keywords
    )
    descending = (direction == 'reversed') != sorted_desc
    if not sort_key_is_cycle(srt, loop, pos, nd, rd):
        return None, 'the sort key is not the cycle component of the position'
    if descending:
        return 'descending', 'latest cycle first; earlier indices stay valid'
    # (3) ascending with compensation
    cyc_expr = cycle_component(pos, nd, rd)
    if cyc_expr is None:
        return None, 'ascending order and no recognisable compensation term'
    lf = linform(cyc_expr[0], cyc_expr[1], rd, in_loop=body | {loop.id})
    if lf is None:
        return None, 'ascending order and a non-linear position expression'
    cur = [k for k in lf if k.startswith('self.num_cycles@loop')]
    pre = [k for k in lf if k.endswith('@pre') and lf[k] == -1]
    if cur and lf[cur[0]] == 1 and pre:
        saved = pre[0].rsplit('@', 1)[0]
        sdefs = [d for d in rd.reaching(loop, saved)
                 if d.value is not None]
        if saved == 'self.num_cycles' or (
            sdefs and all(norm(d.value) == 'self.num_cycles' for d in sdefs)
        ):
            return 'compensated', (
                'ascending; position shifted by (cycles now - cycles before)'
            )
    # enumerate counter compensation: pos = x - i
    tgt = loop.stmt.target
    if (
        isinstance(loop.stmt.iter, ast.Call)
        and norm(loop.stmt.iter.func) == 'enumerate'
        and isinstance(tgt, ast.Tuple) and isinstance(tgt.elts[0], ast.Name)
    ):
        i = tgt.elts[0].id
        ks = [k for k in lf if k.split('@')[0] == i]
        if ks and lf[ks[0]] == -1 and name == 'pop_cycle':
            return 'compensated', (
                'ascending; one cycle vanishes per iteration and the '
                'enumerate counter is subtracted'
            )
    return None, (
        'ascending order but the position is not corrected by the number '
        f'of cycles removed so far (linear form {lf})'
    )


def cycle_component(pos, nd, rd):
    """(expr, node) of the cycle part of a position argument."""
    if isinstance(pos, ast.Tuple) and pos.elts:
        return pos.elts[0], nd
    if isinstance(pos, ast.Name):
        defs = [d for d in rd.reaching(nd, pos.id) if d.value is not None]
        if len(defs) == 1 and isinstance(defs[0].value, ast.Tuple):
            return defs[0].value.elts[0], defs[0].node
        if len(defs) == 1 and isinstance(defs[0].value, ast.Call) and (
            norm(defs[0].value.func) == 'CircuitPoint'
        ) and defs[0].value.args:
            return defs[0].value.args[0], defs[0].node
        if defs and all(d.kind == 'for' for d in defs):
            return pos, nd  # the loop variable is the (cycle, qudit) point
        return None
    return pos, nd  # pop_cycle(cycle_index - i)


def sort_key_is_cycle(srt, loop, pos, nd, rd) -> bool:
    """The sorted() key selects the component that the loop uses as cycle."""
    key = [k.value for k in srt.keywords if k.arg == 'key']
    tgt = loop.stmt.target
    it = loop.stmt.iter
    if isinstance(tgt, ast.Tuple) and isinstance(it, ast.Call) and (
        norm(it.func) == 'enumerate'
    ):
        tgt = tgt.elts[1]
    cyc = cycle_component(pos, nd, rd)
    if cyc is None:
        return False
    cyc_names = {x.id for x in ast.walk(cyc[0]) if isinstance(x, ast.Name)}
    if not key:
        # natural order of points/ints: tuple order starts with the cycle
        if isinstance(tgt, ast.Name):
            return True
        return isinstance(tgt, ast.Tuple) and isinstance(
            tgt.elts[0], ast.Name,
        ) and tgt.elts[0].id in cyc_names
    k = key[0]
    if not (isinstance(k, ast.Lambda) and len(k.args.args) == 1):
        return False
    # path of constant subscripts applied to the lambda argument
    path = []
    b = k.body
    while isinstance(b, ast.Subscript) and isinstance(b.slice, ast.Constant):
        path.append(b.slice.value)
        b = b.value
    if not (isinstance(b, ast.Name) and b.id == k.args.args[0].arg):
        return False
    path = path[::-1]
    # follow the same path through the loop target
    t = tgt
    used = []
    for p in path:
        if isinstance(t, ast.Tuple) and isinstance(p, int) and p < len(t.elts):
            t = t.elts[p]
            used.append(p)
        else:
            break
    rest = path[len(used):]
    if isinstance(t, ast.Name):
        # remaining path applies to the name: e.g. point[0]
        want = norm(t.id + ''.join(f'[{p}]' for p in rest))
        cyc_txt = {norm(x) for x in ast.walk(cyc[0])}
        if rest:
            return want in cyc_txt
        return t.id in cyc_names
    return False


# ---------------------------------------------------------------------------

def _loops(f: FunctionInfo) -> list[ast.For]:
    return [n for n in ast.walk(f.node) if isinstance(n, ast.For)]


def _calls_on(body, obj: str, meths: set[str]) -> list[ast.Call]:
    out = []
    for st in body:
        for c in ast.walk(st):
            if isinstance(c, ast.Call) and isinstance(
                c.func, ast.Attribute,
            ) and isinstance(c.func.value, ast.Name) and (
                c.func.value.id == obj and c.func.attr in meths
            ):
                out.append(c)
    return out


def seqord(ctx: Ctx, rep: Report) -> None:
    R = 'SEQORD'

    def fn(name: str) -> FunctionInfo:
        return ctx.fn(f'{CIRC}:Circuit.{name}')

    # insert_circuit: fixed index + reversed iteration
    f = fn('insert_circuit')
    rep.seen(f.qualname)
    ok_any = False
    for lp in _loops(f):
        ins = _calls_on(lp.body, 'self', {'insert'})
        if not ins:
            continue
        ok_any = True
        direction, base = small.loop_iter_info(lp)
        idx = ins[0].args[0] if ins[0].args else None
        bound = {x.id for x in ast.walk(lp.target) if isinstance(x, ast.Name)}
        assigned = {
            t.id for st in lp.body for x in ast.walk(st)
            if isinstance(x, (ast.Assign, ast.AugAssign))
            for t in ast.walk(x.targets[0] if isinstance(x, ast.Assign)
                              else x.target) if isinstance(t, ast.Name)
        }
        invariant = idx is not None and not (
            {x.id for x in ast.walk(idx) if isinstance(x, ast.Name)}
            & (bound | assigned)
        )
        rep.count()
        rep.check(
            (direction == 'reversed') == invariant and norm(base) == 'circuit',
            R, 'Circuit.insert_circuit', f.path, lp.lineno,
            'inserts at a fixed cycle index while iterating the source '
            'circuit in reverse (so program order is kept)',
            f'inserting at `{norm(idx) if idx is not None else "?"}` '
            f'({"loop-invariant" if invariant else "advancing"}) while '
            f'iterating `{norm(lp.iter)}` ({direction}) reverses the order '
            'of the inserted operations',
            key='insert-order',
        )
        _mapped_location(rep, f, lp, ins[0], R, 'insert_circuit')
    if not ok_any:
        raise AnalysisError('insert_circuit: insertion loop not found')

    # append_circuit: forward iteration, append
    f = fn('append_circuit')
    rep.seen(f.qualname)
    ok_any = False
    for lp in _loops(f):
        app = _calls_on(lp.body, 'self', {'append'})
        if not app:
            continue
        ok_any = True
        direction, base = small.loop_iter_info(lp)
        rep.count()
        rep.check(
            direction == 'forward' and norm(base) == 'circuit', R,
            'Circuit.append_circuit', f.path, lp.lineno,
            'appends the source circuit\'s operations in iteration order',
            f'appends while iterating `{norm(lp.iter)}` ({direction})',
            key='append-order',
        )
        _mapped_location(rep, f, lp, app[0], R, 'append_circuit')
    if not ok_any:
        raise AnalysisError('append_circuit: append loop not found')

    # get_inverse: reversed iteration + per-op inverse, appended
    f = fn('get_inverse')
    rep.seen(f.qualname)
    lps = _loops(f)
    if not lps:
        raise AnalysisError('get_inverse: loop not found')
    lp = lps[0]
    direction, base = small.loop_iter_info(lp)
    calls = [c for st in lp.body for c in ast.walk(st)
             if isinstance(c, ast.Call)]
    app = [c for c in calls if isinstance(c.func, ast.Attribute)
           and c.func.attr == 'append']
    inv = app and any(
        isinstance(x, ast.Call) and isinstance(x.func, ast.Attribute)
        and x.func.attr == 'get_inverse'
        and norm(x.func.value) == norm(lp.target)
        for x in ast.walk(app[0])
    )
    rep.count()
    rep.check(
        direction == 'reversed' and norm(base) == 'self' and bool(inv), R,
        'Circuit.get_inverse', f.path, lp.lineno,
        'appends op.get_inverse() for the operations in reverse order',
        f'iterates `{norm(lp.iter)}` ({direction}) and appends '
        f'`{norm(app[0].args[0]) if app and app[0].args else "?"}`: the '
        'result does not compose with the original to the identity',
        key='inverse-order',
    )

    # + / radd / * / += : operand order of append_circuit calls
    for name, want in (
        ('__add__', ['self', 'rhs']), ('__radd__', ['lhs', 'self']),
        ('__iadd__', ['rhs']),
    ):
        f = fn(name)
        rep.seen(f.qualname)
        seq = []
        for st in f.body:
            for c in ast.walk(st):
                if isinstance(c, ast.Call) and isinstance(
                    c.func, ast.Attribute,
                ) and c.func.attr == 'append_circuit' and c.args:
                    seq.append(norm(c.args[0]))
                    loc_ok = len(c.args) > 1 and norm(c.args[1]) in (
                        'list(range(self.num_qudits))',
                        'range(self.num_qudits)',
                        'tuple(range(self.num_qudits))',
                    )
                    rep.count()
                    rep.check(
                        loc_ok, R, f'Circuit.{name}', f.path, c.lineno,
                        'operand appended on the identity location',
                        f'operand appended at `{norm(c.args[1]) if len(c.args) > 1 else "?"}`, not qudit i -> qudit i',
                        key='concat-location',
                    )
        rep.count()
        rep.check(
            seq == want, R, f'Circuit.{name}', f.path, f.lineno,
            f'appends operands in the order {want}',
            f'appends operands in the order {seq}, documented {want}',
            key='operand-order',
        )
    for name in ('__mul__', '__imul__'):
        f = fn(name)
        rep.seen(f.qualname)
        lps = _loops(f)
        ok = False
        why = 'no repetition loop'
        if lps:
            lp = lps[0]
            it = norm(lp.iter)
            want = 'range(rhs)' if name == '__mul__' else 'range(rhs - 1)'
            app = [c for st in lp.body for c in ast.walk(st)
                   if isinstance(c, ast.Call)
                   and isinstance(c.func, ast.Attribute)
                   and c.func.attr == 'append_circuit']
            ok = it == want and len(app) == 1
            why = f'loop `{it}` with {len(app)} append_circuit call(s)'
            if ok and name == '__imul__':
                # the appended operand must be a snapshot, not self
                a0 = app[0].args[0]
                ok = not (isinstance(a0, ast.Name) and a0.id == 'self')
                why += '; appends a copy taken before the loop' if ok else (
                    '; appends self to itself while it grows'
                )
        rep.count()
        rep.check(
            ok, R, f'Circuit.{name}', f.path, f.lineno,
            f'repeats the circuit rhs times ({why})',
            f'repetition count is off: {why}', key='repeat-count',
        )

    # compress / unfold_all: rebuild in iteration order
    for name in ('compress', 'unfold_all'):
        f = fn(name)
        rep.seen(f.qualname)
        good = False
        for lp in _loops(f):
            direction, base = small.loop_iter_info(lp)
            if norm(base) == 'self':
                good = direction == 'forward'
                rep.count()
                rep.check(
                    good, R, f'Circuit.{name}', f.path, lp.lineno,
                    'rebuilds the circuit in iteration order',
                    f'rebuilds while iterating `{norm(lp.iter)}`',
                    key='rebuild-order',
                )
        # the rebuilt circuit must be installed
        bec = [c for st in f.body for c in ast.walk(st)
               if isinstance(c, ast.Call) and norm(c.func) == 'self.become']
        rep.check(
            bool(bec), R, f'Circuit.{name}', f.path, f.lineno,
            'installs the rebuilt circuit with become()',
            'never installs the rebuilt circuit', key='rebuild-install',
        )

    # unfold: parameters of the block are applied before replacement
    f = fn('unfold')
    rep.seen(f.qualname)
    g = ctx.cfg(f)
    setp = lambda n: any(
        isinstance(c.func, ast.Attribute) and c.func.attr == 'set_params'
        and c.args and norm(c.args[0]) == 'op.params' for c in n.calls()
    )
    repl = lambda n: any(
        _self_call(c) == 'replace_with_circuit' for c in n.calls()
    )
    rep.count()
    rep.check(
        bool(g.where(repl)) and not g.precedes(setp, repl), R,
        'Circuit.unfold', f.path, f.lineno,
        'the block\'s stored parameters are written into its circuit '
        'before it replaces the block',
        'replace_with_circuit is reachable without set_params(op.params): '
        'the unfolded operations would keep stale parameters',
        key='unfold-params',
    )

    # replace_with_circuit: re-inserts at the popped op's own location/cycle
    f = fn('replace_with_circuit')
    rep.seen(f.qualname)
    ins = [c for st in f.body for c in ast.walk(st)
           if isinstance(c, ast.Call) and _self_call(c) == 'insert_circuit']
    # the popped operation, whatever the local is called, and temporaries
    popped = {
        s.targets[0].id for s in ast.walk(f.node)
        if isinstance(s, ast.Assign) and len(s.targets) == 1
        and isinstance(s.targets[0], ast.Name)
        and isinstance(s.value, ast.Call) and _self_call(s.value) == 'pop'
    }
    single = {}
    for s in ast.walk(f.node):
        if isinstance(s, ast.Assign) and len(s.targets) == 1 and isinstance(
                s.targets[0], ast.Name):
            single.setdefault(s.targets[0].id, []).append(s.value)

    def res(e):
        if isinstance(e, ast.Name) and len(single.get(e.id, [])) == 1:
            return norm(single[e.id][0])
        return norm(e)
    ok = bool(ins) and len(ins[0].args) >= 3 and (
        norm(ins[0].args[0]) in ('point[0]', 'point.cycle')
        and norm(ins[0].args[1]) == 'circuit'
        and res(ins[0].args[2]) in {f'{p}.location' for p in popped}
    )
    rep.count()
    rep.check(
        ok, R, 'Circuit.replace_with_circuit', f.path, f.lineno,
        're-inserts the circuit at the popped operation\'s cycle and '
        'location',
        're-inserts at `%s`' % (
            ', '.join(norm(a) for a in ins[0].args[:3]) if ins else '?'
        ), key='replace-location',
    )

    # fold: pops exactly the straightened region and inserts at its start
    f = fn('fold')
    rep.seen(f.qualname)
    g = ctx.cfg(f)
    st_ = lambda n: any(_self_call(c) == 'straighten' for c in n.calls())
    bp = lambda n: any(
        _self_call(c) == 'batch_pop' and c.args
        and norm(c.args[0]) == 'region.points' for c in n.calls()
    )
    # the block goes back as one CircuitGate: inserted at the region's first
    # cycle or, when that cycle is past the end after the pop (fix 4ebef7d),
    # appended
    ic = lambda n: any(
        (_self_call(c) == 'insert_circuit' and len(c.args) >= 4
         and (norm(c.args[0]) == 'region.min_cycle' or norm(
             valnum.subst(ctx, f, n, c.args[0])).endswith('.min_cycle'))
         and norm(c.args[3]) == 'True')
        or (_self_call(c) == 'append_circuit' and len(c.args) >= 3
            and norm(c.args[0]) == 'circuit'
            and norm(c.args[2]) == 'True')
        for c in n.calls()
    )
    rep.count()
    rep.check(
        g.must(st_) and g.must(bp) and g.must(ic)
        and not g.precedes(st_, bp) and not g.precedes(bp, ic), R,
        'Circuit.fold', f.path, f.lineno,
        'straighten -> batch_pop(region.points) -> insert_circuit('
        'region.min_cycle, ..., as_circuit_gate=True)',
        'fold no longer performs straighten, batch_pop(region.points) and '
        'insert_circuit(region.min_cycle, …, True) in that order',
        key='fold-sequence',
    )


def _mapped_location(rep, f, lp, call, rule, name) -> None:
    """Operation(op.gate, [location[q] for q in op.location], op.params)."""
    tgt = norm(lp.target)
    ops = [c for c in ast.walk(call) if isinstance(c, ast.Call)
           and norm(c.func) == 'Operation']
    if not ops:
        rep.fail(rule, f'Circuit.{name}', f.path, call.lineno,
                 'the inserted value is not a rebuilt Operation',
                 key='mapped-location')
        return
    op = ops[0]
    args = [norm(a) for a in op.args]
    # resolve a local name used as location
    loc = op.args[1] if len(op.args) > 1 else None
    if isinstance(loc, ast.Name):
        nm = loc.id
        for st in lp.body:
            if isinstance(st, ast.Assign) and norm(st.targets[0]) == nm:
                loc = st.value
    ok = (
        len(args) >= 3 and args[0] == f'{tgt}.gate'
        and args[2] == f'{tgt}.params'
        and isinstance(loc, ast.ListComp)
        and len(loc.generators) == 1
        and norm(loc.generators[0].iter) == f'{tgt}.location'
        and not loc.generators[0].ifs
        and norm(loc.elt) == f'location[{norm(loc.generators[0].target)}]'
    )
    rep.count()
    rep.check(
        ok, rule, f'Circuit.{name}', f.path, call.lineno,
        'each operation is rebuilt with its own gate and params at '
        'location[q] for q in op.location',
        f'rebuilt as Operation({", ".join(args)}) with location '
        f'`{norm(loc) if loc is not None else "?"}`',
        key='mapped-location',
    )
