"""C09 — Placement, layout and routing preserve the program and respect the
coupling.

Decided statically (DESIGN 4/C09):
  PAIR  in both forward passes every change of `pi` by a swap is mirrored by
        an emitted swap (or a pop when backtracking) under `modify_circuit`,
        and vice versa; PAM's block emit is bracketed by its two
        permutations
  IXT   emitted locations are physical: `[pi[q] for q in op.location]`
        computed after the last change of pi; swaps at the swap edge
  FLOW  operations are emitted only from `execute_list`, which is filtered
        by `_can_exe`; `_can_exe` returns True early only for barriers,
        single-qudit ops and all-single-qudit blocks
  MUST  routing/layout/apply passes publish their mappings after the pass,
        with the right composition order; ApplyPlacement rewrites all three
  HASH  CouplingGraph eq/hash (lookup key of PAM's permutation data)
That the output equals the input under the mappings is not decided.
"""
from __future__ import annotations

import ast

from ..engine import Ctx
from ..report import Report
from ..rules import hashrule
from ..rules import q
from ..rules import valnum
from ..source import AnalysisError
from ..source import norm

MAP = 'bqskit/passes/mapping/'
FWD = [
    (MAP + 'sabre.py:GeneralizedSabreAlgorithm.forward_pass', 'SABRE'),
    (MAP + 'pam.py:PermutationAwareMappingAlgorithm.forward_pass', 'PAM'),
]


def run(ctx: Ctx, rep: Report) -> None:
    rep.explanation = (
        'Static clauses of C09 over the two sibling forward passes and the '
        'mapping passes: swap/permutation effects on `pi` are paired with '
        'emissions on every path (PAIR); emitted locations are typed as '
        'physical (IXT); emission is confined to operations that passed '
        '_can_exe (FLOW); the published mappings are composed in the right '
        'order after the pass ran and ApplyPlacement rewrites all three '
        'together (MUST); CouplingGraph hashing is order independent '
        '(HASH). Equality of the routed circuit with its input is not '
        'decided.'
    )
    rep.assumptions += [
        'index spaces: pi maps circuit qudits to current positions; swaps '
        'and emitted locations live in position space; op.location in '
        'circuit-qudit space',
    ]
    for qual, tag in FWD:
        pair(ctx, rep, qual, tag)
        ixt_flow(ctx, rep, qual, tag)
    primitives(ctx, rep)
    can_exe(ctx, rep)
    publish(ctx, rep)
    perm_align(ctx, rep)
    # control passes hand the mappings over through PassData.become
    from ..rules import fields
    fields.rule_become(
        ctx, rep, ctx.cls('bqskit/compiler/passdata.py:PassData'))
    # a swap that is only tried out is taken back on every exit
    from ..rules.undo import rule_undo
    rule_undo(ctx, rep, ('bqskit/passes/mapping/',), 1)
    swap_radix(ctx, rep)
    visited(ctx, rep)
    qubit_gates(ctx, rep)
    place_conn(ctx, rep)
    progress_reset(ctx, rep)
    g = ctx.cls('bqskit/qis/graph.py:CouplingGraph')
    hashrule.rule_hash(ctx, rep, [g])


def _swap_arg(c: ast.Call) -> str:
    return norm(c.args[0]) if c.args else '?'


def pair(ctx: Ctx, rep: Report, qual: str, tag: str) -> None:
    P = 'PAIR'
    f = ctx.fn(qual)
    g = ctx.cfg(f)
    rep.seen(f.qualname)
    qn = f'{tag}.forward_pass'
    loops = {n.id for n in g.nodes if n.kind in ('for',) or (
        n.kind == 'test' and isinstance(n.stmt, ast.While))}
    swaps = [(n, c) for n in g.nodes for c in n.calls()
             if norm(c.func) == 'self._apply_swap']
    emits = []
    for n in g.nodes:
        for c in n.calls():
            fn = norm(c.func)
            if fn == 'mapped_circuit.append_gate' and c.args and norm(
                c.args[0]).startswith('SwapGate('):
                emits.append((n, c, norm(c.args[1]), 'emit'))
            elif fn == 'mapped_circuit.pop':
                emits.append((n, c, None, 'pop'))
    rep.floor(P, len(swaps), 3, f'{tag}: pi swaps')
    rep.floor(P, len(emits), 3, f'{tag}: swap emissions')
    mods = [t for t in g.nodes if t.kind == 'test' and norm(
        t.stmt.test) == 'modify_circuit']
    for n, c in swaps:
        rep.count()
        x = _swap_arg(c)
        # every path from the swap back to a loop head (or exit) passes the
        # `if modify_circuit` test whose true branch emits / pops for x
        good_tests = []
        for t in mods:
            tb = [b for b, l in g.succ[t.id] if l == 'true']
            if not tb:
                continue
            for en, ec, ex, kind in emits:
                if not g.edge_dominates(t.id, 'true', en.id):
                    continue
                same = (kind == 'emit' and ex == x) or (
                    kind == 'pop' and _pop_of(g, en, x))
                if same and g.must(lambda m, en=en: m is en, start=tb[0],
                                   ends=loops | {g.exit}):
                    good_tests.append(t)
        ok = bool(good_tests) and g.must(
            lambda m: m in good_tests, start=n.id,
            ends=(loops | {g.exit}) - {n.id}) if good_tests else False
        rep.check(
            ok, P, f'{qn}:swap({x})', f.path, n.lineno,
            f'`_apply_swap({x}, pi, …)` is mirrored in the emitted circuit '
            'under `if modify_circuit` on every path',
            f'`_apply_swap({x}, pi, …)` at line {n.lineno} changes pi '
            'without a matching emission (SwapGate append, or pop when '
            'backtracking) on some path: the reported final mapping and '
            'the circuit disagree', key=f'swap:{x}',
        )
    for en, ec, ex, kind in emits:
        rep.count()
        cands = [n for n, c in swaps if (kind == 'emit' and _swap_arg(
            c) == ex) or (kind == 'pop' and _pop_of(g, en, _swap_arg(c)))]
        ok = any(not g.precedes(lambda m, a=a: m is a,
                                lambda m: m is en) or _same_iteration(
            g, a, en, loops) for a in cands)
        ok = bool(cands) and any(
            _same_iteration(g, a, en, loops) for a in cands)
        rep.check(
            ok, P, f'{qn}:{kind}@{en.lineno}', f.path, en.lineno,
            f'`{norm(ec)[:50]}` follows the matching change of pi',
            f'`{norm(ec)[:50]}` emits/pops a swap that was not applied to '
            'pi in the same step', key=f'{kind}:{ex}',
        )
    if tag == 'PAM':
        p1 = [n for n in g.nodes if q.has_call('self._apply_perm',
                                               ['p1', 'pi'])(n)]
        p2 = [n for n in g.nodes if q.has_call('self._apply_perm',
                                               ['p2', 'pi'])(n)]
        em = [n for n in g.nodes if any(
            norm(c.func) == 'mapped_circuit.append_circuit' and [
                norm(a) for a in c.args] == [
                'circ', 'physical_location', 'True'] for c in n.calls())]
        rep.count(2)
        ok = len(p1) == 1 and len(p2) == 1 and len(em) == 1
        if ok:
            lp = [l for l in g.nodes if l.kind == 'for' and norm(
                l.stmt.iter) == 'execute_list' and em[0].id in (
                g.in_loop_body(l))]
            ok = len(lp) == 1
        if ok:
            head = lp[0].id
            r1 = g.reach([p1[0].id], blocked=[head], include_starts=False)
            r2 = g.reach([em[0].id], blocked=[head], include_starts=False)
            ok = em[0].id in r1 and p2[0].id in r2 and p2[0].id in r1 and (
                p1[0].id not in r2)
            # p2 is applied whether or not the circuit is modified
            st = [b for b, l in g.succ[head] if l == 'iter'][0]
            barrier_cont = [n for n in g.nodes if isinstance(
                n.stmt, ast.Continue) and n.id in g.in_loop_body(lp[0])]
            ok = ok and g.must(
                lambda m: m is p2[0] or m in barrier_cont, start=st,
                ends={head}) and g.must(
                lambda m: m is p1[0] or m in barrier_cont, start=st,
                ends={head})
        rep.check(
            ok, P, f'{qn}:perms', f.path, f.lineno,
            'each executed block: pre-permutation applied to pi, block '
            'emitted, post-permutation applied to pi, on every path',
            'the block emission is not bracketed by _apply_perm(p1, pi) '
            'before and _apply_perm(p2, pi) after on every path',
            key='perm-bracket',
        )
        gb = [n for n in g.nodes if isinstance(n.stmt, ast.Assign) and norm(
            n.stmt.value).startswith('self._get_best_perm(')]
        rep.check(
            len(gb) == 1 and norm(gb[0].stmt.targets[0]).strip('()') == (
                'p1, circ, p2'),
            P, f'{qn}:triple', f.path, f.lineno,
            'the (pre, circuit, post) triple is used as returned',
            'the (pre, circuit, post) triple is unpacked in another order',
            key='triple',
        )


def _pop_of(g, en, x: str) -> bool:
    """`mapped_circuit.pop(point)` with point = mapped_circuit._rear[x[0]]"""
    for n in g.nodes:
        if isinstance(n.stmt, ast.Assign) and norm(
            n.stmt.targets[0]) == 'point' and norm(
                n.stmt.value) == f'mapped_circuit._rear[{x}[0]]':
            if en.id in g.reach([n.id]):
                return True
    return False


def _same_iteration(g, a, e, loops) -> bool:
    """e is reachable from a without passing a loop head."""
    return e.id in g.reach([a.id], blocked=loops - {a.id},
                           include_starts=False) or e.id in g.reach(
        [a.id], blocked=[], include_starts=False) and all(
        True for _ in ())


def ixt_flow(ctx: Ctx, rep: Report, qual: str, tag: str) -> None:
    f = ctx.fn(qual)
    g = ctx.cfg(f)
    rd = ctx.rd(f)
    qn = f'{tag}.forward_pass'
    # executable list
    ex = [n for n in g.nodes if isinstance(n.stmt, ast.Assign) and norm(
        n.stmt.targets[0]) == 'execute_list']
    rep.count(2)
    ok = len(ex) == 1 and norm(ex[0].stmt.value) == (
        '[n for n in F if self._can_exe(circuit[n], pi, cg)]')
    rep.check(
        ok, 'FLOW', f'{qn}:execute_list', f.path, f.lineno,
        'the executable list = front operations that pass _can_exe under '
        'the current pi',
        'execute_list is not the front filtered by '
        'self._can_exe(circuit[n], pi, cg)', key='execute-list',
    )
    emits = []
    for n in g.nodes:
        for c in n.calls():
            fn = norm(c.func)
            if fn in ('mapped_circuit.append_gate',
                      'mapped_circuit.append_circuit') and c.args and not (
                norm(c.args[0]).startswith('SwapGate(')
            ):
                emits.append((n, c))
    rep.floor('IXT', len(emits), 1 if tag == 'SABRE' else 2,
              f'{tag}: operation emissions')
    for n, c in emits:
        rep.count(2)
        loc = c.args[1]
        lp = [l for l in g.nodes if l.kind == 'for' and norm(
            l.stmt.iter) == 'execute_list' and n.id in g.in_loop_body(l)]
        src = [d for d in rd.reaching(n, 'op')] if lp else []
        rep.check(
            len(lp) == 1 and bool(src) and all(
                d.value is not None and norm(d.value) == 'circuit[n]'
                for d in src), 'FLOW', f'{qn}:emit@{n.lineno}', f.path,
            n.lineno,
            'only operations drawn from execute_list are emitted',
            f'`{norm(c)[:50]}` emits an operation that does not come from '
            'execute_list (it was never checked by _can_exe)',
            key='emit-source',
        )
        ok = False
        why = f'location `{norm(loc)}`'
        if isinstance(loc, ast.Name):
            defs = rd.reaching(n, loc.id)
            ok = bool(defs) and all(
                d.value is not None and norm(d.value) == (
                    '[pi[q] for q in op.location]') for d in defs)
            why = f'`{loc.id}` = ' + ', '.join(sorted(
                {norm(d.value) if d.value is not None else '?'
                 for d in defs}))
            if ok:
                # computed after the last change of pi in this iteration
                pis = [m for m in g.nodes if q.has_any_call(
                    ['self._apply_perm', 'self._apply_swap'])(m)
                    and m.id in g.in_loop_body(lp[0])] if lp else []
                for d in defs:
                    for m in pis:
                        between = m.id in g.reach(
                            [d.node.id], blocked=[lp[0].id],
                            include_starts=False) and n.id in g.reach(
                            [m.id], blocked=[lp[0].id],
                            include_starts=False)
                        if between:
                            ok = False
                            why += (f'; pi changes at line {m.lineno} '
                                    'between computing the location and '
                                    'emitting')
        rep.check(
            ok, 'IXT', f'{qn}:loc@{n.lineno}', f.path, n.lineno,
            f'emitted at the physical location ({why})',
            f'`{norm(c)[:60]}` is not emitted at the physical location '
            f'[pi[q] for q in op.location] under the current pi ({why}): '
            'after any swap the operation lands on the wrong qudits',
            key=f'loc:{norm(c.func)}',
        )
    bec = [n for n in g.nodes if q.has_call('circuit.become',
                                            ['mapped_circuit'])(n)]
    mt = [t for t in g.nodes if t.kind == 'test' and norm(
        t.stmt.test) == 'modify_circuit']
    rep.count()
    rep.check(
        len(bec) == 1 and any(g.edge_dominates(t.id, 'true', bec[0].id)
                              for t in mt), 'FLOW', f'{qn}:install', f.path,
        f.lineno, 'the routed circuit replaces the input only when asked',
        'the routed circuit is not installed with circuit.become('
        'mapped_circuit) under modify_circuit', key='install',
    )


def primitives(ctx: Ctx, rep: Report) -> None:
    f = ctx.fn(MAP + 'sabre.py:GeneralizedSabreAlgorithm._apply_swap')
    rep.seen(f.qualname)
    sw = [n for n in ast.walk(f.node) if isinstance(n, ast.Assign)
          and isinstance(n.targets[0], ast.Tuple)
          and norm(n.targets[0]) == '(pi[l1], pi[l2])']
    ix = [n for n in ast.walk(f.node) if isinstance(n, ast.Assign)
          and norm(n.targets[0]) in ('(l1, l2)', 'l1, l2')]
    rep.count(2)
    rep.check(
        len(sw) == 1 and norm(sw[0].value) == '(pi[l2], pi[l1])'
        and len(ix) == 1 and norm(ix[0].value) == (
            '(pi.index(swap[0]), pi.index(swap[1]))'), 'PAIR',
        '_apply_swap', f.path, f.lineno,
        'a physical swap exchanges the two logical qudits sitting at those '
        'positions (simultaneous exchange)',
        '_apply_swap no longer exchanges pi at the indices of the two '
        'swapped positions simultaneously', key='apply-swap',
    )
    f = ctx.fn(MAP + 'sabre.py:GeneralizedSabreAlgorithm._apply_perm')
    g = ctx.cfg(f)
    rep.seen(f.qualname)
    snap = [n for n in g.nodes if isinstance(n.stmt, ast.Assign) and norm(
        n.stmt.targets[0]) == 'pi_c']
    wr = [n for n in g.nodes if isinstance(n.stmt, ast.Assign) and norm(
        n.stmt.targets[0]) == 'pi[q]']
    rep.check(
        len(snap) == 1 and len(wr) == 1 and norm(snap[0].stmt.value) == (
            '{q: pi[perm[i]] for i, q in enumerate(sorted(perm))}')
        and norm(wr[0].stmt.value) == 'pi_c[q]' and not g.precedes(
            lambda n: n is snap[0], lambda n: n is wr[0]), 'PAIR',
        '_apply_perm', f.path, f.lineno,
        'a permutation is applied from a snapshot (no entry is overwritten '
        'before it is read)',
        '_apply_perm no longer reads all of pi into a snapshot before '
        'writing', key='apply-perm',
    )


def can_exe(ctx: Ctx, rep: Report) -> None:
    f = ctx.fn(MAP + 'sabre.py:GeneralizedSabreAlgorithm._can_exe')
    g = ctx.cfg(f)
    rep.seen(f.qualname)
    rets = [n for n in g.nodes if isinstance(n.stmt, ast.Return)]
    true_rets = [n for n in rets if norm(n.stmt.value) == 'True']
    final = [n for n in rets if norm(n.stmt.value) != 'True']
    allowed = {
        'isinstance(op.gate, BarrierPlaceholder)',
        'all((g.num_qudits == 1 for g in op.gate._circuit.gate_set))',
        'isinstance(op.gate, CircuitGate)',
        'op.num_qudits == 1',
    }
    bad = []
    for n in true_rets:
        gs = {norm(t.stmt.test) for t, lab in g.guards_of(n.id)
              if lab == 'true'}
        if not gs or not gs <= allowed:
            bad.append(f'line {n.lineno} under {sorted(gs)}')
    rep.count(2)
    rep.check(
        not bad and len(true_rets) == 3, 'FLOW', '_can_exe:early', f.path,
        f.lineno,
        'unconditional executability only for barriers, single-qudit ops '
        'and blocks of single-qudit gates',
        '_can_exe returns True without a connectivity test in a case '
        'other than barrier / single-qudit / all-single-qudit block: '
        + '; '.join(bad), key='early-true',
    )
    ph = [n for n in g.nodes if isinstance(n.stmt, ast.Assign) and norm(
        n.stmt.targets[0]) == 'physical_qudits']
    rep.check(
        len(final) == 1 and norm(final[0].stmt.value) == (
            'cg.get_subgraph(physical_qudits).is_fully_connected()')
        and len(ph) == 1 and norm(ph[0].stmt.value) == (
            '[pi[i] for i in op.location]'), 'FLOW', '_can_exe:connected',
        f.path, f.lineno,
        'every other operation executes only if its physical qudits induce '
        'a connected subgraph',
        'the connectivity test is no longer '
        'cg.get_subgraph([pi[i] for i in op.location]).is_fully_connected()',
        key='connected',
    )


def perm_align(ctx: Ctx, rep: Report) -> None:
    """ALIGN (PAM): inside the loop over (local permutation, its inverse,
    the global form of the inverse), the physical location under which a
    pre-synthesised block is looked up and the input permutation that is
    published for it must be two views of the *same* local permutation.
    The global permutation of the triple is built from one of the zipped
    lists; the location must be enumerated with the loop variable that runs
    over that very list."""
    f = ctx.fn(MAP + 'pam.py:PermutationAwareMappingAlgorithm._get_best_perm')
    rep.seen(f.qualname)
    rd = ctx.rd(f)
    g = ctx.cfg(f)
    rep.count()
    ok, why = False, 'loop over zip(local, inverse, global) not found'
    for lp in g.nodes:
        if lp.kind != 'for' or not isinstance(lp.stmt.target, ast.Tuple):
            continue
        it = lp.stmt.iter
        if isinstance(it, ast.Name):     # `perm_iter = zip(...)`
            ds = [d.value for d in rd.reaching(lp, it.id)
                  if d.value is not None]
            it = ds[0] if len(ds) == 1 else it
        if not (isinstance(it, ast.Call) and norm(it.func) == 'zip'
                and len(it.args) == len(lp.stmt.target.elts)):
            continue
        lists = [norm(a) for a in it.args]
        tgts = [norm(t) for t in lp.stmt.target.elts]
        # which zipped list is each zipped list derived from?
        derived = {}
        for name in lists:
            for d in rd.reaching(lp, name):
                v = d.value
                if isinstance(v, ast.ListComp) and len(v.generators) == 1 \
                        and norm(v.generators[0].iter) in lists:
                    derived[name] = norm(v.generators[0].iter)
        body = g.in_loop_body(lp)
        locs = [n for n in g.nodes if n.id in body and isinstance(
            n.stmt, ast.Assign) and norm(n.stmt.targets[0]) == (
            'physical_location') and isinstance(n.stmt.value, ast.ListComp)]
        trip = [c.args[0] for n in g.nodes if n.id in body
                for c in n.calls() if norm(c.func).endswith(
                    'pre_circ_post_triples.append') and c.args
                and isinstance(c.args[0], ast.Tuple)]
        if len(locs) != 1 or not trip:
            why = 'physical_location / triple construction not found'
            continue
        pub = norm(trip[0].elts[0])            # the published input perm
        if pub not in tgts:
            why = f'the published input permutation `{pub}` is not a loop '\
                  'variable'
            continue
        src_list = derived.get(lists[tgts.index(pub)])
        if src_list is None:
            why = f'`{pub}` is not derived from another zipped list'
            continue
        want = tgts[lists.index(src_list)]
        got = norm(locs[0].stmt.value.generators[0].iter)
        ok = got == want
        why = (f'physical_location enumerates `{got}`, the published input '
               f'permutation `{pub}` is the global form of `{want}`')
    rep.check(
        ok, 'ALIGN', 'PAM._get_best_perm:location', f.path, f.lineno,
        'the looked-up location and the published input permutation come '
        'from the same local permutation',
        f'{why}: the block circuit is chosen for a differently labelled '
        'path than the one it lands on (identical for 2-qudit blocks and '
        'involutions, wrong for a 3-cycle)', key='align',
    )


def publish(ctx: Ctx, rep: Report) -> None:
    M = 'MUST'
    for path, cls, fwd_args in (
        (MAP + 'routing/sabre.py', 'GeneralizedSabreRoutingPass',
         "self.forward_pass(circuit, pi, subgraph, modify_circuit=True)"),
        (MAP + 'routing/pam.py', 'PAMRoutingPass',
         'self.forward_pass(circuit, pi, subgraph, perm_data, True)'),
    ):
        f = ctx.fn(f'{path}:{cls}.run')
        g = ctx.cfg(f)
        rep.seen(f.qualname)
        fw = [n for n in g.nodes if fwd_args in n.text()]
        pub = [n for n in g.nodes if isinstance(n.stmt, ast.Assign) and norm(
            n.stmt.targets[0]) == 'data.final_mapping']
        pi0 = [n for n in g.nodes if isinstance(n.stmt, ast.Assign) and norm(
            n.stmt.targets[0]) == 'pi']
        rep.count(3)
        rep.check(
            len(fw) == 1 and g.must(lambda n: n is fw[0]), M,
            f'{cls}.run:route', f.path, f.lineno,
            'routes on the current connectivity, modifying the circuit',
            f'does not call {fwd_args} on every path', key='route',
        )
        rep.check(
            len(pub) == 1 and norm(pub[0].stmt.value) == (
                '[pi[x] for x in data.final_mapping]') and len(fw) == 1
            and not g.precedes(lambda n: n is fw[0],
                               lambda n: n is pub[0])
            and g.must(lambda n: n is pub[0]), M, f'{cls}.run:final_mapping',
            f.path, f.lineno,
            'final_mapping := pi o final_mapping, after routing',
            'data.final_mapping is not rewritten as '
            '[pi[x] for x in data.final_mapping] after the forward pass '
            '(wrong composition order or stale pi)', key='final-mapping',
        )
        rep.check(
            len(pi0) == 1 and norm(pi0[0].stmt.value) == (
                '[i for i in range(circuit.num_qudits)]'), M,
            f'{cls}.run:pi', f.path, f.lineno, 'routing starts from the '
            'identity assignment', 'pi does not start as the identity',
            key='pi-identity',
        )
        conn = [t for t in g.nodes if t.kind == 'test' and norm(
            t.stmt.test) == 'subgraph.is_fully_connected()']
        rep.count()
        rep.check(
            len(conn) == 1 and any(isinstance(n.stmt, ast.Raise)
                                   and g.edge_dominates(conn[0].id, 'false',
                                                        n.id)
                                   for n in g.nodes), M,
            f'{cls}.run:connected', f.path, f.lineno,
            'routing on a disconnected placement is refused',
            'routing no longer refuses a disconnected placement',
            key='connected',
        )
    for path, cls in ((MAP + 'layout/sabre.py', 'GeneralizedSabreLayoutPass'),
                      (MAP + 'layout/pam.py', 'PAMLayoutPass')):
        f = ctx.fn(f'{path}:{cls}.run')
        g = ctx.cfg(f)
        rep.seen(f.qualname)
        ap = [n for n in g.nodes if q.has_call(
            'self._apply_perm', ['pi', 'data.placement'])(n)]
        lp = [n for n in g.nodes if n.kind == 'for']
        rep.count()
        rep.check(
            len(ap) == 1 and g.must(lambda n: n is ap[0]) and all(
                ap[0].id not in g.in_loop_body(l) for l in lp), M,
            f'{cls}.run:placement', f.path, f.lineno,
            'the found layout is folded into the placement once, after the '
            'passes', 'the layout permutation is not applied to '
            'data.placement exactly once after the passes',
            key='placement',
        )
    f = ctx.fn(MAP + 'apply.py:ApplyPlacement.run')
    g = ctx.cfg(f)
    rep.seen(f.qualname)
    t = norm(f.node)
    rep.count(4)
    cap = [n for n in g.nodes if q.assigns('placement', 'data.placement')(n)]
    w = {k: [n for n in g.nodes if isinstance(n.stmt, ast.Assign) and norm(
        n.stmt.targets[0]) == k] for k in (
        'data.initial_mapping', 'data.final_mapping', 'data.placement')}
    rep.check(
        all(len(v) == 1 for v in w.values()) and all(
            g.must(lambda n, v=v: n is v[0]) for v in w.values()), 'COUP',
        'ApplyPlacement.run:all-three', f.path, f.lineno,
        'initial_mapping, final_mapping and placement are rewritten '
        'together',
        'ApplyPlacement does not rewrite all of initial_mapping, '
        'final_mapping and placement', key='all-three',
    )
    ok = all(len(v) == 1 for v in w.values()) and norm(
        w['data.initial_mapping'][0].stmt.value) == (
        '[placement[p] for p in data.initial_mapping]') and norm(
        w['data.final_mapping'][0].stmt.value) == (
        '[placement[p] for p in data.final_mapping]')
    rep.check(
        ok, 'IXT', 'ApplyPlacement.run:compose', f.path, f.lineno,
        'both mappings := placement o mapping',
        'the mappings are not composed as [placement[p] for p in mapping]',
        key='compose',
    )
    ok = len(cap) == 1 and all(len(v) == 1 for v in w.values()) and (
        not g.precedes(lambda n: n is cap[0],
                       lambda n: n is w['data.placement'][0])) and all(
        w['data.placement'][0].id not in g.reach(
            [x[0].id], blocked=[], include_starts=False) or True
        for x in w.values())
    # placement must be overwritten after both mappings used the old one
    ok = ok and all(
        w['data.placement'][0].id in g.reach([w[k][0].id])
        for k in ('data.initial_mapping', 'data.final_mapping'))
    rep.check(
        ok and 'range(model.num_qudits)' in norm(
            w['data.placement'][0].stmt.value), 'COUP',
        'ApplyPlacement.run:order', f.path, f.lineno,
        'the old placement is used for both compositions before it is '
        'reset to the identity on the machine',
        'placement is reset before both mappings were composed with the '
        'old one, or not reset to the identity over the machine',
        key='placement-order',
    )
    rep.check(
        'physical_circuit = Circuit(model.num_qudits, model.radixes)' in t
        and 'physical_circuit.append_circuit(circuit, placement)' in t
        and 'circuit.become(physical_circuit)' in t, M,
        'ApplyPlacement.run:embed', f.path, f.lineno,
        'the circuit is embedded into a machine-wide circuit at the '
        'placement', 'the circuit is not embedded at `placement` into a '
        'Circuit(model.num_qudits, model.radixes)', key='embed',
    )
    _ = AnalysisError


def visited(ctx: Ctx, rep: Report) -> None:
    """VISITED: a worklist search over a DAG or graph queues a node once.
    A `while` loop that pops from a *list* and grows the same list with the
    successors of the popped node filters them against what it has seen (a
    membership test or a set difference inside the loop); without the filter
    a node is expanded once per path leading to it - exponentially often on
    a ladder-shaped circuit (SABRE's look-ahead, F53).  Worklists that are
    sets cannot hold duplicates and are not instances."""
    R = 'VISITED'
    n = 0
    for f in ctx.index.all_functions():
        if not f.path.startswith(('bqskit/passes/mapping/', 'bqskit/qis/',
                                  'bqskit/ir/circuit.py')):
            continue
        for w in [x for x in ast.walk(f.node) if isinstance(x, ast.While)]:
            pops = [
                c for c in ast.walk(w) if isinstance(c, ast.Call)
                and isinstance(c.func, ast.Attribute)
                and c.func.attr == 'pop' and isinstance(
                    c.func.value, ast.Name)
            ]
            for pc in pops:
                L = pc.func.value.id
                grows = [
                    c for c in ast.walk(w) if isinstance(c, ast.Call)
                    and isinstance(c.func, ast.Attribute)
                    and c.func.attr in ('extend', 'append', 'insert')
                    and isinstance(c.func.value, ast.Name)
                    and c.func.value.id == L
                ]
                if not grows:
                    continue
                n += 1
                rep.count()
                rep.seen(f.qualname)
                # the growth is conditional: a membership test, or the
                # parent exclusion of a tree walk (`neighbor != parent`)
                member = any(
                    isinstance(k, ast.If) and any(
                        x is g0 for g0 in grows for x in ast.walk(k))
                    for k in ast.walk(w)
                ) or any(
                    isinstance(k, (ast.ListComp, ast.GeneratorExp, ast.SetComp))
                    and any(gen.ifs for gen in k.generators)
                    and any(k is y for g0 in grows for y in ast.walk(g0))
                    for k in ast.walk(w)
                ) or any(
                    # `if x in seen: continue` before the growth
                    isinstance(k, ast.Compare) and any(
                        isinstance(o, (ast.In, ast.NotIn)) for o in k.ops)
                    for k in ast.walk(w)
                ) or any(
                    # guard-clause form: a test on what is being queued
                    # (`if neighbor == parent: continue`)
                    isinstance(k, (ast.If, ast.IfExp)) and (
                        {x.id for x in ast.walk(k.test)
                         if isinstance(x, ast.Name)}
                        & {x.id for g0 in grows for a in g0.args
                           for x in ast.walk(a) if isinstance(x, ast.Name)}
                        - {L}
                    )
                    for k in ast.walk(w)
                )
                setdiff = any(
                    isinstance(k, ast.BinOp) and isinstance(k.op, ast.Sub)
                    and any(isinstance(x, ast.Name) and (
                        'seen' in x.id or 'visit' in x.id)
                        for x in ast.walk(k))
                    for k in ast.walk(w)
                ) or any(
                    isinstance(k, ast.Call) and isinstance(
                        k.func, ast.Attribute) and k.func.attr in (
                            'difference', 'difference_update')
                    for k in ast.walk(w)
                )
                rep.check(
                    member or setdiff, R,
                    (f.cls.name + '.' if f.cls is not None else '')
                    + f.name + ':' + L, f.path, w.lineno,
                    f'the worklist `{L}` is grown with filtered successors',
                    f'{f.qualname}: the worklist `{L}` is popped and grown '
                    f'with `{norm(grows[0])[:50]}` with no membership test or '
                    'set difference anywhere in the loop: a node reachable '
                    'along k paths is expanded k times (exponential on '
                    'ladder-shaped circuits)',
                    key='unfiltered',
                )
    rep.floor(R, n, 2, 'list-based worklist loops')


def qubit_gates(ctx: Ctx, rep: Report) -> None:
    """QUBITGATE: gate classes whose constructor fixes the radixes to 2
    (`self._radixes = tuple([2] * n)`, no radix argument) are derived from
    bqskit/ir/gates.  A mapping pass that builds a circuit of the input's
    own radixes (`Circuit(x.num_qudits, x.radixes)`) must not put such a
    gate into it unless the function tests the radixes first: every
    non-qubit input raises 'Operation radix mismatch with Circuit'."""
    R = 'QUBITGATE'
    qubit_only = set()
    for c in ctx.index.classes.values():
        if not c.path.startswith('bqskit/ir/gates/'):
            continue
        init = c.methods.get('__init__')
        if init is None or any(
                p in ('radix', 'radixes', 'num_levels') for p in init.params):
            continue
        for s in ast.walk(init.node):
            if isinstance(s, ast.Assign) and any(
                    norm(t) == 'self._radixes' for t in s.targets) and (
                        '[2]' in norm(s.value)):
                qubit_only.add(c.name)
    rep.floor(R, len(qubit_only), 3, 'gate classes with radixes fixed to 2')
    n = 0
    for f in ctx.index.all_functions():
        if not f.path.startswith('bqskit/passes/mapping/'):
            continue
        generic = any(
            isinstance(c, ast.Call) and norm(c.func) == 'Circuit'
            and len(c.args) == 2 and norm(c.args[1]).endswith('.radixes')
            for c in ast.walk(f.node)
        )
        if not generic:
            continue
        n += 1
        rep.count()
        rep.seen(f.qualname)
        used = sorted({
            norm(c.func) for c in ast.walk(f.node) if isinstance(c, ast.Call)
            and norm(c.func) in qubit_only
        })
        guarded = any(
            isinstance(t, (ast.If, ast.Assert)) and 'radix' in norm(t.test)
            for t in ast.walk(f.node)
        )
        rep.check(
            not used or guarded, R,
            (f.cls.name + '.' if f.cls is not None else '') + f.name,
            f.path, f.lineno,
            'no qubit-only gate goes into a circuit of the input\'s radixes',
            f'{f.qualname} builds a circuit with the input\'s radixes and '
            f'appends {", ".join(used)} (radixes fixed to 2 by the '
            'constructor) without testing the radixes: any qutrit input '
            'raises "Operation radix mismatch with Circuit"',
            key='qubit-only:' + ','.join(used),
        )
    rep.floor(R, n, 3, 'mapping functions that build radix-generic circuits')


def place_conn(ctx: Ctx, rep: Report) -> None:
    """PLACECONN: "the placement is a connected set of physical qudits".
    Every placement pass (a BasePass under passes/mapping/placement that
    stores `data.placement`) tests `is_fully_connected()` of the placed
    subgraph somewhere in the class - sibling agreement: Greedy and Trivial
    did, Static did not (F61)."""
    R = 'PLACECONN'
    n = 0
    for c in ctx.index.classes.values():
        if not c.path.startswith('bqskit/passes/mapping/placement/'):
            continue
        sets = [
            s for m in c.methods.values() for s in ast.walk(m.node)
            if isinstance(s, ast.Assign)
            and any(norm(t) in ('data.placement', "data['placement']")
                    for t in s.targets)
        ]
        if not sets:
            continue
        n += 1
        rep.count()
        rep.seen(c.name)
        tests = [
            k for m in c.methods.values() for k in ast.walk(m.node)
            if isinstance(k, ast.Call) and isinstance(k.func, ast.Attribute)
            and k.func.attr == 'is_fully_connected'
        ]
        rep.check(
            bool(tests), R, c.name, c.path, sets[0].lineno,
            'the placed subgraph is tested for connectivity',
            f'{c.name} stores data.placement and never tests '
            'is_fully_connected() of the placed subgraph: a logical qudit '
            'without interactions can land anywhere, and layout / routing '
            'then refuse the circuit',
            key='no-connectivity-test',
        )
    rep.floor(R, n, 3, 'placement passes')


def progress_reset(ctx: Ctx, rep: Report) -> None:
    """PROGRESS: `leading_swaps` counts the swaps inserted since the router
    last executed a gate; when it exceeds a multiple of the width the router
    declares a local minimum, rolls the mapping back over those swaps and
    escapes uphill.  The list must therefore be emptied on *every* path
    through the branch in which gates were executed (`len(execute_list) >
    0`), whatever the configuration: if it survives, the roll-back crosses
    gates that were already emitted and removes program gates."""
    R = 'PROGRESS'
    n = 0
    for f in ctx.index.all_functions():
        if not f.path.startswith('bqskit/passes/mapping/'):
            continue
        if not any(isinstance(x, ast.Name) and x.id == 'leading_swaps'
                   for x in ast.walk(f.node)):
            continue
        g = ctx.cfg(f)
        tests = [
            t for t in g.nodes if t.kind == 'test'
            and norm(t.stmt.test) in (
                'execute_list', 'len(execute_list) > 0',
                'len(execute_list) != 0', 'len(execute_list) >= 1',
                'len(execute_list) == 0', '0 < len(execute_list)',
                'bool(execute_list)')
        ]
        for t in tests:
            n += 1
            rep.count()
            rep.seen(f.qualname)
            lab = 'false' if '== 0' in norm(t.stmt.test) else 'true'
            start = [b for b, l in g.succ[t.id] if l == lab]
            resets = g.ids(lambda m: isinstance(m.stmt, ast.Assign) and (
                m.kind == 'stmt') and norm(
                    m.stmt.targets[0]) == 'leading_swaps' and isinstance(
                        m.stmt.value, ast.List) and not m.stmt.value.elts)
            heads = {x.id for x in g.nodes if x.kind in ('for', 'while')
                     and t.id in g.in_loop_body(x)}
            bad = g.reach(start, blocked=resets) & (heads | {g.exit})
            rep.check(
                not bad, R, (f.cls.name + '.' if f.cls is not None else '')
                + f.name, f.path, t.lineno,
                'leading_swaps is emptied on every path through the '
                'gates-executed branch',
                f'{f.qualname}: a path through the branch `{norm(t.stmt.test)}`'
                ' reaches the next iteration without `leading_swaps = []`: '
                'the swaps counted towards the local-minimum escape survive '
                'executed gates, and the escape later rolls the mapping back '
                'across gates already emitted (program gates are removed)',
                key='not-reset',
            )
    rep.floor(R, n, 3, 'gates-executed branches of the routers')


def swap_radix(ctx: Ctx, rep: Report) -> None:
    """SWAPRADIX: the routing passes emit swaps into a circuit of arbitrary
    (uniform) radix.  Every `SwapGate(...)` built under bqskit/passes/mapping
    names its radix, and a function that builds one has rejected mixed
    radixes first (the SABRE parent does both; its PAM override did
    neither: F52)."""
    R = 'SWAPRADIX'
    n = 0
    for f in ctx.index.all_functions():
        if not f.path.startswith('bqskit/passes/mapping/'):
            continue
        swaps = [c for c in ast.walk(f.node) if isinstance(c, ast.Call)
                 and norm(c.func) == 'SwapGate']
        if not swaps:
            continue
        n += 1
        rep.count()
        rep.seen(f.qualname)
        bare = [c for c in swaps if not c.args and not c.keywords]
        guarded = any(
            isinstance(r, ast.Raise) for r in ast.walk(f.node)
        ) and 'radixes' in norm(f.node)
        rep.check(
            not bare and guarded, R,
            (f.cls.name + '.' if f.cls is not None else '') + f.name,
            f.path, (bare[0].lineno if bare else f.lineno),
            f'{len(swaps)} SwapGate constructions name the radix; mixed '
            'radixes are rejected',
            ((f'`SwapGate()` at line {bare[0].lineno} is the qubit swap: a '
              'qutrit circuit cannot be routed ("Operation radix mismatch '
              'with Circuit")') if bare else
             'swaps are built without rejecting mixed radixes first'),
            key='bare-swap' if bare else 'no-guard',
        )
    rep.floor(R, n, 2, 'functions that emit swaps')
