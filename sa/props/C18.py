"""C18 — Every library gate obeys the gate contract for all parameters.

Decided statically (DESIGN 4/C18):
  HASH      eq/hash consistency and order independence of all gate classes
  OVERRIDE  get_inverse / get_inverse_params are overridden together
  TRIAD     get_unitary, get_grad and get_unitary_and_grad of one class are
            the same expressions (sibling agreement after value numbering)
  GRADSHAPE hand-written gradient literals have one matrix per parameter
            and the same shape as the unitary literal
  SIBTEMP   temporaries shared by get_unitary / get_grad are defined equally
  GRADSYM   where both are written out over sin/cos/phases of the parameters,
            get_grad is the symbolic derivative of get_unitary entry by entry
  KRONFOLD, INSERTORD, ADJOINT, ATAN  (see the rule modules)
Numerical content beyond that (unitarity, derivatives of delegating or
expm-based gates, calc_params) is not decided.
"""
from __future__ import annotations

import ast

from ..engine import Ctx
from ..report import Report
from ..rules import hashrule
from ..rules import valnum
from ..source import ClassInfo
from ..source import norm


def gate_classes(ctx: Ctx) -> list[ClassInfo]:
    return sorted(
        (c for c in ctx.index.classes.values()
         if c.path.startswith('bqskit/ir/') and (
             ctx.index.is_subclass(c, 'Gate') or c.name == 'Gate')),
        key=lambda c: c.qualname,
    )


def run(ctx: Ctx, rep: Report) -> None:
    rep.explanation = (
        'Static clauses of C18 over every class under bqskit/ir/ that '
        'derives from Gate: eq/hash consistency (HASH), paired overrides of '
        'get_inverse/get_inverse_params (OVERRIDE), agreement of the three '
        'evaluation entry points after forward substitution (TRIAD), shape '
        'agreement of hand-written gradient literals (GRADSHAPE) and equal '
        'definitions of temporaries shared by sibling methods (SIBTEMP). '
        'Values of matrices and derivatives are not decided (the expression '
        'backend is a binary library).'
    )
    rep.assumptions += [
        'contract: get_unitary_and_grad(p) == (get_unitary(p), get_grad(p))',
        'openqudit expression objects are opaque',
    ]
    gates = gate_classes(ctx)
    rep.floor('HASH', len(gates), 85, 'gate classes')
    k = hashrule.rule_hash(ctx, rep, gates)
    rep.floor('HASH', k, 19, 'gate classes defining __eq__/__hash__')
    override(ctx, rep, gates)
    triad(ctx, rep, gates)
    gradshape(ctx, rep, gates)
    # hand-written gradients are the symbolic derivative of the unitary
    from ..rules.gradsym import rule_gradsym
    rule_gradsym(ctx, rep, gates, 4)
    # optimize(): magnitude-blind angles, partial calc_params
    from ..rules.optrule import rule_magblind
    from ..rules.optrule import rule_total
    rule_magblind(ctx, rep, gates, 6)
    rule_total(ctx, rep, gates, 3)
    # inverse trigonometry on matrix-derived values
    from ..rules.optrule import rule_degen
    from ..rules.optrule import rule_nandom
    rule_nandom(ctx, rep, ('bqskit/ir/gates/', 'bqskit/qis/'), 4)
    rule_degen(ctx, rep, gates, 5)
    embed_space(ctx, rep)
    # order-sensitive folds: tensor factors by qudit, inserts by index
    from ..rules.foldorder import rule_insertord
    from ..rules.foldorder import rule_kronfold
    rule_kronfold(ctx, rep, ('bqskit/ir/gates/', 'bqskit/qis/'), 3)
    rule_insertord(ctx, rep, ('bqskit/ir/',), 1)
    # get_grad and get_unitary_and_grad build the gradient the same way
    n = 0
    for c in gates:
        a, b = c.methods.get('get_grad'), c.methods.get(
            'get_unitary_and_grad')
        if a is None or b is None:
            continue
        da, db = _temps(a.node), _temps(b.node)
        shared = da.keys() & db.keys()
        if not shared:
            continue
        n += 1
        rep.count()
        diff = sorted(k for k in shared if da[k] != db[k])
        rep.check(
            not diff, 'SIBTEMP', f'{c.name}:grad', c.path, b.lineno,
            f'{len(shared)} temporaries shared by get_grad and '
            'get_unitary_and_grad are defined identically',
            f'{c.name}: get_grad and get_unitary_and_grad define the same '
            'temporaries differently: ' + '; '.join(
                f'{k}: `{da[k]}` vs `{db[k]}`' for k in diff)
            + ' - the two entry points return different gradients',
            key='grad-temps',
        )
    rep.floor('SIBTEMP', n, 2, 'gate classes writing the gradient twice')
    # an angle is recovered from (imag, real) with arctan2: np.arctan of a
    # quotient needs a hand-written quadrant correction, which is where the
    # boundary cases (zero imaginary part, zero or negative-zero real part)
    # get lost - U1Gate.optimize returned the worst angle for env[1,1] = -1
    rep.count()
    quot = [
        (path, c.lineno, norm(c))
        for path, mod in sorted(ctx.index.by_path.items())
        if path.startswith('bqskit/ir/gates/')
        for c in ast.walk(mod.tree)
        if isinstance(c, ast.Call) and norm(c.func) in (
            'np.arctan', 'math.atan', 'numpy.arctan')
        and c.args and isinstance(c.args[0], ast.BinOp)
        and isinstance(c.args[0].op, ast.Div)]
    rep.check(
        not quot, 'ATAN', 'angles from (imag, real)',
        quot[0][0] if quot else 'bqskit/ir/gates/', quot[0][1] if quot else 0,
        'no gate recovers an angle with arctan(b / a)',
        '; '.join(f'{p}:{ln} `{t}`' for p, ln, t in quot[:3])
        + ' recovers an angle from a quotient: the quadrant has to be '
        'patched by hand and the boundary cases (b == 0 with a < 0, a == 0) '
        'come out wrong; np.arctan2(b, a) is the total function',
        key=';'.join(t for _p, _l, t in quot[:3]) or 'none',
    )
    # composed gates adjoin (not transpose) what they hand to their inner gate
    from ..rules.adjoint import rule_adjoint
    rule_adjoint(ctx, rep, ('bqskit/ir/gates/',), 2)


def override(ctx: Ctx, rep: Report, gates: list[ClassInfo]) -> None:
    R = 'OVERRIDE'
    n = 0
    for c in gates:
        inv = c.methods.get('get_inverse')
        invp = c.methods.get('get_inverse_params')
        if inv is None and invp is None:
            continue
        if c.name == 'Gate':
            continue
        n += 1
        rep.seen(c.qualname)
        rep.count()
        if invp is not None and inv is None:
            inh = ctx.index.lookup_method(c, 'get_inverse')
            rep.check(
                inh is not None and inh.cls is not None
                and inh.cls.name != 'Gate', R, c.name, c.path, invp.lineno,
                'get_inverse_params overridden with an inherited custom '
                'get_inverse',
                'overrides get_inverse_params but keeps the default '
                'get_inverse (a DaggerGate wrapper): the wrapper would be '
                'given already-inverted parameters', key='params-only',
            )
            continue
        if inv is not None and invp is None:
            # returns an instance that needs different parameters?
            returns_own = any(
                isinstance(x, ast.Call) and norm(x.func) == c.name
                for x in ast.walk(inv.node)
            )
            parameterised = _is_parameterised(ctx, c)
            inh = ctx.index.lookup_method(c, 'get_inverse_params')
            wrapper = c.name in ('DaggerGate', 'PowerGate')
            rep.check(
                not (returns_own and parameterised) or wrapper or (
                    inh is not None and inh.cls is not None
                    and inh.cls.name != 'Gate'), R, c.name, c.path,
                inv.lineno,
                'get_inverse override needs no parameter transformation '
                '(constant gate or wrapper whose inverse takes the same '
                'parameters)',
                'get_inverse returns a gate of its own parameterised class '
                'but get_inverse_params is the identity default: the '
                '"inverse" with the same parameters is the gate itself',
                key='inverse-only',
            )
            continue
        # both overridden: arity of the returned list = distinct params used
        rets = [r for r in ast.walk(invp.node) if isinstance(r, ast.Return)]
        idx = set()
        for r in rets:
            if isinstance(r.value, (ast.List, ast.Tuple)):
                for x in ast.walk(r.value):
                    if isinstance(x, ast.Subscript) and norm(
                        x.value) == 'params' and isinstance(
                            x.slice, ast.Constant):
                        idx.add(x.slice.value)
                ln = len(r.value.elts)
                rep.check(
                    idx == set(range(ln)), R, c.name + ':arity', c.path,
                    r.lineno,
                    f'inverse parameters use every parameter once '
                    f'({ln} in, {ln} out)',
                    f'inverse parameter list has {ln} entries but reads '
                    f'params{sorted(idx)}', key='arity',
                )
    rep.floor(R, n, 3, 'classes overriding inverse methods')


def _is_parameterised(ctx: Ctx, c: ClassInfo) -> bool:
    v = ctx.index.lookup_class_attr(c, '_num_params')
    if isinstance(v, ast.Constant):
        return bool(v.value)
    return True


def triad(ctx: Ctx, rep: Report, gates: list[ClassInfo]) -> None:
    R = 'TRIAD'
    n = 0
    for c in gates:
        u = c.methods.get('get_unitary')
        g = c.methods.get('get_grad')
        ug = c.methods.get('get_unitary_and_grad')
        if ug is None or (u is None and g is None):
            continue
        rep.seen(ug.qualname)
        ug_rets = valnum.returns(ctx, ug)
        pairs = {}
        for guards, e, node in ug_rets:
            if isinstance(e, ast.Tuple) and len(e.elts) == 2:
                pairs[tuple(guards)] = (
                    valnum.canon(e.elts[0]), valnum.canon(e.elts[1]), node)
        for which, f, idx in (('get_unitary', u, 0), ('get_grad', g, 1)):
            if f is None:
                continue
            rep.seen(f.qualname)
            for guards, e, node in valnum.returns(ctx, f):
                txt = valnum.canon(e)
                key = tuple(guards)
                # delegation to the own triad member is consistent
                if txt in (
                    'self.get_unitary_and_grad(params)[%d]' % idx,
                    'self.get_unitary(params)' if idx == 0
                    else 'self.get_grad(params)',
                ):
                    n += 1
                    rep.count()
                    rep.ok(R, f'{c.name}.{which}', f.path, node.lineno,
                           'delegates to get_unitary_and_grad')
                    continue
                if key not in pairs:
                    continue  # branch structure differs: not comparable
                other = pairs[key][idx]
                if other in ('self.get_unitary(params)',
                             'self.get_grad(params)'):
                    n += 1
                    rep.count()
                    rep.ok(R, f'{c.name}.{which}', f.path, node.lineno,
                           'get_unitary_and_grad delegates to this method')
                    continue
                if _opaque(other) or _opaque(txt):
                    continue
                n += 1
                rep.count()
                rep.check(
                    other == txt, R, f'{c.name}.{which}', f.path,
                    node.lineno,
                    f'same expression as component {idx} of '
                    f'get_unitary_and_grad under {list(guards) or "no guard"}',
                    f'{which} returns `{_at_diff(txt, other)}` but '
                    'get_unitary_and_grad '
                    f'returns `{_at_diff(other, txt)}` as component {idx} under the '
                    f'same conditions {list(guards)}: the two entry points '
                    'disagree', key=f'{which}:{"&".join(guards)}',
                )
    rep.floor(R, n, 12, 'comparable return pairs')


def _at_diff(a: str, b: str, width: int = 90) -> str:
    """Window of `a` around the first position where it differs from b."""
    i = 0
    while i < min(len(a), len(b)) and a[i] == b[i]:
        i += 1
    lo = max(0, i - 30)
    return ('…' if lo else '') + a[lo:lo + width] + (
        '…' if lo + width < len(a) else '')


def _opaque(t: str) -> bool:
    """Only delegation-shaped expressions are compared: both sides must be
    built around an evaluation call on an inner object (`self.gate.get_…`,
    `self._circuit.get_…`).  Two independent numerical routes to the same
    matrix (expm vs dexpmv) are legitimately different texts."""
    import re
    return not re.search(
        r'(?<!self)\.(get_unitary|get_grad)\(', t.replace('self.get_', 'self#'),
    ) and t not in ('self.utry', 'np.array([])')


def embed_space(ctx: Ctx, rep: Report) -> None:
    """EMBEDSPACE: EmbeddedGate copies the entries of the inner gate's matrix
    (indexed in the inner gate's mixed-radix basis, `self.gate.radixes`) into
    a matrix of the embedding's own basis (`self.radixes`).  A flat index
    into the big matrix is a number in the *target* basis: whatever
    subscripts the destination must be computed from `self.radixes` (its
    strides), not from the inner gate's radixes alone - the two agree for
    single-qudit embeddings, which is all the tests embed."""
    R = 'EMBEDSPACE'
    f = ctx.fn('bqskit/ir/gates/composed/embedded.py:EmbeddedGate._map_matrix')
    rep.seen(f.qualname)
    dest = f.params[2] if len(f.params) > 2 else 'big'
    # names that flow into a subscript of the destination
    wanted: set[str] = set()
    for s in ast.walk(f.node):
        if isinstance(s, ast.Assign):
            for t in s.targets:
                if isinstance(t, ast.Subscript) and norm(t.value) == dest:
                    wanted |= {x.id for x in ast.walk(t.slice)
                               if isinstance(x, ast.Name)}
    srcs: list[ast.AST] = []
    seen: set[str] = set()
    todo = list(wanted)
    while todo:
        v = todo.pop()
        if v in seen:
            continue
        seen.add(v)
        for s in ast.walk(f.node):
            val = None
            if isinstance(s, ast.Assign) and any(
                    isinstance(t, ast.Name) and t.id == v
                    or isinstance(t, ast.Tuple) and any(
                        isinstance(e, ast.Name) and e.id == v for e in t.elts)
                    for t in s.targets):
                val = s.value
            elif isinstance(s, (ast.For, ast.comprehension)) and any(
                    isinstance(x, ast.Name) and x.id == v
                    for x in ast.walk(s.target)):
                val = s.iter
            if val is not None:
                srcs.append(val)
                todo += [x.id for x in ast.walk(val)
                         if isinstance(x, ast.Name)]
    target_radixes = any(
        isinstance(x, ast.Attribute) and x.attr == 'radixes'
        and norm(x.value) == 'self' for v in srcs for x in ast.walk(v)
    )
    rep.count()
    rep.check(
        bool(wanted) and target_radixes, R, 'EmbeddedGate._map_matrix',
        f.path, f.lineno,
        f'the index into `{dest}` is computed from self.radixes',
        f'the flat index that subscripts `{dest}` (through '
        f'{", ".join(sorted(seen & wanted)) or "?"}) is computed without '
        'self.radixes, the radixes of the embedding: with the inner gate\'s '
        'radixes as strides every multi-qudit embedding into larger radixes '
        'puts the entries on the wrong rows and columns',
        key='target-strides',
    )


def gradshape(ctx: Ctx, rep: Report, gates: list[ClassInfo]) -> None:
    R = 'GRADSHAPE'
    n = 0
    for c in gates:
        u = c.methods.get('get_unitary')
        g = c.methods.get('get_grad')
        if u is None or g is None:
            continue
        ulit = _matrix_literal(u.node, 'UnitaryMatrix')
        glit = _matrix_literal(g.node, 'np.array')
        if ulit is None or glit is None:
            continue
        n += 1
        rep.seen(u.qualname, g.qualname)
        rep.count()
        rows = len(ulit.elts)
        cols = {len(r.elts) for r in ulit.elts if isinstance(r, ast.List)}
        pidx = {
            x.slice.value for f in (u, g) for x in ast.walk(f.node)
            if isinstance(x, ast.Subscript) and norm(x.value) == 'params'
            and isinstance(x.slice, ast.Constant)
        }
        nparams = (max(pidx) + 1) if pidx else 0
        declared = ctx.index.lookup_class_attr(c, '_num_params')
        if isinstance(declared, ast.Constant):
            nparams = declared.value
        shapes = {
            (len(m.elts), tuple(sorted({len(r.elts) for r in m.elts
                                        if isinstance(r, ast.List)})))
            for m in glit.elts if isinstance(m, ast.List)
        }
        ok = len(glit.elts) == nparams and shapes == {
            (rows, tuple(sorted(cols)))}
        rep.check(
            ok, R, c.name, c.path, g.lineno,
            f'gradient literal has {nparams} matrices of shape '
            f'{rows}x{sorted(cols)} like the unitary',
            f'gradient literal has {len(glit.elts)} matrices of shapes '
            f'{sorted(shapes)}; the gate has {nparams} parameters and a '
            f'{rows}x{sorted(cols)} unitary', key='shape',
        )
        # SIBTEMP: same temporary name => same defining expression
        du, dg = _temps(u.node), _temps(g.node)
        diff = {k for k in du.keys() & dg.keys() if du[k] != dg[k]}
        rep.count()
        rep.check(
            not diff, 'SIBTEMP', c.name, c.path, g.lineno,
            f'{len(du.keys() & dg.keys())} shared temporaries are defined '
            'identically in get_unitary and get_grad',
            'temporaries with the same name are defined differently in '
            'get_unitary and get_grad: ' + '; '.join(
                f'{k}: `{du[k]}` vs `{dg[k]}`' for k in sorted(diff)),
            key='temps',
        )
    rep.floor(R, n, 2, 'hand-written unitary/gradient literal pairs')


def _matrix_literal(fn: ast.AST, ctor: str) -> ast.List | None:
    for r in ast.walk(fn):
        if isinstance(r, ast.Return) and isinstance(r.value, ast.Call) and (
            norm(r.value.func) == ctor
        ) and r.value.args and isinstance(r.value.args[0], ast.List):
            return r.value.args[0]
    return None


def _temps(fn: ast.AST) -> dict[str, str]:
    out: dict[str, str] = {}
    multi = set()
    for n in ast.walk(fn):
        if isinstance(n, ast.Assign) and len(n.targets) == 1 and isinstance(
            n.targets[0], ast.Name,
        ):
            k = n.targets[0].id
            if k in out:
                multi.add(k)
            out[k] = norm(n.value)
    for k in multi:
        out.pop(k, None)
    return out
