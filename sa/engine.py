"""Per-run context shared by all rules: source set, index, cached CFGs."""
from __future__ import annotations

import ast

from . import cfg as cfgmod
from . import dataflow
from .source import AnalysisError
from .source import ClassInfo
from .source import FunctionInfo
from .source import Index
from .source import SourceSet


class Ctx:
    def __init__(
        self, root: str = '/repo', overlay: dict[str, str] | None = None,
        tier: str = 'quick',
    ) -> None:
        self.src = SourceSet(root, overlay)
        self.index = Index(self.src)
        self.tier = tier
        self._cfg: dict[int, cfgmod.CFG] = {}
        self._rd: dict[int, dataflow.ReachingDefs] = {}

    @property
    def thorough(self) -> bool:
        return self.tier == 'thorough'

    def fn(self, qual: str) -> FunctionInfo:
        return self.index.fn(qual)

    def cls(self, qual: str) -> ClassInfo:
        return self.index.cls(qual)

    def cfg(self, f: FunctionInfo | ast.AST) -> cfgmod.CFG:
        node = f.node if isinstance(f, FunctionInfo) else f
        k = id(node)
        if k not in self._cfg:
            body = f.body if isinstance(f, FunctionInfo) else None
            self._cfg[k] = cfgmod.build(node, body)
        return self._cfg[k]

    def rd(self, f: FunctionInfo) -> dataflow.ReachingDefs:
        k = id(f.node)
        if k not in self._rd:
            self._rd[k] = dataflow.ReachingDefs(self.cfg(f), f.params)
        return self._rd[k]

    def method(self, cls_qual: str, name: str) -> FunctionInfo:
        """Method as seen from class (through the MRO)."""
        c = self.index.cls(cls_qual)
        f = self.index.lookup_method(c, name)
        if f is None:
            raise AnalysisError(f'anchor method vanished: {cls_qual}.{name}')
        return f
