"""GUARDEMIT: a gate-set predicate that selects a closed-form decomposition
implies that every gate the decomposition can emit is in the gate set.

compile.py guards `ZXZXZDecomposition()` with `ZXGatePredicate()`.  The
decomposition emits, for each of its rotations, one of two interchangeable
gates chosen by what the model offers (U1 or RZ; RX or SqrtX).  The output
is executable only if, whenever the predicate is true, at least one gate of
each such pair is native.

Both sides are read from the source:
  emit groups   every two-armed conditional in the decomposition whose arms
                are one `append_gate(<Gate>(), ...)` call each gives the
                group {Gate_a, Gate_b}
  predicate     the returned Boolean expression, over the atoms
                `<Gate>() in <...>single_qudit_gates`; local temporaries are
                substituted; its truth table is enumerated (2^k rows)
The rule demands predicate => AND over groups (OR over the group's atoms)
on every row, and reports a falsifying gate set otherwise.
"""
from __future__ import annotations

import ast
import itertools

from ..engine import Ctx
from ..report import Report
from ..source import AnalysisError
from ..source import norm
from . import valnum

RULE = 'GUARDEMIT'
ALIAS = {'SXGate': 'SqrtXGate', 'CXGate': 'CNOTGate'}


def _gate(e: ast.AST) -> str | None:
    if isinstance(e, ast.Call) and isinstance(e.func, ast.Name) and (
            e.func.id.endswith('Gate')) and not e.args:
        return ALIAS.get(e.func.id, e.func.id)
    return None


def emit_groups(ctx: Ctx, fnqual: str) -> list[set[str]]:
    f = ctx.fn(fnqual)
    out = []
    for n in ast.walk(f.node):
        if not (isinstance(n, ast.If) and len(n.body) == 1
                and len(n.orelse) == 1):
            continue
        gs = []
        for st in (n.body[0], n.orelse[0]):
            if isinstance(st, ast.Expr) and isinstance(
                    st.value, ast.Call) and norm(st.value.func).endswith(
                    '.append_gate') and st.value.args:
                g = _gate(st.value.args[0])
                if g:
                    gs.append(g)
        if len(gs) == 2 and gs[0] != gs[1] and set(gs) not in out:
            out.append(set(gs))
    return out


def rule_flag_groups(ctx: Ctx, rep: Report, fnqual: str, floor: int) -> None:
    """FLAGPAIR: the flag that chooses between two interchangeable gates is
    computed from the availability of exactly those two gates.

    In ZXZXZDecomposition, `use_u1` picks U1 over RZ and `use_rx` picks RX
    over SqrtX; each is `always_... or (<A> in gate_set and <B> not in
    gate_set)`.  If the availability test names a gate of the *other* pair,
    the pass emits a gate the model does not have for exactly one family of
    gate sets."""
    f = ctx.fn(fnqual)
    g = ctx.cfg(f)
    rd = ctx.rd(f)
    rep.seen(f.qualname)
    n = 0
    done = set()
    for node in g.nodes:
        st = node.stmt
        if node.kind != 'test' or not isinstance(st, ast.If) or not (
                isinstance(st.test, ast.Name) and len(st.body) == 1
                and len(st.orelse) == 1):
            continue
        gs = []
        for arm in (st.body[0], st.orelse[0]):
            if isinstance(arm, ast.Expr) and isinstance(
                    arm.value, ast.Call) and norm(arm.value.func).endswith(
                    '.append_gate') and arm.value.args:
                x = _gate(arm.value.args[0])
                if x:
                    gs.append(x)
        if len(gs) != 2 or gs[0] == gs[1]:
            continue
        flag = st.test.id
        if (flag, frozenset(gs)) in done:
            continue
        done.add((flag, frozenset(gs)))
        n += 1
        rep.count()
        atoms_, defs = rd.closure(node, st.test)
        consulted = set()
        for d in defs:
            if d.value is None:
                continue
            for c in ast.walk(d.value):
                if isinstance(c, ast.Compare) and len(c.ops) == 1 and (
                        isinstance(c.ops[0], (ast.In, ast.NotIn))):
                    x = _gate(c.left)
                    if x:
                        consulted.add(x)
        rep.check(
            bool(consulted) and consulted <= set(gs), 'FLAGPAIR',
            f'{fnqual.split(":")[1]}:{flag}', f.path, node.lineno,
            f'`{flag}` chooses between {sorted(gs)} and is computed from '
            f'the availability of {sorted(consulted)}',
            f'`{flag}` chooses between {sorted(gs)} but is computed from the '
            f'availability of {sorted(consulted)}: for a gate set that has '
            'one of these and not the other, the pass emits a gate the model '
            'does not have', key='flag',
        )
    rep.floor('FLAGPAIR', n, floor, f'gate-choosing flags in {fnqual}')


def _eval(e: ast.AST, env: dict[str, bool]) -> bool:
    if isinstance(e, ast.BoolOp):
        vals = [_eval(v, env) for v in e.values]
        return all(vals) if isinstance(e.op, ast.And) else any(vals)
    if isinstance(e, ast.UnaryOp) and isinstance(e.op, ast.Not):
        return not _eval(e.operand, env)
    if isinstance(e, ast.Compare) and len(e.ops) == 1 and isinstance(
            e.ops[0], (ast.In, ast.NotIn)):
        g = _gate(e.left)
        if g is not None and norm(e.comparators[0]).endswith(
                ('single_qudit_gates', 'gate_set')):
            v = env[g]
            return v if isinstance(e.ops[0], ast.In) else not v
    if isinstance(e, ast.Constant) and isinstance(e.value, bool):
        return e.value
    raise AnalysisError(
        f'GUARDEMIT: cannot read `{norm(e)[:60]}` as a gate-set formula')


def rule_guardemit(ctx: Ctx, rep: Report, pred_qual: str,
                   pass_qual: str) -> None:
    f = ctx.fn(pred_qual)
    g = ctx.cfg(f)
    rep.seen(f.qualname)
    groups = emit_groups(ctx, pass_qual)
    rep.floor(RULE, len(groups), 2,
              f'alternative-gate groups emitted by {pass_qual}')
    rets = [n for n in g.nodes if isinstance(n.stmt, ast.Return)
            and n.stmt.value is not None]
    if len(rets) != 1:
        raise AnalysisError(f'{pred_qual}: expected one return')
    expr = valnum.subst(ctx, f, rets[0], rets[0].stmt.value)
    atoms = sorted({_gate(c.left) for c in ast.walk(expr)
                    if isinstance(c, ast.Compare) and _gate(c.left)}
                   | {x for gr in groups for x in gr})
    bad = None
    for bits in itertools.product([False, True], repeat=len(atoms)):
        env = dict(zip(atoms, bits))
        if _eval(expr, env) and not all(
                any(env[x] for x in gr) for gr in groups):
            bad = env
            break
    rep.count()
    short = pred_qual.split(':')[1].split('.')[0]
    have = sorted(k for k, v in (bad or {}).items() if v)
    missing = [sorted(gr) for gr in groups
               if bad and not any(bad[x] for x in gr)]
    rep.check(
        bad is None, RULE, short, f.path, f.lineno,
        f'{short} implies one gate of each of '
        f'{[sorted(x) for x in groups]} is native '
        f'({2 ** len(atoms)} gate-set patterns enumerated)',
        f'{short} is true for a model whose single-qudit gates include '
        f'{have} only, but the decomposition it selects must emit one of '
        f'{missing}: the compiled circuit contains a gate the model does '
        'not have', key='implies-emit',
    )
