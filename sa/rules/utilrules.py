"""Small order / tautology rules for the utility layer (C20), written from
the discovery campaign (DESIGN 8.10, F57-F59).

SETORDER   An ordered key built from a set (`CircuitLocation(list(s))`,
           `tuple(s)`) depends on the set's iteration order: two equal sets
           give two different keys, and a de-duplicating container keeps
           both.  Inside bqskit/qis and bqskit/ir such a key is built with
           `sorted(s)`.
VALORD     `list(d.values())` is in insertion order.  A function that fills
           a dict key by key in traversal order and returns the values as a
           list indexed by the key (qudit -> qpu) must index explicitly.
ABSDET     |det U| = 1 for every unitary: inside UnitaryMatrix a comparison
           built from `np.abs(np.linalg.det(self))` and constants only is a
           tautology (is_special() was always True).
ARGSCALAR  `np.argmax` of a scalar is 0: the argument must not be the result
           of `np.linalg.norm(...)` without an axis.
"""
from __future__ import annotations

import ast

from ..engine import Ctx
from ..report import Report
from ..source import AnalysisError
from ..source import norm

_POS = '''
def f(self, path: set[int], locations):
    curr = path.copy()
    locations.add(CircuitLocation(list(curr)))
    d = {}
    for i, qs in enumerate(self.groups()):
        for q in qs:
            d[q] = i
    m = np.linalg.norm(u[0, :], ord=2)
    k = np.argmax(m)
    ok = 1 - np.abs(np.linalg.det(self)) < 1e-8
    return list(d.values())
'''


def _set_names(fn: ast.AST) -> set[str]:
    out: set[str] = set()
    args = getattr(fn, 'args', None)
    if args is not None:
        for a in args.args + args.kwonlyargs:
            if a.annotation is not None and norm(a.annotation).startswith(
                    ('set[', 'Set[', 'set', 'frozenset')):
                out.add(a.arg)
    changed = True
    while changed:
        changed = False
        for s in ast.walk(fn):
            if not (isinstance(s, (ast.Assign, ast.AnnAssign))):
                continue
            tg = s.targets[0] if isinstance(s, ast.Assign) else s.target
            v = s.value
            if not isinstance(tg, ast.Name) or v is None or tg.id in out:
                continue
            is_set = isinstance(v, (ast.Set, ast.SetComp)) or (
                isinstance(v, ast.Call) and norm(v.func) in ('set', 'frozenset')
            ) or (
                isinstance(v, ast.Call) and isinstance(v.func, ast.Attribute)
                and v.func.attr in ('copy', 'union', 'intersection',
                                    'difference')
                and isinstance(v.func.value, ast.Name)
                and v.func.value.id in out
            ) or (
                isinstance(s, ast.AnnAssign) and norm(
                    s.annotation).startswith(('set[', 'Set['))
            )
            if is_set:
                out.add(tg.id)
                changed = True
    return out


def _setorder(fn: ast.AST) -> list[ast.Call]:
    sets = _set_names(fn)
    bad = []
    for c in ast.walk(fn):
        if not (isinstance(c, ast.Call) and c.args):
            continue
        fname = norm(c.func)
        if fname not in ('CircuitLocation', 'tuple'):
            continue
        a = c.args[0]
        inner = a.args[0] if (
            isinstance(a, ast.Call) and norm(a.func) == 'list' and a.args
        ) else (a if fname == 'tuple' or isinstance(a, ast.Name) else None)
        if isinstance(inner, ast.Name) and inner.id in sets:
            bad.append(c)
    return bad


def _valord(fn: ast.AST) -> list[ast.Return]:
    bad = []
    filled = set()
    for lp in ast.walk(fn):
        if not isinstance(lp, ast.For):
            continue
        over_range = isinstance(lp.iter, ast.Call) and norm(
            lp.iter.func) == 'range'
        for s in ast.walk(lp):
            if isinstance(s, ast.Assign) and isinstance(
                    s.targets[0], ast.Subscript) and isinstance(
                        s.targets[0].value, ast.Name) and not over_range:
                filled.add(s.targets[0].value.id)
    for r in ast.walk(fn):
        if isinstance(r, ast.Return) and isinstance(r.value, ast.Call) and (
                norm(r.value.func) == 'list') and r.value.args:
            a = r.value.args[0]
            if isinstance(a, ast.Call) and isinstance(
                    a.func, ast.Attribute) and a.func.attr == 'values' and (
                        isinstance(a.func.value, ast.Name)
                        and a.func.value.id in filled):
                bad.append(r)
    return bad


def _absdet(fn: ast.AST) -> list[ast.Compare]:
    bad = []
    for k in ast.walk(fn):
        if not isinstance(k, ast.Compare):
            continue
        absd = [
            c for c in ast.walk(k.left) if isinstance(c, ast.Call)
            and norm(c.func).endswith('abs') and c.args
            and isinstance(c.args[0], ast.Call)
            and norm(c.args[0].func).endswith('linalg.det')
        ]
        if not absd:
            continue
        others = [
            x for x in ast.walk(k.left)
            if isinstance(x, (ast.Name, ast.Attribute, ast.Call))
            and not any(x is y for a in absd for y in ast.walk(a))
        ]
        if not others:
            bad.append(k)
    return bad


def _argscalar(fn: ast.AST) -> list[ast.Call]:
    scal = set()
    for s in ast.walk(fn):
        if isinstance(s, ast.Assign) and isinstance(
                s.targets[0], ast.Name) and isinstance(s.value, ast.Call) and (
                    norm(s.value.func).endswith('linalg.norm')) and not any(
                        kw.arg == 'axis' for kw in s.value.keywords) and len(
                            s.value.args) < 3:
            scal.add(s.targets[0].id)
    return [
        c for c in ast.walk(fn) if isinstance(c, ast.Call)
        and norm(c.func).rsplit('.', 1)[-1] in ('argmax', 'argmin')
        and c.args and isinstance(c.args[0], ast.Name)
        and c.args[0].id in scal
    ]


CHECKS = (
    ('SETORDER', _setorder,
     'builds an ordered key from a set without sorting it: equal sets give '
     'different keys and the de-duplicating container keeps both'),
    ('VALORD', _valord,
     'returns list(<dict>.values()) of a dict filled in traversal order: '
     'the positions follow insertion, not the key the caller indexes by'),
    ('ABSDET', _absdet,
     'compares the modulus of a determinant with constants only: for a '
     'unitary |det| = 1, the test is a tautology'),
    ('ARGSCALAR', _argscalar,
     'takes argmax / argmin of the scalar returned by np.linalg.norm: the '
     'result is always 0'),
)


def rule_utils(ctx: Ctx, rep: Report, prefixes: tuple[str, ...]) -> None:
    pos = ast.parse(_POS).body[0]
    for name, fn, _w in CHECKS:
        if len(fn(pos)) != 1:
            raise AnalysisError(
                f'{name} no longer matches its positive example')
    n = 0
    found = {name: 0 for name, _f, _w in CHECKS}
    for f in ctx.index.all_functions():
        if not f.path.startswith(prefixes):
            continue
        n += 1
        for name, fn, what in CHECKS:
            for site in fn(f.node):
                found[name] += 1
                rep.count()
                rep.seen(f.qualname)
                rep.fail(
                    name,
                    (f.cls.name + '.' if f.cls is not None else '') + f.name,
                    f.path, site.lineno,
                    f'{f.qualname} {what} (`{norm(site)[:70]}`)',
                    key=norm(site)[:60],
                )
    for name, _f, _w in CHECKS:
        rep.count()
        rep.ok(name, 'utility layer', prefixes[0], 1,
               f'{n} functions under {", ".join(prefixes)}: '
               f'{found[name]} sites')
    rep.floor('SETORDER', n, 150, 'functions scanned in the utility layer')
