"""Forward substitution / value numbering of straight-line code (DESIGN 2.7).

`returns(ctx, f)` lists, for every `return` of a function, the conditions
that guard it and the returned expression with single-assignment temporaries
substituted by their defining expressions, so that sibling functions can be
compared independently of temporary names and statement splitting.
"""
from __future__ import annotations

import ast
import copy

from ..cfg import CFG
from ..cfg import Node
from ..dataflow import ReachingDefs
from ..engine import Ctx
from ..source import FunctionInfo
from ..source import norm


class _Subst(ast.NodeTransformer):
    def __init__(self, rd: ReachingDefs, at: Node, depth: int) -> None:
        self.rd = rd
        self.at = at
        self.depth = depth

    bound: frozenset[str] = frozenset()

    def _comp(self, n: ast.AST) -> ast.AST:
        # names bound by the comprehension's generators shadow locals
        names = frozenset(
            x.id for g in n.generators  # type: ignore[attr-defined]
            for x in ast.walk(g.target) if isinstance(x, ast.Name)
        )
        saved = self.bound
        self.bound = saved | names
        self.generic_visit(n)
        self.bound = saved
        return n

    visit_ListComp = visit_SetComp = visit_GeneratorExp = _comp
    visit_DictComp = _comp

    def visit_Lambda(self, n: ast.Lambda) -> ast.AST:
        saved = self.bound
        self.bound = saved | frozenset(a.arg for a in n.args.args)
        self.generic_visit(n)
        self.bound = saved
        return n

    def visit_Name(self, n: ast.Name) -> ast.AST:
        if not isinstance(n.ctx, ast.Load) or self.depth > 12:
            return n
        if n.id in self.bound:
            return n
        defs = self.rd.reaching(self.at, n.id)
        if len(defs) != 1:
            return n
        d = defs[0]
        if d.kind != 'assign' or d.partial or d.value is None:
            return n
        st = d.node.stmt
        tgt = st.targets[0] if isinstance(st, ast.Assign) else getattr(
            st, 'target', None)
        if isinstance(st, ast.Assign) and len(st.targets) != 1:
            return n
        val = copy.deepcopy(d.value)
        val = _Subst(self.rd, d.node, self.depth + 1).visit(val)
        if isinstance(tgt, ast.Name):
            return val
        if isinstance(tgt, ast.Tuple):
            for i, e in enumerate(tgt.elts):
                if isinstance(e, ast.Name) and e.id == n.id:
                    if isinstance(val, ast.Tuple) and i < len(val.elts):
                        return val.elts[i]
                    return ast.Subscript(
                        value=val, slice=ast.Constant(value=i),
                        ctx=ast.Load(),
                    )
        return n


def subst(ctx: Ctx, f: FunctionInfo, at: Node, e: ast.AST) -> ast.AST:
    rd = ctx.rd(f)
    out = _Subst(rd, at, 0).visit(copy.deepcopy(e))
    return ast.fix_missing_locations(out)


def guards_text(g: CFG, n: Node) -> list[str]:
    out = []
    for t, lab in g.guards_of(n.id):
        if t.kind == 'test':
            tx = norm(t.stmt.test)  # type: ignore[union-attr]
            out.append(tx if lab == 'true' else f'not ({tx})')
    return sorted(out)


def returns(ctx: Ctx, f: FunctionInfo) -> list[tuple[list[str], ast.AST, Node]]:
    g = ctx.cfg(f)
    out = []
    for n in g.nodes:
        if isinstance(n.stmt, ast.Return) and n.kind == 'stmt':
            v = n.stmt.value or ast.Constant(value=None)
            out.append((guards_text(g, n), subst(ctx, f, n, v), n))
    return out


class _Canon(ast.NodeTransformer):
    """`X.get_unitary_and_grad(P)[0]` -> `X.get_unitary(P)`, `[1]` ->
    `X.get_grad(P)` (the contract of the triad)."""

    def visit_Subscript(self, n: ast.Subscript) -> ast.AST:
        self.generic_visit(n)
        if isinstance(n.value, ast.Call) and isinstance(
            n.value.func, ast.Attribute,
        ) and n.value.func.attr == 'get_unitary_and_grad' and isinstance(
            n.slice, ast.Constant,
        ) and n.slice.value in (0, 1):
            c = copy.deepcopy(n.value)
            c.func.attr = 'get_unitary' if n.slice.value == 0 else 'get_grad'
            return c
        return n


class _Assoc(ast.NodeTransformer):
    """Flatten chains of one associative operator (`@`, `+`, `*`) so that
    (a @ b) @ c and a @ (b @ c) compare equal."""

    def visit_BinOp(self, n: ast.BinOp) -> ast.AST:
        self.generic_visit(n)
        if not isinstance(n.op, ast.MatMult):
            return n
        parts: list[ast.AST] = []
        for side in (n.left, n.right):
            if isinstance(side, ast.Call) and isinstance(
                side.func, ast.Name,
            ) and side.func.id == '__matmul_chain__':
                parts += side.args
            else:
                parts.append(side)
        return ast.Call(
            func=ast.Name(id='__matmul_chain__', ctx=ast.Load()),
            args=parts, keywords=[],
        )


def canon(e: ast.AST) -> str:
    t = _Canon().visit(copy.deepcopy(e))
    t = _Assoc().visit(t)
    return norm(ast.fix_missing_locations(t))
