"""Tiny linear-form evaluator over +/- expressions with def-chasing."""
from __future__ import annotations

import ast

from ..cfg import Node
from ..dataflow import ReachingDefs
from ..source import norm


def linform(
    e: ast.AST, at: Node, rd: ReachingDefs, in_loop: set[int] | None = None,
    depth: int = 0,
) -> dict[str, int] | None:
    """Return {atom: coefficient}; atoms are normalised leaf texts, suffixed
    with `@loop` when the leaf is (re)evaluated inside `in_loop` node ids and
    `@pre` otherwise.  None when the expression is not linear +/-."""
    if depth > 8:
        return None

    def tag(txt: str, node: Node) -> str:
        if in_loop is None:
            return txt
        return txt + ('@loop' if node.id in in_loop else '@pre')

    if isinstance(e, ast.Constant) and isinstance(e.value, (int, float)):
        return {'1': int(e.value)} if e.value else {}
    if isinstance(e, ast.UnaryOp) and isinstance(e.op, ast.USub):
        r = linform(e.operand, at, rd, in_loop, depth + 1)
        return None if r is None else {k: -v for k, v in r.items()}
    if isinstance(e, ast.BinOp) and isinstance(e.op, (ast.Add, ast.Sub)):
        a = linform(e.left, at, rd, in_loop, depth + 1)
        b = linform(e.right, at, rd, in_loop, depth + 1)
        if a is None or b is None:
            return None
        out = dict(a)
        sg = 1 if isinstance(e.op, ast.Add) else -1
        for k, v in b.items():
            out[k] = out.get(k, 0) + sg * v
        return {k: v for k, v in out.items() if v}
    if isinstance(e, ast.Name):
        defs = rd.reaching(at, e.id)
        if len(defs) == 1 and defs[0].kind == 'assign' and not (
            defs[0].partial
        ) and defs[0].value is not None:
            st = defs[0].node.stmt
            if isinstance(st, ast.Assign) and len(st.targets) == 1 and (
                isinstance(st.targets[0], ast.Name)
            ):
                v = defs[0].value
                if isinstance(v, (ast.BinOp, ast.UnaryOp, ast.Name,
                                  ast.Attribute, ast.Subscript, ast.Call)):
                    return linform(v, defs[0].node, rd, in_loop, depth + 1)
        if len(defs) == 1:
            return {tag(e.id, defs[0].node): 1}
        return {tag(e.id, at): 1}
    if isinstance(e, (ast.Attribute, ast.Subscript, ast.Call)):
        return {tag(norm(e), at): 1}
    return None
