"""FIELDS: field completeness of hand-written copy / become / clear."""
from __future__ import annotations

import ast

from ..engine import Ctx
from ..report import Report
from ..source import ClassInfo
from ..source import FunctionInfo
from ..source import norm


def init_fields(ctx: Ctx, c: ClassInfo) -> dict[str, int]:
    """Instance attributes assigned (or annotated) in __init__ -> line."""
    init = c.methods.get('__init__')
    if init is None:
        return {}
    out: dict[str, int] = {}
    for n in ast.walk(init.node):
        tgts = []
        if isinstance(n, ast.Assign):
            for t in n.targets:
                tgts += list(t.elts) if isinstance(t, ast.Tuple) else [t]
        elif isinstance(n, ast.AnnAssign):
            tgts = [n.target]
        for t in tgts:
            if isinstance(t, ast.Attribute) and isinstance(
                t.value, ast.Name,
            ) and t.value.id == 'self':
                out.setdefault(t.attr, n.lineno)
    return out


def _assigns_field_from(n, field: str, src: str) -> bool:
    """CFG node assigns self.<field> from an expression reading src.<field>
    (with or without leading underscore: public property of the same)."""
    st = n.stmt
    if n.kind != 'stmt' or not isinstance(st, (ast.Assign, ast.AnnAssign)):
        return False
    tgts = st.targets if isinstance(st, ast.Assign) else [st.target]
    if not any(
        isinstance(t, ast.Attribute) and isinstance(t.value, ast.Name)
        and t.value.id == 'self' and t.attr == field for t in tgts
    ):
        return False
    if st.value is None:
        return False
    want = {field, field.lstrip('_')}
    return any(
        isinstance(x, ast.Attribute) and isinstance(x.value, ast.Name)
        and x.value.id == src and x.attr in want
        for x in ast.walk(st.value)
    )


def rule_become(
    ctx: Ctx, rep: Report, c: ClassInfo, rule: str = 'FIELDS',
    method: str = 'become',
) -> int:
    """On every path through become(), every __init__ field of the class is
    overwritten from the same field of the source object."""
    f = c.methods.get(method)
    if f is None:
        return 0
    rep.seen(f.qualname)
    params = [p for p in f.params if p != 'self']
    if not params:
        return 0
    src = params[0]
    g = ctx.cfg(f)
    n = 0
    for field, line in sorted(init_fields(ctx, c).items()):
        n += 1
        rep.count()
        ok = g.must(lambda nd, field=field: _assigns_field_from(
            nd, field, src))
        detail = ''
        if not ok:
            path = g.witness(
                g.entry, {g.exit},
                g.ids(lambda nd, field=field: _assigns_field_from(
                    nd, field, src)),
            )
            detail = 'path without the copy: ' + ' -> '.join(
                p.text()[:40] for p in path if p.kind in ('test',)
            )
        rep.check(
            ok, rule, f'{c.name}.{method}', f.path, f.lineno,
            f'`{field}` is taken over from `{src}` on every path',
            f'`{field}` (assigned in __init__, line {line}) is not taken '
            f'over from `{src}` on some path: after {method}() the receiver '
            'keeps its old value',
            key=field, detail=detail,
        )
    return n


def rule_copy(
    ctx: Ctx, rep: Report, c: ClassInfo, rule: str = 'FIELDS',
    ctor_fields: dict[str, str] | None = None,
) -> int:
    """copy() either deep-copies the whole object or carries every field."""
    f = c.methods.get('copy')
    if f is None:
        return 0
    rep.seen(f.qualname)
    body_txt = norm(f.node)
    fields = init_fields(ctx, c)
    rep.count()
    if 'copy.deepcopy(self)' in body_txt or 'deepcopy(self)' in body_txt:
        rep.ok(rule, f'{c.name}.copy', f.path, f.lineno,
               'copy() deep-copies the whole object')
        return 1
    # constructor call + explicit field assignments on the new object
    new = None
    ctor_args: list[str] = []
    for n in ast.walk(f.node):
        if isinstance(n, ast.Assign) and isinstance(n.value, ast.Call) and (
            norm(n.value.func) in (c.name, 'self.__class__', 'type(self)')
        ) and isinstance(n.targets[0], ast.Name):
            new = n.targets[0].id
            ctor_args = [norm(a) for a in n.value.args]
    if new is None:
        rep.fail(rule, f'{c.name}.copy', f.path, f.lineno,
                 'copy() neither deep-copies self nor builds a new object',
                 key='form')
        return 1
    carried: dict[str, ast.AST] = {}
    for n in ast.walk(f.node):
        if isinstance(n, ast.Assign):
            for t in n.targets:
                if isinstance(t, ast.Attribute) and isinstance(
                    t.value, ast.Name,
                ) and t.value.id == new:
                    carried[t.attr] = n.value
    k = 0
    for field, line in sorted(fields.items()):
        k += 1
        via_ctor = any(
            a in (f'self.{field}', f'self.{field.lstrip("_")}')
            for a in ctor_args
        )
        v = carried.get(field)
        deep = v is not None and (
            f'self.{field}' in norm(v) and (
                'deepcopy' in norm(v) or isinstance(v, ast.Attribute)
            )
        )
        shares = v is not None and norm(v) == f'self.{field}'
        rep.count()
        rep.check(
            (via_ctor or deep) and not shares, rule, f'{c.name}.copy',
            f.path, f.lineno,
            f'`{field}` carried over ' + (
                'through the constructor' if via_ctor else 'by deepcopy'),
            f'`{field}` is ' + (
                'shared with the original (no copy)' if shares else
                'not carried over to the copy'), key=field,
        )
    return k
