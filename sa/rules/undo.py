"""UNDO: a tentative in-place swap is taken back on every exit.

Scoring a candidate swap (`GeneralizedSabreAlgorithm._score_swap`) applies
it to the caller's mapping `pi` in place, evaluates the heuristic and swaps
back.  `pi` is the routing state of the whole pass: an exit that leaves the
swap applied corrupts every later decision and the published mappings while
the emitted circuit knows nothing of it.

Instances are discovered: a function under the given prefixes that contains
the same in-place exchange statement `X[a], X[b] = X[b], X[a]` more than once.
The rule is a parity argument on the flow graph: along every path from entry
to any exit (return, fall-through or raise) the exchange is executed an even
number of times.  (An exchange inside a loop that can run an arbitrary number
of times is reported as not decidable by parity.)
"""
from __future__ import annotations

import ast

from ..engine import Ctx
from ..report import Report
from ..source import norm

RULE = 'UNDO'


def _exchange_key(st: ast.AST) -> str | None:
    if not (isinstance(st, ast.Assign) and len(st.targets) == 1
            and isinstance(st.targets[0], ast.Tuple)
            and isinstance(st.value, ast.Tuple)
            and len(st.targets[0].elts) == 2 and len(st.value.elts) == 2):
        return None
    t0, t1 = st.targets[0].elts
    v0, v1 = st.value.elts
    if not (isinstance(t0, ast.Subscript) and isinstance(t1, ast.Subscript)):
        return None
    if norm(t0) == norm(v1) and norm(t1) == norm(v0) and norm(
            t0.value) == norm(t1.value):
        return f'{norm(t0)} <-> {norm(t1)}'
    return None


def rule_undo(ctx: Ctx, rep: Report, prefixes: tuple[str, ...],
              floor: int) -> int:
    n = 0
    for f in sorted(ctx.index.all_functions(), key=lambda f: f.qualname):
        if not f.path.startswith(prefixes):
            continue
        keys: dict[str, int] = {}
        for st in ast.walk(f.node):
            k = _exchange_key(st)
            if k:
                keys[k] = keys.get(k, 0) + 1
        for key, cnt in sorted(keys.items()):
            if cnt < 2:
                continue
            n += 1
            rep.count()
            rep.seen(f.qualname)
            g = ctx.cfg(f)
            ex = {m.id for m in g.nodes if m.stmt is not None
                  and _exchange_key(m.stmt) == key}
            # product of the flow graph with the parity of executed exchanges
            seen = {(g.entry, 0)}
            todo = [(g.entry, 0)]
            while todo:
                a, p = todo.pop()
                for b, _lab in g.succ[a]:
                    q = p ^ 1 if b in ex else p
                    if (b, q) not in seen:
                        seen.add((b, q))
                        todo.append((b, q))
            exits = {g.exit, getattr(g, 'raise_exit', g.exit)}
            odd = [e for e in exits if (e, 1) in seen]
            short = f.qualname.split('.')[-1]
            cls = f.cls.name + '.' if f.cls else ''
            rep.check(
                not odd, RULE, f'{cls}{short}:{key}', f.path, f.lineno,
                f'`{key}` is executed an even number of times on every path '
                'to an exit',
                f'some path through {cls}{short} leaves the tentative '
                f'exchange `{key}` applied (it is executed an odd number of '
                'times before a return / raise): the caller\'s mapping is '
                'left permuted although no swap was emitted',
                key='parity',
            )
    rep.floor(RULE, n, floor, f'tentative in-place exchanges under {prefixes}')
    return n
