"""Straight-line forward substitution for clone comparison (DESIGN 2.7)."""
from __future__ import annotations

import ast
import copy

from ..dataflow import dotted
from ..source import norm


class _Sub(ast.NodeTransformer):
    def __init__(self, env: dict[str, ast.AST]) -> None:
        self.env = env
        self.bound: frozenset[str] = frozenset()

    def _comp(self, n):
        names = frozenset(
            x.id for g in n.generators for x in ast.walk(g.target)
            if isinstance(x, ast.Name))
        saved = self.bound
        self.bound = saved | names
        self.generic_visit(n)
        self.bound = saved
        return n
    visit_ListComp = visit_SetComp = visit_GeneratorExp = visit_DictComp = _comp

    def visit_Name(self, n: ast.Name):
        if isinstance(n.ctx, ast.Load) and n.id in self.env and (
            n.id not in self.bound
        ):
            return copy.deepcopy(self.env[n.id])
        return n

    def visit_Attribute(self, n: ast.Attribute):
        d = dotted(n)
        if d is not None and isinstance(n.ctx, ast.Load) and d in self.env:
            return copy.deepcopy(self.env[d])
        self.generic_visit(n)
        return n


def straightline(body: list[ast.stmt]) -> dict[str, ast.AST]:
    """Environment after executing the top-level simple assignments of
    `body` in order (compound statements are skipped: they hold argument
    checks in the functions this is used for)."""
    env: dict[str, ast.AST] = {}
    for st in body:
        if isinstance(st, ast.Assign) and len(st.targets) == 1:
            t = st.targets[0]
            key = dotted(t)
            if key is None:
                continue
            val = _Sub(env).visit(copy.deepcopy(st.value))
            env[key] = val
        elif isinstance(st, ast.If) and len(st.body) == 1 and isinstance(
                st.body[0], ast.Assign) and len(
                    st.body[0].targets) == 1 and all(
                        isinstance(x, ast.Pass) for x in st.orelse):
            # `if T: x = E` is the conditional expression
            # `x = E if T else x` (the spelling the siblings may use)
            a = st.body[0]
            key = dotted(a.targets[0])
            if key is None:
                continue
            old = copy.deepcopy(env[key]) if key in env else copy.deepcopy(
                a.targets[0])
            if isinstance(old, (ast.Name, ast.Attribute)):
                old.ctx = ast.Load()
            env[key] = ast.IfExp(
                test=_Sub(env).visit(copy.deepcopy(st.test)),
                body=_Sub(env).visit(copy.deepcopy(a.value)),
                orelse=old,
            )
        elif isinstance(st, ast.Return) and st.value is not None:
            env['<return>'] = _Sub(env).visit(copy.deepcopy(st.value))
    return env


def text(e: ast.AST) -> str:
    return norm(ast.fix_missing_locations(e))
