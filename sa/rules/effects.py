"""Field-write effects of a function body (DESIGN 2.5, AttrWrite atoms)."""
from __future__ import annotations

import ast
from typing import Iterator

from ..source import norm

MUT_METHODS = {
    'append', 'extend', 'add', 'update', 'insert', 'remove', 'discard',
    'pop', 'clear', 'sort', 'reverse', 'setdefault', 'popitem', 'put',
    'put_nowait', 'appendleft', 'popleft', 'get_nowait', 'get',
}
# `get` only mutates queues; callers filter by field.


class Write:
    __slots__ = ('field', 'kind', 'stmt', 'target', 'subs', 'value', 'op',
                 'method', 'call')

    def __init__(
        self, field: str, kind: str, stmt: ast.AST, target: ast.AST,
        subs: list[ast.AST], value: ast.AST | None,
        op: ast.operator | None = None, method: str = '',
        call: ast.Call | None = None,
    ) -> None:
        self.field = field
        self.kind = kind      # assign | setitem | aug | del | call
        self.stmt = stmt
        self.target = target
        self.subs = subs      # subscript index expressions, outermost last
        self.value = value
        self.op = op
        self.method = method
        self.call = call

    @property
    def lineno(self) -> int:
        return getattr(self.stmt, 'lineno', 0)

    def __repr__(self) -> str:
        return f'<W {self.field} {self.kind}{":" + self.method if self.method else ""} @{self.lineno}>'


def root_field(e: ast.AST, obj: str = 'self') -> tuple[str, list[ast.AST]] | None:
    """For `obj.f[a][b]` -> ('f', [a, b]); for `obj.f` -> ('f', [])."""
    subs: list[ast.AST] = []
    while isinstance(e, ast.Subscript):
        subs.append(e.slice)
        e = e.value
    if (
        isinstance(e, ast.Attribute) and isinstance(e.value, ast.Name)
        and e.value.id == obj
    ):
        return e.attr, subs[::-1]
    return None


def _flat(t: ast.AST) -> Iterator[ast.AST]:
    if isinstance(t, (ast.Tuple, ast.List)):
        for e in t.elts:
            yield from _flat(e)
    elif isinstance(t, ast.Starred):
        yield from _flat(t.value)
    else:
        yield t


def _read_modify_write(n: ast.Assign):
    """`X[k] = X[k] + c` / `X[k] = X.get(k, 0) + c` (also `-`) is the
    augmented assignment `X[k] += c`; returns (op, c) or None."""
    if len(n.targets) != 1 or not isinstance(n.targets[0], ast.Subscript):
        return None
    v = n.value
    if not (isinstance(v, ast.BinOp) and isinstance(v.op, (ast.Add, ast.Sub))):
        return None
    t = n.targets[0]
    base, key = ast.unparse(t.value), ast.unparse(t.slice)
    left = v.left
    same = ast.unparse(left) == ast.unparse(t)
    if not same and isinstance(left, ast.Call) and isinstance(
            left.func, ast.Attribute) and left.func.attr == 'get' and (
            ast.unparse(left.func.value) == base) and len(left.args) == 2 \
            and ast.unparse(left.args[0]) == key and isinstance(
            left.args[1], ast.Constant) and left.args[1].value == 0:
        same = True
    return (v.op, v.right) if same else None


def writes(fn_node: ast.AST, obj: str = 'self') -> list[Write]:
    """All writes to fields of `obj` in the function (nested lambdas are
    skipped; nested statements are included)."""
    out: list[Write] = []
    for n in ast.walk(fn_node):
        if isinstance(n, ast.Assign):
            rmw = _read_modify_write(n)
            if rmw is not None:
                r = root_field(n.targets[0], obj)
                if r:
                    out.append(Write(
                        r[0], 'aug', n, n.targets[0], r[1], rmw[1], rmw[0],
                    ))
                    continue
            for t in n.targets:
                for tt in _flat(t):
                    r = root_field(tt, obj)
                    if r:
                        out.append(Write(
                            r[0], 'setitem' if r[1] else 'assign', n, tt,
                            r[1], n.value,
                        ))
        elif isinstance(n, ast.AnnAssign) and n.value is not None:
            r = root_field(n.target, obj)
            if r:
                out.append(Write(
                    r[0], 'setitem' if r[1] else 'assign', n, n.target,
                    r[1], n.value,
                ))
        elif isinstance(n, ast.AugAssign):
            r = root_field(n.target, obj)
            if r:
                out.append(Write(
                    r[0], 'aug', n, n.target, r[1], n.value, n.op,
                ))
        elif isinstance(n, ast.Delete):
            for t in n.targets:
                r = root_field(t, obj)
                if r:
                    out.append(Write(r[0], 'del', n, t, r[1], None))
        elif isinstance(n, ast.Call) and isinstance(n.func, ast.Attribute):
            if n.func.attr in MUT_METHODS:
                r = root_field(n.func.value, obj)
                if r:
                    out.append(Write(
                        r[0], 'call', n, n.func.value, r[1], None,
                        method=n.func.attr, call=n,
                    ))
    out.sort(key=lambda w: (w.lineno, getattr(w.stmt, 'col_offset', 0)))
    return out


def fields_written(fn_node: ast.AST, obj: str = 'self') -> set[str]:
    return {w.field for w in writes(fn_node, obj)}


def describe(w: Write) -> str:
    return norm(w.stmt)[:100]
