"""PARAMFLOW: the parameters of a block operation live on the *operation*.

`CircuitGate._circuit` holds the parameter values the gate was built with;
the values in force are `op.params` (Circuit.set_params / instantiate /
replace_gate change only those).  Code that takes the inner circuit of an
existing block operation `op` and gives it a new life - unfolds it, runs a
body on it, re-wraps it in a wider block - must carry `op.params` along:

  (A) `V.set_params(op.params)` before any other use of the copy V, or
  (B) every `Operation(CircuitGate(V ...), loc, P)` built from it has
      P = `op.params`.

The rule finds every `V = <op>.gate._circuit[.copy()]` (also through
`g = <op>.gate` / `cast(CircuitGate, <op>.gate)`) in the given function and
demands (A) or (B); sites where the block was wrapped by the very same
function (so both parameter vectors coincide by construction) are listed
by the caller with a reason.
"""
from __future__ import annotations

import ast

from ..engine import Ctx
from ..report import Report
from ..source import norm
from . import q

RULE = 'PARAMFLOW'


def _strip_copy(e: ast.AST) -> ast.AST:
    if isinstance(e, ast.Call) and isinstance(
            e.func, ast.Attribute) and e.func.attr == 'copy' and not e.args:
        return e.func.value
    return e


def _gate_owner(ctx: Ctx, f, node, e: ast.AST) -> str | None:
    """e is `<x>._circuit`; return the operation expression whose gate x is
    (`op` for op.gate, through one level of `g = op.gate` / cast)."""
    if not (isinstance(e, ast.Attribute) and e.attr == '_circuit'):
        return None
    x = e.value
    if isinstance(x, ast.Attribute) and x.attr == 'gate':
        return norm(x.value)
    if isinstance(x, ast.Name):
        for d in ctx.rd(f).reaching(node, x.id):
            v = d.value
            if isinstance(v, ast.Call) and norm(v.func) in (
                    'cast', 'typing.cast') and len(v.args) == 2:
                v = v.args[1]
            if isinstance(v, ast.Attribute) and v.attr == 'gate':
                return norm(v.value)
    return None


def sites(ctx: Ctx, f) -> list[tuple]:
    g = ctx.cfg(f)
    out = []
    for n in g.nodes:
        st = n.stmt
        if not isinstance(st, (ast.Assign, ast.AnnAssign)) or n.kind != 'stmt':
            continue
        tg = st.targets[0] if isinstance(st, ast.Assign) else st.target
        if not isinstance(tg, ast.Name) or st.value is None:
            continue
        owner = _gate_owner(ctx, f, n, _strip_copy(st.value))
        if owner:
            out.append((n, tg.id, owner))
    return out


def rule_paramflow(
    ctx: Ctx, rep: Report, fnqual: str, exceptions: dict[str, str],
    floor: int = 1,
) -> None:
    f = ctx.fn(fnqual)
    g = ctx.cfg(f)
    rep.seen(f.qualname)
    short = fnqual.split(':')[1]
    found = sites(ctx, f)
    for n, v, owner in found:
        rep.count()
        want = f'{owner}.params'
        setp = q.has_call(f'{v}.set_params', [want])
        # (A) no use of V is reachable from the definition without set_params
        blocked = g.ids(setp)
        r = g.reach([n.id], blocked=blocked, include_starts=False)
        uses = [m for m in g.nodes if m.id in r and m.id not in blocked
                and any(isinstance(x, ast.Name) and x.id == v
                        and isinstance(x.ctx, ast.Load) for x in m.walk())]
        a_ok = bool(blocked) and not uses
        # (B) every Operation built on CircuitGate(V) carries owner.params
        ops = []
        for m in g.nodes:
            for c in m.calls():
                if norm(c.func) != 'Operation' or len(c.args) < 3:
                    continue
                gate = c.args[0]
                srcs = [gate]
                if isinstance(gate, ast.Name):
                    srcs = [d.value for d in ctx.rd(f).reaching(m, gate.id)
                            if d.value is not None]
                if any(isinstance(s, ast.Call) and norm(
                        s.func) == 'CircuitGate' and s.args and norm(
                        s.args[0]) == v for s in srcs):
                    ops.append((m, c))
        b_ok = bool(ops) and all(norm(c.args[2]) == want for _m, c in ops)
        key = f'{short}:{v}'
        if not (a_ok or b_ok) and key in exceptions:
            rep.ok(RULE, key, f.path, n.lineno,
                   f'listed exception: {exceptions[key]}')
            continue
        how = ''
        if ops and not b_ok:
            how = (f'; the re-wrapped operation takes '
                   f'`{norm(ops[0][1].args[2])}`')
        elif uses:
            how = f'; `{v}` is used at line {uses[0].lineno} first'
        rep.check(
            a_ok or b_ok, RULE, key, f.path, n.lineno,
            f'the inner circuit `{v}` of `{owner}` is given {want}',
            f'`{v}` is the inner circuit of the block operation `{owner}`, '
            f'but `{want}` neither is set on it before use nor goes to the '
            f'operation built from it{how}: the block silently falls back '
            'to the parameter values its gate was constructed with',
            key='op-params',
        )
    rep.floor(RULE, len(found), floor,
              f'inner-circuit reuse sites in {short}')
