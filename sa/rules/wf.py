"""WF rule driver: enumerate the standard workflow configurations and run
the typestate analysis over each (DESIGN 4/C01 (a), C02 (a), C03)."""
from __future__ import annotations

from typing import Any

from ..engine import Ctx
from ..report import Report
from ..source import AnalysisError
from . import wfinterp as W
from . import wftypestate as T

COMPILE = W.COMPILE
CIRCUIT_FINAL = ['MODEL', 'CONN_REAL', 'MQ_NATIVE', 'SQ_NATIVE', 'ROUTED',
                 'PLACED']
DIRECT = ['_synthesis_workflow', '_stateprep_workflow', '_statemap_workflow']


def circuit_configs(ctx: Ctx) -> list[tuple[str, Any, list[str]]]:
    out = []
    for lvl in (1, 2, 3, 4):
        for et, tag in ((None, 'no-bound'), (0.01, 'error-bound')):
            rs = W.evaluate_all(
                ctx, '_circuit_workflow',
                [W.Unknown('model'), lvl, 1e-8, 3, et, 8, None], {})
            if not rs:
                raise AnalysisError(
                    f'_circuit_workflow(level {lvl}) built no workflow')
            for i, (tree, dec) in enumerate(rs):
                out.append((f'level{lvl}/{tag}' + (f'/{i}' if i else ''),
                            tree, dec))
    if ctx.thorough:
        # other synthesis sizes, error-simulation sizes (equal to the block
        # size selects another branch of build_partitioning_workflow) and
        # a fixed seed (adds SetRandomSeedPass)
        for lvl in (1, 2, 3, 4):
            for mss in (2, 3, 4):
                for ess in (mss, 8):
                    for seed in (None, 7):
                        if (mss, ess, seed) == (3, 8, None):
                            continue
                        rs = W.evaluate_all(
                            ctx, '_circuit_workflow',
                            [W.Unknown('model'), lvl, 1e-8, mss, 0.01, ess,
                             seed], {})
                        for tree, dec in rs:
                            out.append((
                                f'level{lvl}/error-bound/mss{mss}/ess{ess}/'
                                f'seed{seed}', tree, dec))
    return out


def direct_configs(ctx: Ctx, name: str) -> list[tuple[str, Any, list[str]]]:
    out = []
    for lvl in (1, 2, 3, 4):
        rs = W.evaluate_all(
            ctx, name,
            [W.Unknown('input'), W.Unknown('model'), lvl, 1e-8, 3, None, 8,
             None], {})
        if not rs:
            raise AnalysisError(f'{name}(level {lvl}) built no workflow')
        for tree, dec in rs:
            short = ','.join(d.split(':')[-1] for d in dec)
            out.append((f'{name}/level{lvl}' + (f'[{short}]' if short else ''),
                        tree, dec))
    return out


def analyse(ctx: Ctx, tree: Any, circuit: bool) -> tuple[T.St, T.Analyser]:
    a = T.Analyser(ctx, need_meas=circuit)
    init = T.St(frozenset() if circuit else frozenset({'CONN_REAL'}), 0,
                'circuit')
    out = a.run(tree, init)
    return out, a


def top_sequence(tree: Any) -> list[str]:
    """Class names of the top-level passes (for ordering obligations)."""
    a = T.Analyser.__new__(T.Analyser)
    seq = T.Analyser.seq(a, tree)
    return [x.cls if isinstance(x, W.Obj) else repr(x) for x in seq]


def report_issues(rep: Report, rule: str, label: str, a: T.Analyser,
                  only: set[str] | None = None) -> None:
    for i in a.issues:
        if only is not None and not any(i.code.startswith(o) for o in only):
            continue
        rep.fail(rule, f'{label}:{i.code}', COMPILE, i.line, i.what,
                 key=f'{i.obj.cls if i.obj else ""}')


def final_facts(rep: Report, rule: str, label: str, out: T.St,
                want: list[str], what: dict[str, str]) -> None:
    for f in want:
        rep.count()
        rep.check(
            out.has(f), rule, f'{label}:{f}', COMPILE, 0,
            f'{f} holds at the end of the workflow on every branch',
            what.get(f, f'{f} is not established on every branch of the '
                     'workflow'), key=f,
        )


WHY = {
    'MODEL': 'SetModelPass does not run on every branch',
    'CONN_REAL': 'the model connectivity extracted during the workflow is '
                 'not restored on every branch: the result is judged '
                 'against an all-to-all model',
    'MQ_NATIVE': 'on some branch the workflow ends without a multi-qudit '
                 'retarget after the last pass that can introduce '
                 'non-native multi-qudit gates (routing swaps, resynthesis)',
    'SQ_NATIVE': 'on some branch the workflow ends without a single-qudit '
                 'retarget after the last pass that introduces general '
                 'single-qudit gates',
    'ROUTED': 'on some branch the workflow ends without routing on the '
              'real connectivity (or a later pass can break it)',
    'PLACED': 'on some branch (e.g. a one-qudit circuit) the workflow '
              'never applies the placement: the result does not have the '
              'machine\'s width',
    'TARGET': 'the synthesis pass can run before SetTargetPass',
}
