"""TAUT: no comparison of an expression with itself.

`a.x == a.x` is true whatever the data (and `!=`, `<`, `>` false); it is what
remains of `a.x == b.x` after a one-identifier slip, and inside an `__eq__`
it silently removes a field from the equality relation: by-value look-ups
(`Circuit.remove(op)`, `point(op)`, `count`) then match the first element
that agrees on the remaining fields.

Every comparison under the given prefixes is examined; calls are excluded
from the textual identity (two calls of the same text need not return the
same value), and so is the NaN idiom `x != x`.
"""
from __future__ import annotations

import ast

from ..engine import Ctx
from ..report import Report
from ..source import norm

RULE = 'TAUT'


def rule_taut(ctx: Ctx, rep: Report, prefixes: tuple[str, ...],
              floor: int) -> int:
    n = 0
    bad = []
    for path, mod in sorted(ctx.index.by_path.items()):
        if not path.startswith(prefixes):
            continue
        for c in ast.walk(mod.tree):
            if not isinstance(c, ast.Compare):
                continue
            n += 1
            terms = [c.left] + list(c.comparators)
            for a, b, op in zip(terms, terms[1:], c.ops):
                if isinstance(op, ast.NotEq):
                    continue  # `x != x` is the NaN test
                if any(isinstance(x, ast.Call) for x in ast.walk(a)):
                    continue
                if isinstance(a, ast.Constant):
                    continue
                if norm(a) == norm(b):
                    bad.append((path, c.lineno, norm(c)))
    rep.count()
    rep.check(
        not bad, RULE, f'self-comparisons under {"/".join(prefixes)}',
        bad[0][0] if bad else prefixes[0], bad[0][1] if bad else 0,
        f'{n} comparisons examined, none compares an expression with itself',
        '; '.join(f'{p}:{ln} `{t}`' for p, ln, t in bad[:4])
        + ' compares an expression with itself: the comparison is constant, '
        'so the field it was meant to compare no longer takes part (in an '
        '__eq__, objects that differ only there are equal)',
        key=';'.join(t for _p, _l, t in bad[:4]) or 'none',
    )
    rep.floor(RULE, n, floor, f'comparisons under {prefixes}')
    return n
