"""Workflow typestate (DESIGN 4/C01 (a)): a forward analysis over the pass
tree produced by the builder interpreter.

Facts ("definitely holds" sets, join = intersection):
  MODEL      SetModelPass ran
  TARGET     SetTargetPass ran
  MEAS_OUT   measurements are extracted
  CONN_REAL  the model's real connectivity is in place
  MQ_NATIVE  every multi-qudit gate is in the model's gate set
  SQ_NATIVE  every single-qudit gate is in the model's gate set
  ROUTED     every multi-qudit operation acts on coupled qudits
  PLACED     the circuit is expressed on the machine's qudits
plus `depth`, the folding depth (QuickPartitioner +1, ForEach body -1,
UnfoldPass -> 0).
"""
from __future__ import annotations

from typing import Any

from ..engine import Ctx
from ..source import AnalysisError
from .wfinterp import Obj
from .wfinterp import Unknown
from .wfinterp import alias_passes

ALL = frozenset({'MODEL', 'TARGET', 'MEAS_OUT', 'CONN_REAL', 'MQ_NATIVE',
                 'SQ_NATIVE', 'ROUTED', 'PLACED', 'PLACEMENT'})


class St:
    __slots__ = ('facts', 'depth', 'scope')

    def __init__(self, facts: frozenset[str], depth: int, scope: str) -> None:
        self.facts = facts
        self.depth = depth
        self.scope = scope

    def with_(self, add=(), drop=(), depth=None) -> St:
        return St((self.facts | frozenset(add)) - frozenset(drop),
                  self.depth if depth is None else depth, self.scope)

    def has(self, f: str) -> bool:
        return f in self.facts

    def __repr__(self) -> str:
        return f'<{sorted(self.facts)} d={self.depth} {self.scope}>'


class Issue:
    def __init__(self, code: str, what: str, obj: Obj | None) -> None:
        self.code = code
        self.what = what
        self.obj = obj

    @property
    def line(self) -> int:
        return self.obj.lineno if self.obj is not None else 0


# pass effect table: requires / establishes / destroys  (source citation)
# `search` entries are handled specially (depends on the layer generator).
EFFECTS: dict[str, dict[str, Any]] = {
    'SetModelPass': {'est': ['MODEL', 'CONN_REAL', 'PLACEMENT'],
                     'drop': ['PLACED', 'ROUTED'],
                     'src': 'setmodel.py: data.model = model; placement = '
                            'identity'},
    'SetTargetPass': {'est': ['TARGET'], 'src': 'target.py'},
    'ExtractMeasurements': {'est': ['MEAS_OUT'], 'src': 'measure.py'},
    'RestoreMeasurements': {'req': ['MEAS_OUT'], 'drop': ['MEAS_OUT'],
                            'src': 'measure.py'},
    'ExtractModelConnectivityPass': {
        'req': ['MODEL', 'CONN_REAL'], 'drop': ['CONN_REAL'],
        'src': 'setmodel.py: replaces coupling graph by all-to-all'},
    'RestoreModelConnectivityPass': {
        'req': ['MODEL'], 'req_not': ['CONN_REAL'], 'est': ['CONN_REAL'],
        'src': 'setmodel.py'},
    'FillSingleQuditGatesPass': {
        'req': ['MODEL'], 'drop': ['SQ_NATIVE'],
        'src': 'fill.py: inserts the general single-qudit gate everywhere'},
    'AutoRebase2QuditGatePass': {
        'req': ['MODEL'], 'est': ['MQ_NATIVE'], 'drop': ['SQ_NATIVE'],
        'src': 'retarget/auto.py: replaces non-native 2-qudit gates in '
               'place (same qudits) using the general single-qudit gate'},
    'ScanningGateRemovalPass': {'src': 'scan.py: only removes gates'},
    'GreedyPlacementPass': {'req': ['MODEL'], 'est': ['PLACEMENT'],
                            'drop': ['PLACED'],
                            'src': 'placement/greedy.py'},
    'GeneralizedSabreLayoutPass': {'req': ['MODEL', 'PLACEMENT'],
                                   'drop': ['PLACED'],
                                   'src': 'layout/sabre.py: permutes '
                                          'data.placement'},
    'PAMLayoutPass': {'req': ['MODEL', 'PLACEMENT'], 'drop': ['PLACED'],
                      'src': 'layout/pam.py: permutes data.placement'},
    'GeneralizedSabreRoutingPass': {
        'req': ['MODEL', 'PLACEMENT', 'CONN_REAL'], 'est': ['ROUTED'],
        'drop': ['MQ_NATIVE'],
        'src': 'routing/sabre.py: inserts SwapGates'},
    'PAMRoutingPass': {
        'req': ['MODEL', 'PLACEMENT'], 'est_if_conn_real': ['ROUTED'],
        'drop': ['MQ_NATIVE'],
        'src': 'routing/pam.py: pre-synthesised blocks + uphill SwapGates; '
               'ROUTED w.r.t. the connectivity in force'},
    'ApplyPlacement': {'req': ['MODEL', 'PLACEMENT'], 'est': ['PLACED'],
                       'src': 'apply.py'},
    'GeneralSQDecomposition': {'req': ['MODEL'], 'est': ['SQ_NATIVE'],
                               'block1': True, 'src': 'retarget/general.py'},
    'ZXZXZDecomposition': {'req': ['MODEL'], 'est': ['SQ_NATIVE'],
                           'block1': True, 'src': 'rules/zxzxz.py'},
    'U3Decomposition': {'est': ['SQ_NATIVE'], 'block1': True,
                        'src': 'rules/u3.py'},
    'QuickPartitioner': {'fold': +1, 'src': 'partitioning/quick.py'},
    'GroupSingleQuditGatePass': {'fold': +1, 'sq_cover': True,
                                 'src': 'partitioning/single.py'},
    'UnfoldPass': {'fold': 0, 'src': 'util/unfold.py: unfold_all()'},
    'PermutationAwareSynthesisPass': {'search': True},
    'QSearchSynthesisPass': {'search': True},
    'LEAPSynthesisPass': {'search': True},
}
# passes that neither change the gates/locations of the circuit nor the
# facts above (confirmed by reading their run(); one line each)
NEUTRAL = {
    'LogPass': 'logs', 'LogErrorPass': 'logs data.error',
    'SetRandomSeedPass': 'sets data.seed', 'NOOPPass': 'nothing',
    'ExtendBlockSizePass': 'widens existing blocks along the connectivity',
    'EmbedAllPermutationsPass': 'stores synthesised permutations in data',
    'SubtopologySelectionPass': 'stores candidate sub-topologies in data',
    'TagPAMBlockDataPass': 'tags gates', 'UnTagPAMBlockDataPass': 'untags',
    'CalculatePAMErrorsPass': 'reads unitaries, writes data.error',
}
PREDICATES = {
    # class: (facts if true, facts if false)
    'MultiPhysicalPredicate': (['MQ_NATIVE'], []),
    'SinglePhysicalPredicate': (['SQ_NATIVE'], []),
    'WidthPredicate': ([], []),   # handled with its argument
}
RESPECTING = {'less-than-respecting', 'less-than-respecting-multi',
              'less-than-respecting-many'}
RESPECTING_FULLY = {'less-than-respecting-fully',
                    'less-than-respecting-fully-multi',
                    'less-than-respecting-fully-many'}
LESS_THAN = {'less-than', 'less-than-multi', 'less-than-many'}


MUTATING = {
    'FillSingleQuditGatesPass', 'AutoRebase2QuditGatePass',
    'ScanningGateRemovalPass', 'GeneralizedSabreRoutingPass',
    'PAMRoutingPass', 'ApplyPlacement', 'GeneralSQDecomposition',
    'ZXZXZDecomposition', 'U3Decomposition', 'QuickPartitioner',
    'GroupSingleQuditGatePass',
}


class Analyser:
    def __init__(self, ctx: Ctx, need_meas: bool = False) -> None:
        self.ctx = ctx
        self.need_meas = need_meas
        self.issues: list[Issue] = []
        self.leaves = 0
        self.seen_classes: set[str] = set()
        self.exceptions_used: list[str] = []
        self.filters: list[tuple[str, int]] = []

    def issue(self, code: str, what: str, obj: Obj | None) -> None:
        self.issues.append(Issue(code, what, obj))

    # ---- structure -----------------------------------------------------------
    def seq(self, items: Any) -> list[Any]:
        if isinstance(items, Obj) and items.cls == 'Workflow':
            return self.seq(items.arg(0, 'passes'))
        if isinstance(items, (list, tuple)):
            out = []
            for x in items:
                out.append(x)
            return out
        if items is None:
            return []
        return [items]

    def run(self, node: Any, st: St, ctxinfo: str = '') -> St:
        if isinstance(node, (list, tuple)) or (
            isinstance(node, Obj) and node.cls == 'Workflow'
        ):
            for x in self.seq(node):
                st = self.run(x, st, ctxinfo)
            return st
        if node is None:
            return st
        if isinstance(node, Unknown):
            raise AnalysisError(f'workflow contains an unknown pass: {node}')
        if not isinstance(node, Obj):
            raise AnalysisError(f'workflow contains a non-pass: {node!r}')
        c = node.cls
        self.seen_classes.add(c)
        if c == 'IfThenElsePass':
            return self.if_(node, st)
        if c == 'WhileLoopPass':
            body = self.run(node.arg(1, 'loop_body'), st)
            return self.join(st, body, node)
        if c == 'DoWhileLoopPass':
            body = self.run(node.arg(1, 'loop_body'), st)
            return self.join(body, self.run(node.arg(1, 'loop_body'), body),
                             node)
        if c == 'ForEachBlockPass':
            return self.foreach(node, st)
        exp = alias_passes(self.ctx, node)
        if exp is not None:
            return self.run(exp, st)
        return self.leaf(node, st)

    def join(self, a: St, b: St, node: Obj) -> St:
        # different folding depths are harmless as long as an UnfoldPass
        # (unfold_all) comes before anything that cares: depth -1 = mixed
        d = a.depth if a.depth == b.depth else -1
        return St(a.facts & b.facts, d, a.scope)

    # ---- predicates ----------------------------------------------------------
    def pred_facts(self, p: Any, truth: bool) -> list[str]:
        if not isinstance(p, Obj):
            return []
        if p.cls == 'NotPredicate':
            return self.pred_facts(p.arg(0, 'predicate'), not truth)
        if p.cls == 'WidthPredicate':
            k = p.arg(0, 'width')
            if truth and k == 2:
                # a one-qudit circuit has no multi-qudit operation
                return ['MQ_NATIVE', 'ROUTED', 'WIDTH1']
            return []
        if p.cls in PREDICATES:
            t, f = PREDICATES[p.cls]
            return t if truth else f
        return []

    def if_(self, node: Obj, st: St) -> St:
        p = node.arg(0, 'condition')
        then = node.arg(1, 'on_true')
        els = node.arg(2, 'on_false')
        if not isinstance(p, Obj):
            raise AnalysisError('IfThenElsePass without a predicate object')
        self.seen_classes.add(p.cls)
        st_t = St(st.facts | frozenset(self.pred_facts(p, True)) - {'WIDTH1'},
                  st.depth, st.scope)
        st_f = St(st.facts | frozenset(self.pred_facts(p, False)) - {
            'WIDTH1'}, st.depth, st.scope)
        # scoped exception (1): best-effort branch when the model has no
        # single-qudit gates (the workflow itself logs the warning)
        tag = None
        q = p
        if q.cls == 'NoSingleQuditGatesInModel':
            tag = 'no-sq-gates-in-model'
        out_t = self.run(then, st_t)
        if tag:
            out_t = out_t.with_(add=['SQ_NATIVE'])
            self.exceptions_used.append(
                'SQ_NATIVE assumed on the NoSingleQuditGatesInModel branch '
                '(documented best effort; the workflow logs a warning)')
        if q.cls == 'ManyQuditGatesPredicate' and st.has('ROUTED') and (
            not out_t.has('ROUTED')
        ):
            # scoped exception (2): the many-qudit branch of the
            # multi-qudit retarget synthesises on all-to-all block
            # connectivity (documented in build_multi_qudit_retarget_
            # workflow's docstring); after mapping only 2-qudit swaps are
            # non-native, so the branch is not taken for routed circuits
            out_t = out_t.with_(add=['ROUTED'])
            self.exceptions_used.append(
                'ROUTED assumed preserved in the ManyQuditGatesPredicate '
                'branch of the post-mapping multi-qudit retarget '
                '(documented limitation)')
        out_f = self.run(els, st_f) if els is not None else st_f
        return self.join(out_t, out_f, node)

    # ---- for each block -------------------------------------------------------
    def foreach(self, node: Obj, st: St) -> St:
        body = node.arg(0, 'loop_body')
        rf = node.kwargs.get('replace_filter', 'always')
        if len(node.args) > 3:
            rf = node.args[3]
        if isinstance(rf, str):
            self.filters.append((rf, node.lineno))
        custom_collect = 'collection_filter' in node.kwargs
        if st.depth == -1:
            self.issue(
                'unbalanced-fold', 'ForEachBlockPass runs where the '
                'branches before it left the circuit at different folding '
                'depths', node)
            return st
        if st.depth < 1:
            self.issue(
                'foreach-unfolded', 'ForEachBlockPass runs on an unfolded '
                'circuit: there are no blocks to work on (its body never '
                'runs)', node)
            return st
        inner = St(st.facts, st.depth - 1, 'block')
        out = self.run(body, inner)
        if out.depth != inner.depth:
            self.issue(
                'unbalanced-fold', 'the body of ForEachBlockPass leaves its '
                f'block at folding depth {out.depth}, entered at '
                f'{inner.depth}', node)
        if st.has('CONN_REAL') != out.has('CONN_REAL'):
            self.issue(
                'conn-unbalanced', 'the body of ForEachBlockPass does not '
                'restore the model connectivity it extracted (or restores '
                'one it never extracted)', node)
        facts = set(st.facts)
        both_in = st.has('MQ_NATIVE') and st.has('ROUTED')
        for f in ('MQ_NATIVE', 'ROUTED', 'SQ_NATIVE'):
            inn, bod = st.has(f), out.has(f)
            if custom_collect or not isinstance(rf, str):
                res = inn and bod
            elif rf == 'always':
                res = bod
            elif rf in LESS_THAN:
                res = inn and bod
            elif rf in RESPECTING:
                if f == 'SQ_NATIVE':
                    res = inn and bod
                else:
                    res = True if both_in else bod
            elif rf in RESPECTING_FULLY:
                all_in = both_in and st.has('SQ_NATIVE')
                res = True if all_in else bod
            else:
                self.issue(
                    'unknown-filter', f'replace filter {rf!r} is not a key '
                    'of the replace_filters registry', node)
                res = inn and bod
            if res:
                facts.add(f)
            else:
                facts.discard(f)
        # ROUTED can only be claimed for new blocks if they were produced
        # under the real connectivity
        return St(frozenset(facts), st.depth, st.scope)

    # ---- leaves ---------------------------------------------------------------
    def leaf(self, node: Obj, st: St) -> St:
        c = node.cls
        self.leaves += 1
        if c in MUTATING or (c in EFFECTS and EFFECTS[c].get('search')):
            if self.need_meas and not st.has('MEAS_OUT'):
                self.issue(
                    'meas-order', f'{c} rewrites the circuit while the '
                    'measurements are still in it (ExtractMeasurements must '
                    'precede every rewriting pass and RestoreMeasurements '
                    'must come last)', node)
        if c in NEUTRAL:
            return st
        if c not in EFFECTS:
            raise AnalysisError(
                f'pass {c} (compile.py:{node.lineno}) occurs in a standard '
                'workflow but has no entry in the pass effect table '
                '(sa/rules/wftypestate.py)')
        e = EFFECTS[c]
        for r in e.get('req', []):
            if not st.has(r):
                self.issue(
                    f'requires-{r}', f'{c} runs although {r} does not hold '
                    'at that point of the workflow', node)
        for r in e.get('req_not', []):
            if st.has(r):
                self.issue(
                    f'requires-not-{r}', f'{c} runs although {r} still '
                    'holds (unbalanced extract/restore)', node)
        if 'fold' in e:
            if e['fold'] != 0 and st.depth == -1:
                self.issue(
                    'unbalanced-fold', f'{c} runs where the branches '
                    'before it left the circuit at different folding '
                    'depths', node)
                return st
            d = 0 if e['fold'] == 0 else st.depth + e['fold']
            return st.with_(depth=d)
        if e.get('search'):
            return self.search(node, st)
        add = list(e.get('est', []))
        drop = list(e.get('drop', []))
        for f in e.get('est_if_conn_real', []):
            (add if st.has('CONN_REAL') else drop).append(f)
        return st.with_(add=add, drop=drop)

    def search(self, node: Obj, st: St) -> St:
        """Search synthesis: the layer generator decides what it emits."""
        if not st.has('MODEL'):
            self.issue('requires-MODEL', f'{node.cls} runs before '
                       'SetModelPass', node)
        if st.scope == 'circuit' and not st.has('TARGET'):
            self.issue(
                'requires-TARGET', f'{node.cls} runs on the whole input '
                'before SetTargetPass (it would synthesise the wrong '
                'target)', node)
        lg = node.kwargs.get('layer_generator')
        inner = node.kwargs.get('inner_synthesis')
        if node.cls == 'PermutationAwareSynthesisPass' and isinstance(
            inner, Obj,
        ):
            return self.search(inner, st)
        if isinstance(lg, Obj) and lg.cls == 'SingleQuditLayerGenerator':
            # single-qudit search: native single-qudit gates of the model
            return st.with_(add=['SQ_NATIVE', 'MQ_NATIVE', 'ROUTED'])
        # default / model generator: native multi-qudit gates + an
        # arbitrary (general) single-qudit gate; follows the connectivity
        # that is in force
        add = ['MQ_NATIVE']
        drop = ['SQ_NATIVE']
        if st.has('CONN_REAL'):
            add.append('ROUTED')
        else:
            drop.append('ROUTED')
        return st.with_(add=add, drop=drop)
