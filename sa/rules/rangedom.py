"""RANGEDOM: an index runs over the domain of the table it indexes.

Several graph utilities hold two tables side by side, one per graph
(`degs` over `range(self.num_qudits)`, `other_degs` over
`range(graph.num_qudits)`), and nested loops that index them.  A loop whose
variable indexes a table built over `range(E)` has to range over that same
`range(E)`: a smaller range silently skips candidates (no error is raised,
the pattern is merely "not found"), a larger one raises KeyError only for
some inputs.

Instances are discovered per function under the given prefixes: a dict or
list comprehension `T = {q: ... for q in range(E)}` / `[... for q in
range(E)]` bound to a local T, and a `for v in range(F)` loop whose body
subscripts `T[v]`.
"""
from __future__ import annotations

import ast

from ..engine import Ctx
from ..report import Report
from ..source import norm

RULE = 'RANGEDOM'


def _range_arg(it: ast.AST) -> str | None:
    if isinstance(it, ast.Call) and norm(it.func) == 'range' and len(
            it.args) == 1:
        return norm(it.args[0])
    return None


def rule_rangedom(ctx: Ctx, rep: Report, prefixes: tuple[str, ...],
                  floor: int) -> int:
    n = 0
    for f in sorted(ctx.index.all_functions(), key=lambda f: f.qualname):
        if not f.path.startswith(prefixes):
            continue
        tables: dict[str, str] = {}
        for st in ast.walk(f.node):
            if isinstance(st, ast.Assign) and isinstance(
                    st.targets[0], ast.Name) and isinstance(
                    st.value, (ast.DictComp, ast.ListComp)) and len(
                    st.value.generators) == 1:
                gen = st.value.generators[0]
                dom = _range_arg(gen.iter)
                if dom is None or not isinstance(gen.target, ast.Name):
                    continue
                if isinstance(st.value, ast.DictComp) and norm(
                        st.value.key) != gen.target.id:
                    continue
                tables[st.targets[0].id] = dom
        if not tables:
            continue
        for lp in ast.walk(f.node):
            if not (isinstance(lp, ast.For) and isinstance(
                    lp.target, ast.Name)):
                continue
            dom = _range_arg(lp.iter)
            if dom is None:
                continue
            v = lp.target.id
            used = sorted({
                s.value.id for s in ast.walk(lp)
                if isinstance(s, ast.Subscript) and isinstance(
                    s.value, ast.Name) and s.value.id in tables
                and isinstance(s.slice, ast.Name) and s.slice.id == v})
            for t in used:
                n += 1
                rep.count()
                rep.seen(f.qualname)
                short = (f.cls.name + '.' if f.cls else '') + f.name
                rep.check(
                    dom == tables[t], RULE, f'{short}:{t}[{v}]', f.path,
                    lp.lineno,
                    f'`{v}` ranges over range({dom}), the domain of `{t}`',
                    f'in {short}, `{v}` ranges over range({dom}) but indexes '
                    f'`{t}`, which is defined over range({tables[t]}): '
                    'entries outside the smaller range are never looked at '
                    '(or a KeyError for some inputs)', key='domain',
                )
    rep.floor(RULE, n, floor, f'table-indexing loops under {prefixes}')
    return n
