"""Rules about `optimize(env_matrix)` of locally optimisable gates
(`argmax Re Tr(env_matrix @ U(params))`, bqskit/qis/unitary/optimizable.py).

MAGBLIND  When one parameter multiplies two or more entries of the
          environment (`a*exp(-i t/2) + b*exp(i t/2)` in a multiplexed RZ),
          the best angle depends on the *magnitudes* of those entries as
          well as on their phases: it is the phase of a combination of them.
          A value built from `np.angle(<one entry>)` terms of two or more
          different entries, and from nothing else of the environment, is
          invariant under rescaling one entry and therefore cannot be the
          optimum - neither of Re Tr nor of |Tr|.  (A single `np.angle` of
          one entry, or of a sum, quotient or product of entries, is fine;
          so is the difference to the phase of an entry at a constant
          position, a common reference as in DiagonalGate.)

TOTAL     `GeneralGate.optimize` hands `calc_params` the unitary closest to
          the environment - an arbitrary unitary.  A class that inherits
          this `optimize` must have a `calc_params` that accepts every
          unitary of its shape: no `raise` reachable from it (two calls
          deep) may be guarded by a test on the matrix content.  Tests on
          radixes, shape, squareness, unitarity or hermiticity (of the
          logarithm) are implied by the argument being a unitary of the
          gate's shape and are exempt.
"""
from __future__ import annotations

import ast

from ..engine import Ctx
from ..report import Report
from ..source import ClassInfo
from ..source import FunctionInfo
from ..source import norm
from . import valnum

# guard texts that hold for every unitary of the gate's own shape
IMPLIED = ('radixes', 'shape', 'is_square_matrix', 'is_unitary',
           'is_hermitian', 'num_qudits', 'dim', 'len(', 'isinstance(',
           'is_valid_radixes', 'is_integer', 'is_sequence')


def _env_entries(e: ast.AST, env: str) -> list[ast.Subscript]:
    return [
        x for x in ast.walk(e)
        if isinstance(x, ast.Subscript) and norm(x.value) == env
    ]


def rule_magblind(ctx: Ctx, rep: Report, gates: list[ClassInfo],
                  floor: int) -> None:
    R = 'MAGBLIND'
    n = 0
    for c in gates:
        f = c.methods.get('optimize')
        if f is None or len(f.params) < 2:
            continue
        env = f.params[1]
        if not any(_env_entries(f.node, env)):
            continue
        n += 1
        rep.seen(f.qualname)
        g = ctx.cfg(f)
        bad = []
        for node in g.nodes:
            if node.kind != 'stmt' or not isinstance(
                    node.stmt, (ast.Assign, ast.Return, ast.AugAssign)):
                continue
            v = node.stmt.value
            if v is None:
                continue
            # only statements that deliver a parameter value: a store into
            # a subscript / the returned list
            if isinstance(node.stmt, ast.Assign) and not any(
                    isinstance(t, ast.Subscript) for t in node.stmt.targets):
                continue
            e = valnum.subst(ctx, f, node, v)
            entries = {norm(x) for x in _env_entries(e, env)}
            if len(entries) < 2:
                continue
            single = set()
            covered = 0
            for k in ast.walk(e):
                if isinstance(k, ast.Call) and norm(k.func).endswith(
                        '.angle') and len(k.args) == 1:
                    inner = _env_entries(k.args[0], env)
                    if len({norm(x) for x in inner}) == 1 and isinstance(
                            k.args[0], ast.Subscript):
                        covered += 1
                        # an entry at a constant position is a common
                        # reference phase (DiagonalGate's base), not an
                        # entry this parameter multiplies
                        if any(isinstance(y, ast.Name)
                               for y in ast.walk(inner[0].slice)):
                            single.add(norm(inner[0]))
            total = len(_env_entries(e, env))
            if len(single) >= 2 and covered == total:
                bad.append((node, sorted(single)))
        rep.count()
        rep.check(
            not bad, R, f'{c.name}.optimize', f.path,
            bad[0][0].lineno if bad else f.lineno,
            'no parameter is computed from the separate phases of several '
            'environment entries',
            (f'{c.name}.optimize computes a parameter from the separate '
             f'phases of {", ".join(bad[0][1])} only: the value does not '
             'change when one of these entries is rescaled, but the '
             'maximiser of Re Tr(env @ U) does (it is the phase of a '
             'combination of the entries)') if bad else None,
            key='separate-phases',
        )
    rep.floor(R, n, floor, 'optimize methods that read environment entries')


def _content_raises(ctx: Ctx, f: FunctionInfo, depth: int,
                    seen: set[str]) -> list[tuple[FunctionInfo, int, str]]:
    out: list[tuple[FunctionInfo, int, str]] = []
    if f.qualname in seen:
        return out
    seen.add(f.qualname)
    g = ctx.cfg(f)
    for node in g.nodes:
        if node.kind == 'stmt' and isinstance(node.stmt, ast.Raise):
            guards = valnum.guards_text(g, node)
            if not guards:
                continue
            tx = ' and '.join(guards)
            if any(k in tx for k in IMPLIED):
                continue
            out.append((f, node.lineno, tx))
    if depth > 0:
        for call in [x for x in ast.walk(f.node) if isinstance(x, ast.Call)]:
            r = ctx.index.resolve_call(call, f)
            if isinstance(r, FunctionInfo) and r.path.startswith('bqskit/'):
                out += _content_raises(ctx, r, depth - 1, seen)
    return out


def rule_total(ctx: Ctx, rep: Report, gates: list[ClassInfo],
               floor: int) -> None:
    R = 'TOTAL'
    n = 0
    for c in gates:
        if not ctx.index.is_subclass(c, 'GeneralGate') or (
                c.name == 'GeneralGate'):
            continue
        opt = ctx.index.lookup_method(c, 'optimize')
        calc = ctx.index.lookup_method(c, 'calc_params')
        if opt is None or calc is None or opt.cls is None or (
                opt.cls.name != 'GeneralGate'):
            continue
        n += 1
        rep.seen(calc.qualname)
        rep.count()
        partial = _content_raises(ctx, calc, 2, set())
        # an abstract / not-implemented calc_params is not a partial one
        partial = [p for p in partial if 'NotImplemented' not in p[2]]
        rep.check(
            not partial, R, f'{c.name}.calc_params', calc.path, calc.lineno,
            'calc_params accepts every unitary that the inherited '
            'GeneralGate.optimize can hand it',
            (f'{c.name} inherits GeneralGate.optimize, which passes the '
             'unitary closest to the environment (an arbitrary unitary) to '
             f'calc_params, but {partial[0][0].qualname} (line '
             f'{partial[0][1]}) raises when `{partial[0][2]}`: optimize '
             'raises on a valid environment') if partial else None,
            key='partial-calc-params',
        )
    rep.floor(R, n, floor, 'GeneralGate subclasses inheriting optimize')


# ---------------------------------------------------------------------------
# NANDOM / DEGEN: inverse trigonometry on matrix-derived values
# ---------------------------------------------------------------------------

NAN_DOC = """NANDOM  `np.arccos(x)` / `np.arcsin(x)` return NaN for |x| > 1.  A value that
        is a modulus or a real part taken from a unitary is <= 1 only in exact
        arithmetic; after normalisation it can be 1.0000000000000002.  Accepted
        spellings: the argument is clipped (`np.clip`, `min`/`max`), or it is the
        normalised ratio `a / np.sqrt(a**2 + b**2)` (<= 1 in IEEE arithmetic as
        well), or a constant.

DEGEN   In a `calc_params` (the inverse of a parametrisation) a division by
        `np.cos(t)` / `np.sin(t)` of an angle `t` recovered earlier in the same
        function is a division by zero for the unitaries at which that angle
        is a multiple of pi/2 - permutation-like and diagonal matrices, the
        identity among them - unless a test of the denominator guards it.
"""

_POSITIVE = '''
def f(u):
    x = np.abs(u[0, 0])
    return 2 * np.arccos(x)
'''

_POSITIVE_DEGEN = '''
def calc_params(self, utry):
    t = np.arcsin(np.abs(utry[0, 1]))
    return [t, np.angle(utry[0, 0] / np.cos(t))]
'''


def _is_ratio(e: ast.AST) -> bool:
    """a / np.sqrt(a ** 2 + b ** 2 [+ ...]) with `a` among the squares."""
    if not (isinstance(e, ast.BinOp) and isinstance(e.op, ast.Div)):
        return False
    den = e.right
    if not (isinstance(den, ast.Call) and norm(den.func).endswith('sqrt')
            and len(den.args) == 1):
        return False
    terms = []
    todo = [den.args[0]]
    while todo:
        t = todo.pop()
        if isinstance(t, ast.BinOp) and isinstance(t.op, ast.Add):
            todo += [t.left, t.right]
        else:
            terms.append(t)
    sq = set()
    for t in terms:
        if isinstance(t, ast.BinOp) and isinstance(t.op, ast.Pow) and (
                isinstance(t.right, ast.Constant) and t.right.value == 2):
            sq.add(norm(t.left))
        elif isinstance(t, ast.BinOp) and isinstance(t.op, ast.Mult) and (
                norm(t.left) == norm(t.right)):
            sq.add(norm(t.left))
        else:
            return False
    return norm(e.left) in sq


def _nan_sites(fn_node: ast.AST, subst) -> list[tuple[ast.Call, str]]:
    out = []
    for c in ast.walk(fn_node):
        if not (isinstance(c, ast.Call) and len(c.args) == 1):
            continue
        fn = norm(c.func)
        if fn.rsplit('.', 1)[-1] not in ('arccos', 'arcsin', 'acos', 'asin'):
            continue
        a = subst(c.args[0])
        if isinstance(a, ast.Constant):
            continue
        if isinstance(a, ast.Call) and norm(a.func).rsplit('.', 1)[-1] in (
                'clip', 'min', 'max', 'minimum', 'maximum'):
            continue
        if _is_ratio(a):
            continue
        out.append((c, norm(c)))
    return out


def rule_nandom(ctx: Ctx, rep: Report, prefixes: tuple[str, ...],
                floor: int) -> None:
    R = 'NANDOM'
    # the matcher is exercised on a built-in positive example on every run
    pos = ast.parse(_POSITIVE).body[0]
    if len(_nan_sites(pos, lambda e: e)) != 1:
        from ..source import AnalysisError
        raise AnalysisError('NANDOM no longer matches its positive example')
    n = 0
    for f in ctx.index.all_functions():
        if not f.path.startswith(prefixes):
            continue
        calls = [c for c in ast.walk(f.node) if isinstance(c, ast.Call)
                 and norm(c.func).rsplit('.', 1)[-1] in (
                     'arccos', 'arcsin', 'acos', 'asin')]
        if not calls:
            continue
        g = ctx.cfg(f)

        def sub(e: ast.AST, f=f, g=g) -> ast.AST:
            node = g.node_containing(e)
            return valnum.subst(ctx, f, node, e) if node is not None else e
        sites = {id(c) for c, _t in _nan_sites(f.node, sub)}
        for c in calls:
            n += 1
            rep.count()
            rep.seen(f.qualname)
            rep.check(
                id(c) not in sites, R,
                (f.cls.name + '.' if f.cls is not None else '') + f.name,
                f.path,
                c.lineno,
                f'`{norm(c)}`: the argument is clipped or a normalised ratio',
                f'`{norm(c)}` in {f.qualname}: the argument is taken from a '
                'matrix and bounded by 1 only in exact arithmetic; after '
                'rounding it can be 1.0000000000000002 and the result NaN '
                '(clip it, or use arctan2)',
                key=norm(c),
            )
    rep.floor(R, n, floor, 'inverse sine / cosine calls')


def rule_degen(ctx: Ctx, rep: Report, gates: list[ClassInfo],
               floor: int) -> None:
    R = 'DEGEN'
    n = 0
    # the matcher is exercised on a built-in positive example on every run
    pos = ast.parse(_POSITIVE_DEGEN).body[0]
    hits = [
        d for d in ast.walk(pos)
        if isinstance(d, ast.BinOp) and isinstance(d.op, ast.Div) and any(
            isinstance(k, ast.Call) and norm(k.func).rsplit('.', 1)[-1] in (
                'cos', 'sin') for k in ast.walk(d.right))
    ]
    if len(hits) != 1:
        from ..source import AnalysisError
        raise AnalysisError('DEGEN no longer matches its positive example')
    fns = 0
    for c in gates:
        f = c.methods.get('calc_params')
        if f is None:
            continue
        g = ctx.cfg(f)
        tests = ' ; '.join(
            norm(t.stmt.test) for t in g.nodes
            if t.kind == 'test' and hasattr(t.stmt, 'test'))
        seen_here = False
        for node in g.nodes:
            if node.kind != 'stmt':
                continue
            for d in node.walk():
                if not (isinstance(d, ast.BinOp) and isinstance(
                        d.op, ast.Div)):
                    continue
                trig = [
                    k for k in ast.walk(d.right)
                    if isinstance(k, ast.Call) and norm(k.func).rsplit(
                        '.', 1)[-1] in ('cos', 'sin') and k.args
                    and not isinstance(k.args[0], ast.Constant)
                ]
                if not trig:
                    continue
                seen_here = True
                n += 1
                rep.count()
                guarded = any(norm(k) in tests or norm(k.args[0]) in tests
                              for k in trig)
                rep.check(
                    guarded, R, f'{c.name}.calc_params', f.path, d.lineno,
                    f'division by `{norm(d.right)}` is guarded by a test',
                    f'{c.name}.calc_params divides by `{norm(d.right)}`, the '
                    'cosine / sine of an angle it has just recovered, with '
                    'no test of the denominator: for the unitaries at which '
                    'that angle is a multiple of pi/2 (identity, diagonal '
                    'and permutation-like matrices) the result is NaN or '
                    'wrong parameters',
                    key=norm(d.right),
                )
        rep.seen(f.qualname)
        fns += 1
        if not seen_here:
            rep.count()
            rep.ok(R, f'{c.name}.calc_params', f.path, f.lineno,
                   'no division by a sine / cosine of a recovered angle')
    rep.floor(R, fns, floor, 'calc_params methods examined')


_POSITIVE_EIG = '''
def demultiplex(U_1, U_2):
    d2, V = eig(U_1 @ U_2.conj().T)
    return UnitaryMatrix(V), d2
'''


def _eig_sites(fn: ast.AST) -> list[tuple[ast.Assign, str]]:
    """`vals, V = eig(...)` (any eig that is not eigh) whose V is later
    wrapped as a UnitaryMatrix in the same function."""
    out = []
    for s in ast.walk(fn):
        if not (isinstance(s, ast.Assign) and isinstance(s.value, ast.Call)):
            continue
        name = norm(s.value.func).rsplit('.', 1)[-1]
        if name != 'eig':
            continue
        tg = s.targets[0]
        if not (isinstance(tg, ast.Tuple) and len(tg.elts) == 2
                and isinstance(tg.elts[1], ast.Name)):
            continue
        v = tg.elts[1].id
        for k in ast.walk(fn):
            if isinstance(k, ast.Call) and norm(k.func) == 'UnitaryMatrix' \
                    and k.args and isinstance(k.args[0], ast.Name) and (
                        k.args[0].id == v):
                out.append((s, v))
                break
    return out


def rule_eigunit(ctx: Ctx, rep: Report, prefixes: tuple[str, ...]) -> None:
    """EIGUNIT: the eigenvector matrix of `eig()` is unitary only when all
    eigenvalues differ; for a repeated eigenvalue the returned vectors span
    the eigenspace but are not orthogonal.  Code that needs a unitary
    diagonaliser of a normal matrix uses the complex Schur form (as QSDPass
    does) or `eigh`; wrapping `eig`'s vectors in a UnitaryMatrix fails on
    every degenerate input (permutations, tensor products, controlled
    gates)."""
    R = 'EIGUNIT'
    if len(_eig_sites(ast.parse(_POSITIVE_EIG))) != 1:
        from ..source import AnalysisError
        raise AnalysisError('EIGUNIT no longer matches its positive example')
    n = 0
    dec = 0
    for f in ctx.index.all_functions():
        if not f.path.startswith(prefixes):
            continue
        n += 1
        uses = [c for c in ast.walk(f.node) if isinstance(c, ast.Call)
                and norm(c.func).rsplit('.', 1)[-1] in ('eig', 'schur', 'eigh')]
        if not uses:
            continue
        dec += 1
        rep.count()
        rep.seen(f.qualname)
        bad = _eig_sites(f.node)
        rep.check(
            not bad, R,
            (f.cls.name + '.' if f.cls is not None else '') + f.name,
            f.path, bad[0][0].lineno if bad else f.lineno,
            'no eig() eigenvector matrix is used as a unitary',
            (f'{f.qualname} wraps `{bad[0][1]}`, the eigenvectors returned '
             f'by `{norm(bad[0][0].value)[:50]}`, as a UnitaryMatrix: they '
             'are not orthogonal when an eigenvalue repeats, so every '
             'degenerate input raises "Input failed unitary condition"'
             ) if bad else None,
            key='eig-vectors',
        )
    rep.floor(R, dec, 2, 'functions that diagonalise a matrix')
