"""ADJOINT: a complex matrix that a function adjoins with `.conj().T` is not
also transposed bare.

A contradiction rule in Engler's sense: if a function writes `M.conj().T`
for a name M somewhere, the author believes M is complex and that the
Hermitian adjoint is what is wanted; a bare `M.T` of the same name in the
same function contradicts that belief (for real data the two coincide, so
tests with real amplitudes pass).  Permutation matrices and other real
operands are never adjoined with `.conj()` in this code base, so they give
no instances.

Instances are discovered per function under the given prefixes: names (or
attribute chains) M that occur as `M.conj().T` / `M.T.conj()`.
"""
from __future__ import annotations

import ast
import json
import os

from ..engine import Ctx
from ..report import Report
from ..source import norm

RULE = 'ADJOINT'


def _adjoined(fn: ast.AST) -> dict[str, int]:
    out: dict[str, int] = {}
    for n in ast.walk(fn):
        # M.conj().T
        if isinstance(n, ast.Attribute) and n.attr == 'T' and isinstance(
                n.value, ast.Call) and isinstance(
                n.value.func, ast.Attribute) and n.value.func.attr in (
                'conj', 'conjugate') and not n.value.args:
            out.setdefault(norm(n.value.func.value), n.lineno)
        # M.T.conj()
        if isinstance(n, ast.Call) and isinstance(
                n.func, ast.Attribute) and n.func.attr in (
                'conj', 'conjugate') and isinstance(
                n.func.value, ast.Attribute) and n.func.value.attr == 'T':
            out.setdefault(norm(n.func.value.value), n.lineno)
    return out


def _bare_transposes(fn: ast.AST, name: str) -> list[int]:
    covered: set[int] = set()
    for n in ast.walk(fn):
        if isinstance(n, ast.Call) and isinstance(
                n.func, ast.Attribute) and n.func.attr in (
                'conj', 'conjugate') and isinstance(
                n.func.value, ast.Attribute) and n.func.value.attr == 'T':
            covered.add(id(n.func.value))
    return [n.lineno for n in ast.walk(fn) if isinstance(n, ast.Attribute)
            and n.attr == 'T' and norm(n.value) == name
            and id(n) not in covered]


TABLE = os.path.join(os.path.dirname(os.path.dirname(
    os.path.abspath(__file__))), 'tables', 'adjoint.json')


def reference() -> dict[str, list[str]]:
    """(function qualname -> names adjoined there) on the pinned tree; the
    instances confirmed then stay obligations: turning the only
    `M.conj().T` of a function into `M.T` removes the belief together with
    its contradiction, so the belief is remembered."""
    try:
        with open(TABLE) as fh:
            return json.load(fh)
    except OSError:
        return {}


def build_table(root: str = '/repo') -> dict[str, list[str]]:
    ctx = Ctx(root)
    out = {}
    for f in ctx.index.all_functions():
        names = sorted(_adjoined(f.node))
        if names:
            out[f'{f.path}:{f.qualname}'] = names
    return out


def rule_adjoint(ctx: Ctx, rep: Report, prefixes: tuple[str, ...],
                 floor: int) -> int:
    n = 0
    ref = reference()
    for f in sorted(ctx.index.all_functions(), key=lambda f: f.qualname):
        if not f.path.startswith(prefixes):
            continue
        found = _adjoined(f.node)
        for name in ref.get(f'{f.path}:{f.qualname}', []):
            found.setdefault(name, f.lineno)
        for name, line in sorted(found.items()):
            n += 1
            rep.count()
            rep.seen(f.qualname)
            bare = _bare_transposes(f.node, name)
            short = (f.cls.name + '.' if f.cls else '') + f.name
            rep.check(
                not bare, RULE, f'{short}:{name}', f.path, line,
                f'`{name}` is only ever adjoined (conjugate transpose)',
                f'{short} adjoins `{name}` with `.conj().T` at line {line} '
                f'but transposes it without conjugation at line '
                f'{bare[0] if bare else 0}: for complex data the two differ '
                '(for real amplitudes they coincide, which is all the tests '
                'use)', key='bare-transpose',
            )
    rep.floor(RULE, n, floor, f'adjoined matrices under {prefixes}')
    return n
