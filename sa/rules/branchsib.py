"""ALTSPELL: two arms of a conditional that emit the same thing in two
spellings agree on everything but the spelling.

Several passes choose between interchangeable gates by a flag
(`if use_u1: c.append_gate(U1Gate(), 0, [p]) else: c.append_gate(RZGate(),
0, [p])`).  The choice of gate is the *only* thing the flag may change:
the location and the parameter list of the two calls must be the same
expressions.  Instances are discovered: every `if` under the given source
prefix whose two arms are each exactly one call of the same method with the
same number of arguments, whose first arguments are different gate
constructors.
"""
from __future__ import annotations

import ast

from ..engine import Ctx
from ..report import Report
from ..source import norm

RULE = 'ALTSPELL'


def _single_call(block: list[ast.stmt]) -> ast.Call | None:
    if len(block) == 1 and isinstance(block[0], ast.Expr) and isinstance(
            block[0].value, ast.Call):
        return block[0].value
    return None


def _is_ctor(e: ast.AST) -> bool:
    return isinstance(e, ast.Call) and isinstance(
        e.func, ast.Name) and e.func.id[:1].isupper()


def rule_altspell(ctx: Ctx, rep: Report, prefix: str, floor: int) -> int:
    n = 0
    for path, mod in sorted(ctx.index.by_path.items()):
        if not path.startswith(prefix):
            continue
        for node in ast.walk(mod.tree):
            if not isinstance(node, ast.If) or not node.orelse:
                continue
            a, b = _single_call(node.body), _single_call(node.orelse)
            if a is None or b is None or norm(a.func) != norm(b.func):
                continue
            if len(a.args) != len(b.args) or not a.args or a.keywords \
                    or b.keywords:
                continue
            if not (_is_ctor(a.args[0]) and _is_ctor(b.args[0])) or norm(
                    a.args[0]) == norm(b.args[0]):
                continue
            n += 1
            rep.count()
            diff = [(norm(x), norm(y)) for x, y in zip(a.args[1:], b.args[1:])
                    if norm(x) != norm(y)]
            rep.check(
                not diff, RULE,
                f'{path}:{norm(node.test)}:{norm(a.args[0])}|'
                f'{norm(b.args[0])}', path, node.lineno,
                'both spellings receive the same location and parameters',
                f'`if {norm(node.test)}` chooses between {norm(a.args[0])} '
                f'and {norm(b.args[0])} but the two calls also differ in '
                + ', '.join(f'`{x}` vs `{y}`' for x, y in diff)
                + ': the two spellings no longer implement the same '
                'operation', key=f'{norm(node.test)}@{_ordinal(mod, node)}',
            )
    rep.floor(RULE, n, floor, f'alternative-spelling conditionals under '
              f'{prefix}')
    return n


def _ordinal(mod, node: ast.If) -> int:
    """Position among the module's conditionals with the same test (keys
    must not contain line numbers)."""
    same = [x for x in ast.walk(mod.tree) if isinstance(x, ast.If)
            and norm(x.test) == norm(node.test)]
    same.sort(key=lambda x: (x.lineno, x.col_offset))
    return same.index(node)
