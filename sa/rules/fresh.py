"""FRESH rule: identifier allocators hand out values that were never handed
out before.

The runtime distinguishes mailboxes and tasks only by small integers.  A
late RESULT / CANCEL for a mailbox that was dropped is ignored *because* its
id can never name a newer mailbox (worker.py:_handle_result, detached.py:
handle_result).  That argument needs the allocator to be a monotone counter:

  (1) the allocated value is the counter (or derived only from it),
  (2) the counter is advanced by a positive constant on every path through
      the allocator, and
  (3) nothing else in the class writes the counter, except the constructor's
      initialisation to a constant.

Instances are (class, allocator, counter expression) triples; (3) is decided
over every method of the class.
"""
from __future__ import annotations

import ast

from ..dataflow import atoms
from ..engine import Ctx
from ..report import Report
from ..source import norm

FRESH = 'FRESH'


def _counter_writes(fn_node: ast.AST, counter: str):
    for n in ast.walk(fn_node):
        if isinstance(n, ast.AugAssign) and norm(n.target) == counter:
            yield n
        elif isinstance(n, (ast.Assign, ast.AnnAssign)):
            tg = n.targets if isinstance(n, ast.Assign) else [n.target]
            for t in tg:
                for x in ast.walk(t):
                    if isinstance(x, (ast.Attribute, ast.Name)) and norm(
                            x) == counter and isinstance(
                            getattr(x, 'ctx', None), ast.Store):
                        yield n
        elif isinstance(n, ast.Delete):
            for t in n.targets:
                if norm(t) == counter:
                    yield n


def _is_step(n: ast.AST) -> bool:
    return (
        isinstance(n, ast.AugAssign) and isinstance(n.op, ast.Add)
        and isinstance(n.value, ast.Constant)
        and isinstance(n.value.value, int) and n.value.value > 0
    )


def rule_fresh(
    ctx: Ctx, rep: Report, cls_qual: str, alloc: str, counter: str,
    result: str | None, what: str, also: tuple[str, ...] = (),
) -> None:
    """`result` is None when the allocator returns the id, otherwise the
    attribute (e.g. 'self.task_id') that receives it."""
    ci = ctx.cls(cls_qual)
    f = ctx.fn(f'{cls_qual}.{alloc}')
    g = ctx.cfg(f)
    rd = ctx.rd(f)
    cname = cls_qual.split(':')[1]
    tag = f'{cname}.{alloc}'
    rep.seen(f.qualname)
    rep.count(3)
    # (2) advanced on every path
    steps = [n for n in g.nodes if n.stmt is not None and _is_step(n.stmt)
             and norm(n.stmt.target) == counter]
    rep.check(
        bool(steps) and g.must(lambda n: n in steps), FRESH, f'{tag}:advance',
        f.path, f.lineno, f'{counter} is advanced on every path',
        f'{what}: the allocator can return without advancing {counter}, so '
        'two live objects can receive the same id', key='advance',
    )
    # (1) the id handed out derives from the counter only
    outs = []
    if result is None:
        outs = [(n, n.stmt.value) for n in g.nodes
                if isinstance(n.stmt, ast.Return) and n.stmt.value is not None]
    else:
        outs = [(n, n.stmt.value) for n in g.nodes
                if isinstance(n.stmt, ast.Assign)
                and any(norm(t) == result for t in n.stmt.targets)]
    ok = bool(outs)
    why = ''
    prefixes = {'.'.join(counter.split('.')[:i])
                for i in range(1, counter.count('.') + 1)}
    for n, e in outs:
        leaves = _leaves(ctx, f, n, e)
        if counter not in leaves:
            ok = False
            why = f'`{norm(e)}` does not derive from {counter}'
        extra = leaves - {counter} - prefixes
        if extra:
            ok = False
            why = (f'`{norm(e)}` also depends on {sorted(extra)}: the id is '
                   'no longer the next counter value')
    rep.check(
        ok, FRESH, f'{tag}:source', f.path, f.lineno,
        f'the id is derived from {counter} alone',
        f'{what}: {why or "no id is produced"}; ids of dropped objects can '
        'be handed out again, and a late message for the old object is '
        'then delivered to the new one', key='source',
    )
    # (3) no other writer
    others = []
    everyone = list(ci.methods.values())
    for sub in also:
        everyone += list(ctx.cls(sub).methods.values())
    for m in everyone:
        for w in _counter_writes(m.node, counter):
            if m.name == alloc and _is_step(w):
                continue
            if m.name == '__init__' and isinstance(
                    w, (ast.Assign, ast.AnnAssign)) and isinstance(
                    w.value, ast.Constant):
                continue
            others.append((m, w))
    rep.check(
        not others, FRESH, f'{cname}:{counter}:writers', f.path, f.lineno,
        f'{counter} is written only by its initialisation and {alloc}',
        f'{what}: {counter} is also written in '
        + ', '.join(f'{m.name}:{w.lineno}' for m, w in others)
        + ' — a reset or decrement makes ids repeat', key='writers',
    )


def _leaves(ctx: Ctx, f, node, e: ast.AST) -> set[str]:
    """Transitive leaves of expression e at node: dotted atoms without a
    reaching definition inside the function (an augmented assignment keeps
    the name itself as a leaf)."""
    rd = ctx.rd(f)
    seen: set[tuple[int, str]] = set()
    out: set[str] = set()
    todo = [(node.id, a) for a in atoms(e)]
    while todo:
        nid, a = todo.pop()
        if (nid, a) in seen:
            continue
        seen.add((nid, a))
        defs = [d for d in rd.reaching(nid, a) if d.kind != 'param']
        if not defs:
            out.add(a)
            continue
        for d in defs:
            if d.kind != 'assign' or d.value is None or d.partial:
                out.add(a)
                continue
            for b in atoms(d.value):
                todo.append((d.node.id, b))
    return out
