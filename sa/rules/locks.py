"""Lock-state dataflow: which locks are held at each CFG node.

`held_at(g, 'must')` = held on every path reaching the node (intersection),
`held_at(g, 'may')`  = held on some path (union).  `with L:` bodies hold L.
"""
from __future__ import annotations

import ast

from ..cfg import CFG
from ..source import norm


def lock_ops(n) -> list[tuple[str, str]]:
    out = []
    for c in n.calls():
        if isinstance(c.func, ast.Attribute) and c.func.attr in (
            'acquire', 'release',
        ):
            out.append((c.func.attr, norm(c.func.value)))
    return out


def held_at(g: CFG, mode: str = 'must'):
    TOP = None  # unreached
    IN: dict[int, frozenset[str] | None] = {n.id: TOP for n in g.nodes}
    OUT: dict[int, frozenset[str] | None] = {n.id: TOP for n in g.nodes}
    IN[g.entry] = frozenset()
    changed = True
    rounds = 0
    while changed and rounds < 100:
        changed = False
        rounds += 1
        for n in g.nodes:
            if n.id == g.entry:
                i: frozenset[str] | None = frozenset()
            else:
                preds = [OUT[p] for p, _l in g.pred[n.id]]
                reached = [p for p in preds if p is not None]
                if not reached:
                    i = None
                elif mode == 'must':
                    i = frozenset.intersection(*reached)
                else:
                    i = frozenset.union(*reached)
            if i is None:
                o = None
            else:
                s = set(i)
                for op, lk in lock_ops(n):
                    if op == 'acquire':
                        s.add(lk)
                    else:
                        s.discard(lk)
                o = frozenset(s)
            if i != IN[n.id] or o != OUT[n.id]:
                IN[n.id] = i
                OUT[n.id] = o
                changed = True
    for n in g.nodes:
        if n.kind == 'with':
            names = frozenset(norm(it.context_expr) for it in n.stmt.items)
            inside = {id(x) for st in n.stmt.body for x in ast.walk(st)}
            for m in g.nodes:
                if m.stmt is not None and id(m.stmt) in inside:
                    if IN[m.id] is not None:
                        IN[m.id] = IN[m.id] | names
                    if OUT[m.id] is not None:
                        OUT[m.id] = OUT[m.id] | names
    return IN, OUT


def holds(IN, nid: int, lock: str) -> bool:
    s = IN[nid]
    return s is not None and lock in s


def pairing_problems(g: CFG, lock: str) -> list[str]:
    """acquire/release of `lock` is bracket-like on every normal path."""
    mustI, mustO = held_at(g, 'must')
    mayI, mayO = held_at(g, 'may')
    bad = []
    for n in g.nodes:
        for op, lk in lock_ops(n):
            if lk != lock:
                continue
            if op == 'acquire' and mayI[n.id] is not None and lock in (
                mayI[n.id]
            ):
                bad.append(f'line {n.lineno}: acquired while it may already '
                           'be held (self-deadlock)')
            if op == 'release' and mustI[n.id] is not None and lock not in (
                mustI[n.id]
            ):
                bad.append(f'line {n.lineno}: released on a path where it '
                           'is not held')
    for p, lab in g.pred[g.exit]:
        if mayO[p] is not None and lock in mayO[p]:
            bad.append(
                f'still held at the exit after line {g.nodes[p].lineno} '
                f'(`{g.nodes[p].text()[:40]}`)')
    return bad
