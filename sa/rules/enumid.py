"""ENUMID: an index produced by enumerate() identifies an element of the
sequence that was enumerated - not of the sequence it was filtered from.

Analytic synthesis passes use the enumeration index as an identifier (the
Walsh / Pauli-Z string id in diagonal synthesis, the block number in QSD).
Enumerating a *filtered* view - a boolean-masked array `x[x != 0]`, a
comprehension with a condition, `filter(...)` - renumbers the survivors
0, 1, 2, ... and silently re-labels every element after the first one that
was dropped.  Skipping elements is fine when the condition is applied to the
(index, value) pairs *after* enumeration.

Instances are discovered: every `enumerate(E)` under the given prefixes; the
rule fires when E is a masked subscript, a filtered comprehension or a
filter() call.
"""
from __future__ import annotations

import ast

from ..engine import Ctx
from ..report import Report
from ..source import norm

RULE = 'ENUMID'


def _filtered(e: ast.AST) -> str | None:
    if isinstance(e, ast.Subscript):
        s = e.slice
        if isinstance(s, (ast.Compare, ast.BoolOp)) or (
                isinstance(s, ast.UnaryOp) and isinstance(s.op, ast.Invert)):
            return 'a boolean-masked array'
        if isinstance(s, ast.Call) and norm(s.func) in (
                'np.nonzero', 'np.where', 'np.flatnonzero'):
            return 'an index-selected array'
    if isinstance(e, (ast.ListComp, ast.GeneratorExp)) and any(
            g.ifs for g in e.generators):
        return 'a filtered comprehension'
    if isinstance(e, ast.Call) and norm(e.func) in ('filter', 'list') and (
            e.args):
        if norm(e.func) == 'filter':
            return 'filter(...)'
        return _filtered(e.args[0])
    return None


def rule_enumid(ctx: Ctx, rep: Report, prefixes: tuple[str, ...],
                floor: int) -> int:
    n = 0
    for path, mod in sorted(ctx.index.by_path.items()):
        if not path.startswith(prefixes):
            continue
        k = 0
        for c in ast.walk(mod.tree):
            if not (isinstance(c, ast.Call) and norm(c.func) == 'enumerate'
                    and c.args):
                continue
            n += 1
            k += 1
            rep.count()
            why = _filtered(c.args[0])
            rep.check(
                why is None, RULE, f'{path}:enumerate#{k}', path, c.lineno,
                f'`{norm(c)[:60]}` enumerates an unfiltered sequence',
                f'`{norm(c)}` enumerates {why}: the indices number the '
                'survivors, so every element after the first one dropped is '
                'identified as its predecessor (filter the (index, value) '
                'pairs after enumerating instead)', key='filtered',
            )
    rep.floor(RULE, n, floor, f'enumerate() calls under {prefixes}')
    return n
