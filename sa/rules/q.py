"""Node predicates and small queries used by path rules."""
from __future__ import annotations

import ast
from typing import Callable
from typing import Iterable

from ..cfg import CFG
from ..cfg import Node
from ..source import norm

Pred = Callable[[Node], bool]


def call_texts(n: Node) -> list[tuple[str, list[str], ast.Call]]:
    return [
        (norm(c.func), [norm(a) for a in c.args], c) for c in n.calls()
    ]


def has_call(
    name: str, args: list[str] | None = None, suffix: bool = False,
) -> Pred:
    """Node evaluates a call whose callee text equals `name` (or ends with
    `.name` when suffix=True), optionally with exactly these positional
    argument texts."""
    def pred(n: Node) -> bool:
        for fn, a, _c in call_texts(n):
            ok = fn == name or (suffix and (
                fn.endswith('.' + name) or fn == name))
            if ok and (args is None or a == args):
                return True
        return False
    return pred


def has_any_call(names: Iterable[str], suffix: bool = False) -> Pred:
    ps = [has_call(n, suffix=suffix) for n in names]
    return lambda n: any(p(n) for p in ps)


def is_test_with_call(name: str, args: list[str] | None = None) -> Pred:
    """The node is a test whose condition *is* that call (so that the true
    edge means the call returned true; a negated or combined condition does
    not match)."""
    def pred(n: Node) -> bool:
        if n.kind != 'test':
            return False
        t = n.stmt.test  # type: ignore[union-attr]
        if isinstance(t, ast.Await):
            t = t.value
        if not isinstance(t, ast.Call) or norm(t.func) != name:
            return False
        return args is None or [norm(a) for a in t.args] == args
    return pred


def assigns(target: str, value: str | None = None) -> Pred:
    def pred(n: Node) -> bool:
        st = n.stmt
        if n.kind != 'stmt':
            return False
        if isinstance(st, ast.Assign):
            tg = [norm(t) for t in st.targets]
        elif isinstance(st, (ast.AnnAssign, ast.AugAssign)):
            tg = [norm(st.target)]
        else:
            return False
        if target not in tg:
            return False
        return value is None or (
            st.value is not None and norm(st.value) == value)
    return pred


def either(*ps: Pred) -> Pred:
    return lambda n: any(p(n) for p in ps)


def dominated(g: CFG, n: Node, test: Node, label: str) -> bool:
    return g.edge_dominates(test.id, label, n.id)


def tests_where(g: CFG, pred: Callable[[ast.AST], bool]) -> list[Node]:
    return [t for t in g.nodes if t.kind == 'test' and pred(t.stmt.test)]


def path_text(path: list[Node], limit: int = 6) -> str:
    ks = [p for p in path if p.kind in ('test', 'for', 'except')
          or isinstance(p.stmt, (ast.Return, ast.Continue, ast.Break))]
    return ' -> '.join(f'L{p.lineno}:{p.text()[:40]}' for p in ks[:limit])
