"""STABLEMOVE: moving one element of a location to the end (or the front)
keeps the order of all the others.

Passes that normalise a multiplexed / controlled gate re-order its location
with slice arithmetic, `X[:t] + X[t+1:] + [X[t]]`.  The gate that is then
built assumes exactly this order of the remaining qudits (select qudits in
their original order, target last), so the expression must be an *ordered
complement*: the slices, in the order written, are [0, t) and (t, end) and
the single element is X[t].  A rotation such as `X[t+1:] + X[:t] + [X[t]]`
is still a permutation of the qudits and therefore survives every test in
which the target is first or last.

Instances are discovered: every `+` chain all of whose operands are slices
of one name, or one-element lists `[X[i]]` of that name.
"""
from __future__ import annotations

import ast

from ..engine import Ctx
from ..report import Report
from ..source import norm

RULE = 'STABLEMOVE'


def _chain(e: ast.AST) -> list[ast.AST]:
    if isinstance(e, ast.BinOp) and isinstance(e.op, ast.Add):
        return _chain(e.left) + _chain(e.right)
    return [e]


def _lin(e: ast.AST | None) -> tuple[str, int] | None:
    """(symbolic part, constant) of `sym`, `sym + c`, `c`."""
    if e is None:
        return ('', 0)
    if isinstance(e, ast.Constant) and isinstance(e.value, int):
        return ('', e.value)
    if isinstance(e, ast.BinOp) and isinstance(e.op, (ast.Add, ast.Sub)) \
            and isinstance(e.right, ast.Constant) and isinstance(
            e.right.value, int):
        sg = 1 if isinstance(e.op, ast.Add) else -1
        return (norm(e.left), sg * e.right.value)
    return (norm(e), 0)


def rule_stablemove(ctx: Ctx, rep: Report, prefix: str, floor: int) -> int:
    n = 0
    for path, mod in sorted(ctx.index.by_path.items()):
        if not path.startswith(prefix):
            continue
        inner: set[int] = set()
        for node in ast.walk(mod.tree):
            if not (isinstance(node, ast.BinOp) and isinstance(
                    node.op, ast.Add)) or id(node) in inner:
                continue
            for x in ast.walk(node):
                if x is not node and isinstance(x, ast.BinOp):
                    inner.add(id(x))
            parts = _chain(node)
            if len(parts) != 3:
                continue
            base = None
            kinds = []
            for p in parts:
                if isinstance(p, ast.Subscript) and isinstance(
                        p.slice, ast.Slice) and p.slice.step is None:
                    b, k = norm(p.value), ('slice', p.slice)
                elif isinstance(p, ast.List) and len(p.elts) == 1 and \
                        isinstance(p.elts[0], ast.Subscript) and not \
                        isinstance(p.elts[0].slice, ast.Slice):
                    b, k = norm(p.elts[0].value), ('elem', p.elts[0].slice)
                else:
                    base = None
                    break
                if base not in (None, b):
                    base = None
                    break
                base = b
                kinds.append(k)
            if base is None or sorted(k for k, _ in kinds) != [
                    'elem', 'slice', 'slice']:
                continue
            n += 1
            rep.count()
            (s1, s2) = [v for k, v in kinds if k == 'slice']
            t = [v for k, v in kinds if k == 'elem'][0]
            tl = _lin(t)
            ok = (
                kinds[0][0] != kinds[2][0]  # the element is first or last
                and kinds[1][0] == 'slice'
                and _lin(s1.lower) == ('', 0) and _lin(s1.upper) == tl
                and _lin(s2.lower) == (tl[0], tl[1] + 1)
                and s2.upper is None
            )
            rep.check(
                ok, RULE, f'{path}:{base}:{norm(t)}', path, node.lineno,
                f'`{norm(node)[:70]}` moves element {norm(t)} and keeps the '
                'order of the others',
                f'`{norm(node)}` is not `{base}[:t] + {base}[t+1:]` with '
                f'`[{base}[t]]` at one end (t = {norm(t)}): the remaining '
                'elements are rotated, not kept in order; the gate built on '
                'this location acts on permuted qudits whenever the moved '
                'element is neither first nor last', key='order',
            )
    rep.floor(RULE, n, floor, f'move-one-element expressions under {prefix}')
    return n
