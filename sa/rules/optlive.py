"""OPTLIVE: an option a pass accepts is an option the pass reads.

A pass constructor that stores an argument on the instance
(`self.collection_filter = collection_filter or default_collection_filter`)
documents a behaviour.  If no method of the class, of its bases or of its
subclasses, and no function of the defining module ever loads that
attribute, the option is accepted, validated, stored - and ignored
(`TreeScanningGateRemovalPass(collection_filter=...)` removed the operations
the filter was meant to protect).

Instances are discovered: every `self.<name> = <expression mentioning a
constructor parameter>` in the `__init__` of a class under the given
prefixes.  A read is an attribute load of `<name>` on any object inside the
class family or the defining module (so helpers taking the pass as an
argument count), or a `getattr` / `vars` / `__dict__` use in the family
(reflection reads everything).
"""
from __future__ import annotations

import ast

from ..engine import Ctx
from ..report import Report
from ..source import ClassInfo

RULE = 'OPTLIVE'


def rule_shiftdir(ctx: Ctx, rep: Report, prefixes: tuple[str, ...],
                  floor: int) -> None:
    """SHIFTDIR: a scan that can run in either direction corrects the cycle
    index of the next operation by the number of cycles deleted so far only
    when it runs from the left - deleted cycles lie *behind* a right-to-left
    scan and shift nothing.  In every function that knows the direction
    (`start_from_left`), a statement that computes an index shift from
    `.num_cycles` is reached only under a test of the direction."""
    from . import valnum
    from ..source import norm
    R = 'SHIFTDIR'
    n = 0
    for f in ctx.index.all_functions():
        if not f.path.startswith(prefixes):
            continue
        # the function, or the class it helps, knows the scan direction
        scope = f.cls.node if f.cls is not None else f.node
        names = {x.id for x in ast.walk(scope) if isinstance(x, ast.Name)}
        attrs = {x.attr for x in ast.walk(scope)
                 if isinstance(x, ast.Attribute)}
        if 'start_from_left' not in names | attrs:
            continue
        g = ctx.cfg(f)
        for node in g.nodes:
            st = node.stmt
            if node.kind != 'stmt' or not isinstance(
                    st, (ast.Assign, ast.AugAssign)):
                continue
            tg = st.targets[0] if isinstance(st, ast.Assign) else st.target
            if not (isinstance(tg, ast.Name) and 'shift' in tg.id):
                continue
            if not any(isinstance(x, ast.Attribute) and x.attr == 'num_cycles'
                       for x in ast.walk(st.value)):
                continue
            n += 1
            rep.count()
            rep.seen(f.qualname)
            gt = ' ; '.join(valnum.guards_text(g, node))
            rep.check(
                'start_from_left' in gt, R,
                (f.cls.name + '.' if f.cls is not None else '') + f.name
                + ':' + tg.id, f.path, node.lineno,
                f'`{norm(st)}` is computed only when scanning from the left',
                f'`{norm(st)}` in {f.qualname} corrects the next cycle index '
                'by the number of deleted cycles whatever the direction of '
                'the scan: from the right the deleted cycles lie behind the '
                'scan, the corrected index is wrong or negative',
                key='unguarded',
            )
    rep.floor(R, n, floor, 'index-shift computations in directional scans')


def _family(ctx: Ctx, c: ClassInfo) -> list[ClassInfo]:
    fam = {id(k): k for k in ctx.index.mro(c)}
    for k in ctx.index.subclasses(c):
        fam[id(k)] = k
    return list(fam.values())


def rule_optlive(ctx: Ctx, rep: Report, prefixes: tuple[str, ...],
                 floor: int, allow: dict[str, str] | None = None) -> None:
    allow = allow or {}
    n = 0
    for c in ctx.index.classes.values():
        if not c.path.startswith(prefixes):
            continue
        init = c.methods.get('__init__')
        if init is None:
            continue
        params = set(init.params) - {'self'}
        stored: dict[str, int] = {}
        from_params: dict[str, set[str]] = {}
        for s in ast.walk(init.node):
            if isinstance(s, (ast.Assign, ast.AnnAssign)):
                tg = s.targets if isinstance(s, ast.Assign) else [s.target]
                if s.value is None:
                    continue
                used = {x.id for x in ast.walk(s.value)
                        if isinstance(x, ast.Name)}
                if not (used & params):
                    continue
                for t in tg:
                    if isinstance(t, ast.Attribute) and isinstance(
                            t.value, ast.Name) and t.value.id == 'self':
                        stored.setdefault(t.attr, s.lineno)
                        from_params.setdefault(t.attr, set()).update(
                            used & params)
        if not stored:
            continue
        # an option consumed while constructing (handed to a sub-pass, used
        # to build templates) is used: any mention of the parameter or of
        # the attribute in __init__ outside the storing statement and the
        # validation blocks (an `if` whose body only raises)
        consumed: set[str] = set()

        def scan(stmts: list[ast.stmt]) -> None:
            for st in stmts:
                if isinstance(st, ast.If) and (
                    (all(isinstance(b, ast.Raise) for b in st.body)
                     and not st.orelse)
                    # canonical form of `if not X: raise` (sa/dealpha.py)
                    or (all(isinstance(b, ast.Pass) for b in st.body)
                        and st.orelse and all(isinstance(
                            b, ast.Raise) for b in st.orelse))
                ):
                    continue
                if isinstance(st, (ast.Assign, ast.AnnAssign)):
                    tg = st.targets if isinstance(
                        st, ast.Assign) else [st.target]
                    if any(isinstance(t, ast.Attribute) and isinstance(
                            t.value, ast.Name) and t.value.id == 'self'
                            and t.attr in stored for t in tg) and not any(
                                isinstance(k, ast.Call)
                                for k in ast.walk(st.value or st)):
                        continue
                if isinstance(st, (ast.If, ast.For, ast.While, ast.With,
                                   ast.Try)):
                    for fld in ('body', 'orelse', 'finalbody'):
                        scan(getattr(st, fld, []) or [])
                    for h in getattr(st, 'handlers', []):
                        scan(h.body)
                    hdr = [getattr(st, 'test', None), getattr(
                        st, 'iter', None)]
                    nodes = [x for h in hdr if h is not None
                             for x in ast.walk(h)]
                else:
                    nodes = list(ast.walk(st))
                for x in nodes:
                    if isinstance(x, ast.Name) and x.id in params:
                        consumed.add(x.id)
                    if isinstance(x, ast.Attribute) and isinstance(
                            x.ctx, ast.Load) and isinstance(
                                x.value, ast.Name) and x.value.id == 'self':
                        consumed.add(x.attr)
        scan(init.node.body)
        fam = _family(ctx, c)
        loads: set[str] = set()
        reflective = False
        # what an instance of c can execute: its own methods, inherited
        # methods it does not override, everything of its subclasses, and
        # the module-level functions next to it
        trees: list[ast.AST] = []
        for k in fam:
            if k is c or ctx.index.is_subclass(k, c.name) and k is not c and (
                    k not in ctx.index.mro(c)):
                trees.append(k.node)
                continue
            for m in k.methods.values():
                if ctx.index.lookup_method(c, m.name) is m:
                    trees.append(m.node)
        trees += [
            st for st in c.module.tree.body
            if isinstance(st, (ast.FunctionDef, ast.AsyncFunctionDef))
        ]
        own_init = {id(x) for x in ast.walk(init.node)}
        for tr in trees:
            for x in ast.walk(tr):
                if id(x) in own_init:
                    # validation of the argument in the constructor itself
                    # is not a use of the option
                    continue
                if isinstance(x, ast.Attribute) and isinstance(
                        x.ctx, ast.Load):
                    loads.add(x.attr)
                    if x.attr == '__dict__' and isinstance(
                            x.value, ast.Name) and x.value.id == 'self':
                        reflective = True
                elif isinstance(x, ast.Call) and isinstance(
                        x.func, ast.Name) and x.func.id in (
                            'getattr', 'vars') and x.args and isinstance(
                                x.args[0], ast.Name) and (
                                    x.args[0].id == 'self') and not (
                                        len(x.args) > 1 and isinstance(
                                            x.args[1], ast.Constant)):
                    reflective = True
        for name, line in sorted(stored.items()):
            n += 1
            rep.count()
            key = f'{c.name}.{name}'
            ok = name in loads or reflective or key in allow or (
                name in consumed) or bool(from_params[name] & consumed)
            rep.check(
                ok, RULE, key, c.path, line,
                f'`self.{name}` is read by the class family or its module'
                + (f' (allowed: {allow[key]})' if key in allow else ''),
                f'{c.name}.__init__ stores its argument as `self.{name}` '
                'but no method of the class, its bases or subclasses, nor '
                'any function of the module, ever reads it: the option is '
                'accepted and ignored',
                key='never-read',
            )
        rep.seen(init.qualname)
    rep.floor(RULE, n, floor, 'constructor options stored on pass instances')
