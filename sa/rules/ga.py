"""GA: guarded accept (DESIGN 4/C01(b), C03, C10).

A candidate circuit is committed (returned, become()-ed, stored in the
accumulator that is later committed) only under
`cost(candidate, target) < threshold`, with a data-flow link between the
compared value and the committed object.
"""
from __future__ import annotations

import ast

from ..cfg import CFG
from ..cfg import Node
from ..engine import Ctx
from ..report import Report
from ..source import AnalysisError
from ..source import FunctionInfo
from ..source import norm

THR = {'self.success_threshold', 'success_threshold'}
MUTATORS = {
    'pop', 'append', 'append_gate', 'append_circuit', 'insert',
    'insert_gate', 'replace', 'replace_gate', 'replace_with_circuit',
    'remove', 'fold', 'unfold', 'unfold_all', 'instantiate', 'set_params',
    'become', 'clear', 'compress', 'renumber_qudits',
}
# documented, per-instance exceptions (one reason each)
BEST_EFFORT = {
    'QSearchSynthesisPass.synthesize': 'frontier exhausted: best circuit is '
    'returned after two warnings (documented best-effort exit)',
    'LEAPSynthesisPass.synthesize': 'frontier exhausted: best circuit is '
    'returned after two warnings (documented best-effort exit)',
}
POST_GUARD_MUTATION_OK = {
    'ExtractDiagonalPass.decompose': 'pops the diagonal it extracted; run() '
    'merges it into the neighbouring block',
}
# functions that only compute a boolean from the threshold (no commit)
AUXILIARY = {'LEAPSynthesisPass.check_new_best'}


class Guard:
    def __init__(self, node: Node, accept: str, cand: str, target: str,
                 kind: str) -> None:
        self.node = node
        self.accept = accept   # edge label on which the candidate is within
        self.cand = cand
        self.target = target
        self.kind = kind       # direct | local | parallel | identity


def _thr_compare(t: ast.AST):
    """(X expr, accept-on-true?) for a bare comparison with the threshold."""
    if not (isinstance(t, ast.Compare) and len(t.ops) == 1):
        return None
    l, r, op = t.left, t.comparators[0], t.ops[0]
    if norm(r) in THR and isinstance(op, (ast.Lt, ast.LtE)):
        return l, True
    if norm(r) in THR and isinstance(op, (ast.Gt, ast.GtE)):
        return l, False
    if norm(l) in THR and isinstance(op, (ast.Gt, ast.GtE)):
        return r, True
    if norm(l) in THR and isinstance(op, (ast.Lt, ast.LtE)):
        return r, False
    return None


def _cost_call(e: ast.AST):
    if isinstance(e, ast.Call) and len(e.args) >= 2:
        fn = norm(e.func)
        if fn.endswith('cost') or fn.endswith('calc_cost'):
            return norm(e.args[0]), norm(e.args[1])
    return None


def guards(ctx: Ctx, f: FunctionInfo) -> tuple[list[Guard], list[str]]:
    g = ctx.cfg(f)
    rd = ctx.rd(f)
    out: list[Guard] = []
    problems: list[str] = []
    for n in g.nodes:
        if n.kind != 'test':
            continue
        test = n.stmt.test
        mentions = any(norm(x) in THR for x in ast.walk(test))
        if not mentions:
            continue
        c = _thr_compare(test)
        if c is None:
            problems.append(
                f'line {n.lineno}: `{norm(test)[:60]}` combines the '
                'threshold with other conditions; not an accept guard')
            continue
        X, on_true = c
        accept = 'true' if on_true else 'false'
        cc = _cost_call(X)
        if cc:
            out.append(Guard(n, accept, cc[0], cc[1], 'direct'))
            continue
        if isinstance(X, ast.Call) and norm(X.func).endswith(
            '.get_distance_from',
        ):
            out.append(Guard(n, accept, norm(X.func.value), norm(X.args[0]),
                             'identity'))
            continue
        if isinstance(X, ast.Name):
            defs = rd.reaching(n, X.id)
            cands = set()
            for d in defs:
                if d.kind == 'param':
                    cands.add(('?param', ''))
                    continue
                if d.value is None:
                    cands.add(('?', ''))
                    continue
                cc = _cost_call(d.value)
                if cc:
                    cands.add(cc)
                    continue
                if d.kind == 'for':
                    # for i, dist in enumerate(dists)
                    it = d.node.stmt.iter
                    tgt = d.node.stmt.target
                    if isinstance(it, ast.Call) and norm(
                        it.func) == 'enumerate' and isinstance(
                            tgt, ast.Tuple) and isinstance(
                                it.args[0], ast.Name):
                        idx = norm(tgt.elts[0])
                        lst = it.args[0].id
                        ld = [x for x in rd.reaching(d.node, lst)
                              if x.value is not None]
                        ok = False
                        for x in ld:
                            v = x.value
                            if isinstance(v, ast.ListComp) and len(
                                v.generators) == 1:
                                cc2 = _cost_call(v.elt)
                                gen = v.generators[0]
                                if cc2 and cc2[0] == norm(gen.target):
                                    cands.add((f'{norm(gen.iter)}[{idx}]',
                                               cc2[1]))
                                    ok = True
                        if ok:
                            continue
                    # for cand, dist in zip(candidates, dists), with
                    # dists = [cost(c, target) for c in candidates]
                    if isinstance(it, ast.Call) and norm(
                        it.func) == 'zip' and isinstance(
                            tgt, ast.Tuple) and len(tgt.elts) == len(
                                it.args) and all(isinstance(
                                    a, ast.Name) for a in it.args):
                        names = [norm(t) for t in tgt.elts]
                        ok = False
                        if X.id in names:
                            lst = it.args[names.index(X.id)].id
                            for x in rd.reaching(d.node, lst):
                                v = x.value
                                if isinstance(v, ast.ListComp) and len(
                                        v.generators) == 1:
                                    cc2 = _cost_call(v.elt)
                                    gen = v.generators[0]
                                    srcs = [norm(a) for a in it.args]
                                    if cc2 and cc2[0] == norm(
                                            gen.target) and norm(
                                                gen.iter) in srcs:
                                        cands.add((names[srcs.index(
                                            norm(gen.iter))], cc2[1]))
                                        ok = True
                        if ok:
                            continue
                cands.add(('?', norm(d.value)[:40]))
            if len(cands) == 1 and not next(iter(cands))[0].startswith('?'):
                cand, tgt_ = next(iter(cands))
                kind = 'parallel' if '[' in cand else 'local'
                out.append(Guard(n, accept, cand, tgt_, kind))
                continue
            problems.append(
                f'line {n.lineno}: `{norm(test)[:60]}` compares `{X.id}`, '
                f'which is not (only) the cost of one candidate: '
                f'{sorted(cands)}')
            continue
        problems.append(
            f'line {n.lineno}: `{norm(test)[:60]}` does not compare a cost '
            'of a candidate with the threshold')
    return out, problems


def _dominating(g: CFG, guards_: list[Guard], n: Node) -> list[Guard]:
    return [gd for gd in guards_
            if g.edge_dominates(gd.node.id, gd.accept, n.id)]


def _loop_exit_guard(g: CFG, gd: Guard) -> bool:
    return isinstance(gd.node.stmt, ast.While) and gd.accept == 'false'


def _mutations_between(g: CFG, gd: Guard, sink: Node, cand: str) -> list[Node]:
    """Nodes on some path accept-edge -> sink that call a mutator on cand."""
    starts = [b for b, l in g.succ[gd.node.id] if l == gd.accept]
    fw = g.reach(starts, blocked=[sink.id])
    out = []
    for nid in fw:
        n = g.nodes[nid]
        if sink.id not in g.reach([nid], include_starts=False):
            continue
        for c in n.calls():
            if isinstance(c.func, ast.Attribute) and norm(
                c.func.value) == cand and c.func.attr in MUTATORS:
                out.append(n)
            elif isinstance(c.func, ast.Attribute) and norm(
                c.func.value) == 'self' and any(
                    norm(a) == cand for a in c.args):
                out.append(n)
    return out


def check_function(ctx: Ctx, rep: Report, f: FunctionInfo, rule: str) -> int:
    """Returns the number of commit sites judged."""
    qn = f'{f.cls.name + "." if f.cls else ""}{f.name}'
    if qn in AUXILIARY:
        return 0
    g = ctx.cfg(f)
    rd = ctx.rd(f)
    rep.seen(f.qualname)
    gs, problems = guards(ctx, f)
    for p in problems:
        rep.fail(rule, qn, f.path, f.lineno,
                 'threshold test of an unrecognised shape: ' + p,
                 key='guard-shape:' + p.split('`')[1][:40] if '`' in p
                 else 'guard-shape')
    # target of every cost comparison
    for gd in gs:
        if gd.kind == 'identity':
            continue
        rep.count()
        tdeps = set()
        if gd.target in ('target', 'utry'):
            defs = rd.reaching(gd.node, gd.target)
            tdeps = {norm(d.value) if d.value is not None else d.kind
                     for d in defs}
        ok = bool(tdeps) and all(
            t == 'param' or t.startswith('self.get_target(') for t in tdeps)
        rep.check(
            ok, rule, qn + ':target', f.path, gd.node.lineno,
            f'cost is measured against the pass target (`{gd.target}`)',
            f'`{norm(gd.node.stmt.test)[:60]}` measures the candidate '
            f'against `{gd.target}` (defined by {sorted(tdeps)}), not the '
            'pass target', key=f'target:{gd.cand}',
        )
    sinks: list[tuple[Node, ast.AST, str]] = []
    for n in g.nodes:
        if isinstance(n.stmt, ast.Return) and n.stmt.value is not None:
            v = n.stmt.value
            if isinstance(v, ast.Constant):
                continue
            sinks.append((n, v, 'return'))
        for c in n.calls():
            if norm(c.func) == 'circuit.become' and c.args and (
                'circuit' in f.params
            ):
                sinks.append((n, c.args[0], 'become'))
    n_sites = 0
    for n, v, how in sinks:
        vals = list(v.elts) if isinstance(v, ast.Tuple) else [v]
        vals = [x for x in vals if not (
            isinstance(x, ast.Constant) or norm(x) in ('None',))]
        for x in vals:
            r = _judge(ctx, f, g, rd, gs, n, x, qn)
            if r is None:
                continue
            n_sites += 1
            ok, what = r
            rep.count()
            rep.check(
                ok, rule, qn + ':commit', f.path, n.lineno,
                f'{how} `{norm(x)[:40]}`: {what}',
                f'{how} `{norm(x)[:40]}` at line {n.lineno}: {what}',
                key=f'{how}:{norm(x)[:40]}',
            )
    return n_sites


def _is_circuitish(f: FunctionInfo, x: ast.AST) -> bool:
    t = norm(x)
    if isinstance(x, ast.Call):
        return t.startswith('Circuit')
    return isinstance(x, (ast.Name, ast.Subscript))


def _judge(ctx, f, g, rd, gs, n: Node, x: ast.AST, qn: str):
    t = norm(x)
    if isinstance(x, ast.Call) and norm(x.func) == 'Circuit.from_unitary':
        return True, 'the target itself'
    if not _is_circuitish(f, x):
        return None
    dom = _dominating(g, gs, n)
    direct = [gd for gd in dom if gd.cand == t]
    if direct:
        gd = direct[0]
        muts = _mutations_between(g, gd, n, t)
        if muts and qn not in POST_GUARD_MUTATION_OK:
            ok_all = True
            why = []
            for m in muts:
                fixed = _restores_guard(ctx, f, m, t)
                ok_all &= fixed
                why.append(f'line {m.lineno}: `{m.text()[:40]}`'
                           + (' (re-establishes the guard)' if fixed else ''))
            if not ok_all:
                return False, ('the candidate is modified between the '
                               'threshold test and the commit: '
                               + '; '.join(why))
        return True, f'guarded by `{norm(gd.node.stmt.test)[:50]}`'
    if isinstance(x, ast.Subscript) and isinstance(x.slice, ast.Name):
        return _judge_index(g, rd, gs, n, x)
    if isinstance(x, ast.Name):
        defs = rd.reaching(n, x.id)
        bad = []
        notes = []
        for d in defs:
            if d.kind == 'param':
                notes.append('input')
                continue
            if d.value is None and d.kind != 'for':
                bad.append(f'line {d.node.lineno}: unknown definition')
                continue
            vt = norm(d.value) if d.value is not None else ''
            if d.kind == 'assign' and vt in (
                'circuit.copy()', 'circuit', 'None',
            ):
                notes.append('input' if vt != 'None' else 'none')
                continue
            dd = [gd for gd in _dominating(g, gs, d.node) if gd.cand == vt]
            if d.kind == 'assign' and dd:
                notes.append('guarded')
                continue
            if d.kind == 'assign' and isinstance(
                d.value, ast.Subscript,
            ) and isinstance(d.value.slice, ast.Name):
                r = _judge_index(g, rd, gs, d.node, d.value)
                if r[0]:
                    notes.append('guarded-index')
                    continue
            if d.kind in ('assign', 'mutcall', 'aug') and d.partial:
                continue  # in-place edits of the accumulator: see EFF
            if d.kind == 'assign' and isinstance(d.value, ast.Call) and (
                isinstance(d.value.func, ast.Attribute)
                and d.value.func.attr == 'pop'
            ):
                return None  # a popped Operation, not a circuit
            if d.kind == 'assign' and vt.startswith('Circuit('):
                # a fresh circuit that only re-wraps the original operation
                apps = [c for c in ast.walk(f.node) if isinstance(
                    c, ast.Call) and isinstance(c.func, ast.Attribute)
                    and norm(c.func.value) == x.id
                    and c.func.attr in MUTATORS]
                if apps and all(
                    c.func.attr == 'append_gate' and len(c.args) == 3
                    and norm(c.args[0]) == 'op.gate'
                    and norm(c.args[2]) == 'op.params' for c in apps
                ):
                    notes.append('original-op')
                    continue
                notes.append('fresh')
                continue
            bad.append(f'line {d.node.lineno}: `{x.id} = {vt[:40]}` is not '
                       'under a threshold test of that value')
        if bad and qn in BEST_EFFORT:
            warn = lambda m: any(norm(c.func) == '_logger.warning'
                                 for c in m.calls())
            if not g.precedes(warn, lambda m: m is n):
                return True, ('best-effort exit, announced by a warning ('
                              + BEST_EFFORT[qn] + ')')
        if bad:
            return False, ('committed value can come from an unguarded '
                           'definition: ' + '; '.join(bad))
        if 'fresh' in notes and 'guarded' not in notes:
            return False, 'a freshly built circuit is committed unguarded'
        return True, 'every definition is the input or a guarded candidate'
    return None


def _judge_index(g, rd, gs, n: Node, x: ast.Subscript):
    lst, idx = norm(x.value), x.slice.id
    defs = rd.reaching(n, idx)
    bad = []
    for d in defs:
        vt = norm(d.value) if d.value is not None else '?'
        if vt == 'None':
            continue
        dd = [gd for gd in _dominating(g, gs, d.node)
              if gd.cand == f'{lst}[{vt}]']
        if not dd:
            bad.append(f'line {d.node.lineno}: `{idx} = {vt}` is not under '
                       f'a threshold test of `{lst}[{vt}]`')
    none_guard = [t for t in g.nodes if t.kind == 'test' and norm(
        t.stmt.test) == f'{idx} is None'
        and g.edge_dominates(t.id, 'false', n.id)]
    if bad:
        return False, '; '.join(bad)
    if any(norm(d.value) == 'None' for d in defs if d.value is not None) and (
        not none_guard
    ):
        return False, f'`{idx}` may still be None here'
    return True, f'`{idx}` is only set under the threshold test'


def _restores_guard(ctx, f: FunctionInfo, m: Node, cand: str) -> bool:
    """A helper called with the candidate ends by looping until the cost is
    back under the threshold (QFAST.finalize)."""
    for c in m.calls():
        if isinstance(c.func, ast.Attribute) and norm(c.func.value) == 'self':
            h = ctx.index.lookup_method(f.cls, c.func.attr) if f.cls else None
            if h is None:
                continue
            hg = ctx.cfg(h)
            gs, _p = guards(ctx, h)
            exits = [gd for gd in gs if _loop_exit_guard(hg, gd)]
            if not exits:
                return False
            gd = exits[-1]
            # nothing mutates after the loop
            after = hg.reach([b for b, l in hg.succ[gd.node.id]
                              if l == 'false'])
            body = hg.in_loop_body(gd.node)
            for nid in after - body:
                for cc in hg.nodes[nid].calls():
                    if isinstance(cc.func, ast.Attribute) and (
                        cc.func.attr in MUTATORS
                    ) and norm(cc.func.value) == gd.cand:
                        return False
            return True
    return False


COMMITTING = {'run', 'synthesize', 'decompose', 'finalize'}


def instances(ctx: Ctx) -> list[FunctionInfo]:
    """Functions that compare against the success threshold, plus the
    committing methods (run / synthesize / decompose / finalize) of every
    class that stores a success threshold - so that a method whose guard
    was deleted is still judged (its commits are then unguarded)."""
    out: dict[str, FunctionInfo] = {}
    for fn in ctx.index.all_functions():
        if not fn.path.startswith('bqskit/passes/'):
            continue
        if fn.name == '__init__':
            continue
        if any(isinstance(x, ast.Compare) and any(
            norm(y) in THR for y in ast.walk(x)) for x in ast.walk(fn.node)):
            out[fn.qualname] = fn
    for c in ctx.index.classes.values():
        if not c.path.startswith('bqskit/passes/'):
            continue
        init = c.methods.get('__init__')
        if init is None or not any(
            isinstance(n, ast.Assign) and any(
                norm(t) == 'self.success_threshold' for t in n.targets)
            for n in ast.walk(init.node)
        ):
            continue
        for name in COMMITTING:
            f = c.methods.get(name)
            if f is None:
                continue
            uses = any(norm(x) in THR for x in ast.walk(f.node)) or any(
                isinstance(x, ast.Call) and norm(x.func) in (
                    'self.cost', 'self.cost.calc_cost', 'cost.calc_cost')
                for x in ast.walk(f.node))
            if uses:
                out[f.qualname] = f
    return sorted(out.values(), key=lambda f: f.qualname)


def rule_ga(ctx: Ctx, rep: Report, rule: str = 'GA',
            only: set[str] | None = None) -> int:
    fs = instances(ctx)
    n = 0
    for f in fs:
        qn = f'{f.cls.name + "." if f.cls else ""}{f.name}'
        if only is not None and qn not in only:
            continue
        n += 1
        check_function(ctx, rep, f, rule)
    if only is None and len(fs) < 13:
        raise AnalysisError(
            f'GA: only {len(fs)} functions compare against the success '
            'threshold (13 confirmed by hand)')
    return n
