"""MIRROR: a forward walker and its backward sibling are mirror images.

`CircuitGridIterator.increment_iter` and `decrement_iter`, `Circuit.front`
and `rear`, `first_on` and `last_on` are written twice, once per direction.
They must stay the same program under the exchange that defines the
mirror: `<` with `>`, `<=` with `>=`, `+` with `-`, `min` with `max`,
`front` with `rear`, `next` with `prev`, and the slot constants the caller
names.  An off-by-one or a forgotten update in one direction only is exactly
what a test suite that iterates forwards does not see.

The rule mirrors the syntax tree of the second function and compares it with
the first (after the engine's usual normalisations); the first difference is
reported.
"""
from __future__ import annotations

import ast
import copy
import re

from ..engine import Ctx
from ..report import Report
from ..source import norm

RULE = 'MIRROR'
OPS = {ast.Lt: ast.Gt, ast.Gt: ast.Lt, ast.LtE: ast.GtE, ast.GtE: ast.LtE,
       ast.Add: ast.Sub, ast.Sub: ast.Add}
WORDS = [('min', 'max'), ('front', 'rear'), ('next', 'prev'),
         ('first', 'last'), ('increment', 'decrement'), ('left', 'right'),
         ('lower', 'upper')]


def _swap_words(s: str, extra: list[tuple[str, str]]) -> str:
    pairs = WORDS + extra
    pat = re.compile('|'.join(
        re.escape(w) for p in pairs for w in p))
    table = {}
    for a, b in pairs:
        table[a], table[b] = b, a
    return pat.sub(lambda m: table[m.group(0)], s)


class _Mirror(ast.NodeTransformer):
    def __init__(self, extra: list[tuple[str, str]],
                 consts: dict[object, object]) -> None:
        self.extra = extra
        self.consts = consts

    def visit_Compare(self, n: ast.Compare) -> ast.AST:
        self.generic_visit(n)
        n.ops = [OPS.get(type(o), type(o))() for o in n.ops]
        return n

    def visit_BinOp(self, n: ast.BinOp) -> ast.AST:
        self.generic_visit(n)
        if type(n.op) in OPS:
            n.op = OPS[type(n.op)]()
        return n

    def visit_AugAssign(self, n: ast.AugAssign) -> ast.AST:
        self.generic_visit(n)
        if type(n.op) in OPS:
            n.op = OPS[type(n.op)]()
        return n

    def visit_Attribute(self, n: ast.Attribute) -> ast.AST:
        self.generic_visit(n)
        n.attr = _swap_words(n.attr, self.extra)
        return n

    def visit_Name(self, n: ast.Name) -> ast.AST:
        n.id = _swap_words(n.id, self.extra)
        return n

    def visit_Constant(self, n: ast.Constant) -> ast.AST:
        if not isinstance(n.value, bool) and n.value in self.consts:
            return ast.copy_location(ast.Constant(self.consts[n.value]), n)
        return n


def _body(fn: ast.AST) -> list[ast.stmt]:
    b = list(fn.body)
    if b and isinstance(b[0], ast.Expr) and isinstance(
            b[0].value, ast.Constant) and isinstance(b[0].value.value, str):
        b = b[1:]
    return b


def rule_mirror(
    ctx: Ctx, rep: Report, qual_a: str, qual_b: str,
    extra: list[tuple[str, str]] | None = None,
    consts: dict[object, object] | None = None,
) -> None:
    fa, fb = ctx.fn(qual_a), ctx.fn(qual_b)
    rep.seen(fa.qualname, fb.qualname)
    rep.count()
    mb = [_Mirror(extra or [], consts or {}).visit(copy.deepcopy(s))
          for s in _body(fb.node)]
    ta = [norm(s) for s in _body(fa.node)]
    tb = [norm(ast.fix_missing_locations(s)) for s in mb]
    diff = ''
    if ta != tb:
        for x, y in zip(ta, tb):
            if x != y:
                i = next((k for k, (c, d) in enumerate(zip(x, y)) if c != d),
                         min(len(x), len(y)))
                diff = (f'`…{x[max(0, i - 30):i + 40]}…` vs mirrored '
                        f'`…{y[max(0, i - 30):i + 40]}…`')
                break
        else:
            diff = f'{len(ta)} statements vs {len(tb)}'
    a = qual_a.split(':')[1]
    b = qual_b.split(':')[1].split('.')[-1]
    rep.check(
        ta == tb, RULE, f'{a}~{b}', fb.path, fb.lineno,
        f'{b} is the mirror image of {a.split(".")[-1]}',
        f'{b} is not the mirror image of {a.split(".")[-1]} (exchange of '
        f'< and >, + and -, min and max, …): {diff}. One direction of the '
        'walk visits, skips or bounds something the other does not',
        key='mirror',
    )
