"""GRADSYM: a hand-written gradient is the derivative of the hand-written
unitary, entry by entry.

A gate that spells out `get_unitary` as matrices of sines, cosines and
phases of its parameters and `get_grad` as a second set of such matrices
makes a claim that can be decided from the two texts: matrix i of the
gradient is d/d params[i] of the unitary.  Both methods are straight-line
code; the rule reads them into the ring of polynomials over the atoms

    sin(a*params[k])   cos(a*params[k])   exp(i*a*params[k])

(with complex coefficients; `@`, `*`, `+`, `-`, `/ constant` and matrix
literals are interpreted, products of phases of one parameter are merged),
differentiates the unitary symbolically and compares the polynomials.  No
trigonometric identities are applied: both texts are written over the same
temporaries in this code base, so a derivative spelt through an identity
would be reported as a difference - none is today.

A class whose methods use anything else (matrix exponentials, loops,
delegation) is listed as not decided.  Nothing is executed.
"""
from __future__ import annotations

import ast
import math
from fractions import Fraction

from ..engine import Ctx
from ..report import Report
from ..source import ClassInfo
from ..source import norm

RULE = 'GRADSYM'
TOL = 1e-9


class Unsupported(Exception):
    pass


# ---- polynomials ----------------------------------------------------------
# monomial: tuple(sorted(items)) of {('S'|'C', k, a): power, ('E', k): a}
# poly: dict monomial -> complex

def _mono(d: dict) -> tuple:
    return tuple(sorted((k, v) for k, v in d.items() if v != 0))


def const(c: complex) -> dict:
    return {(): complex(c)} if abs(c) > 0 else {}


def add(a: dict, b: dict, s: complex = 1) -> dict:
    out = dict(a)
    for m, c in b.items():
        v = out.get(m, 0) + s * c
        if abs(v) > TOL:
            out[m] = v
        else:
            out.pop(m, None)
    return out


def mul(a: dict, b: dict) -> dict:
    out: dict = {}
    for m1, c1 in a.items():
        for m2, c2 in b.items():
            d = dict(m1)
            for k, v in m2:
                d[k] = d.get(k, 0) + v
            m = _mono(d)
            v = out.get(m, 0) + c1 * c2
            if abs(v) > TOL:
                out[m] = v
            else:
                out.pop(m, None)
    return out


def atom(kind: str, k: int, a) -> dict:
    if kind == 'E':
        return {_mono({('E', k): a}): 1 + 0j}
    return {_mono({(kind, k, a): 1}): 1 + 0j}


def diff(p: dict, k: int) -> dict:
    out: dict = {}
    for m, c in p.items():
        d = dict(m)
        for key, pw in m:
            if key[1] != k:
                continue
            rest = dict(d)
            if key[0] == 'E':
                # d/dx exp(i a x) = i a exp(i a x)
                out = add(out, {m: c * 1j * float(pw)})
                continue
            a = key[2]
            rest[key] = pw - 1
            other = ('C' if key[0] == 'S' else 'S', k, a)
            rest[other] = rest.get(other, 0) + 1
            sign = 1 if key[0] == 'S' else -1
            out = add(out, {_mono(rest): c * pw * float(a) * sign})
    return out


def same(a: dict, b: dict) -> bool:
    return not add(a, b, -1)


def show(p: dict) -> str:
    if not p:
        return '0'
    parts = []
    for m, c in sorted(p.items(), key=lambda x: str(x[0])):
        names = []
        for key, pw in m:
            if key[0] == 'E':
                names.append(f'exp({pw:g}i*p{key[1]})')
            else:
                f = 'sin' if key[0] == 'S' else 'cos'
                a = '' if key[2] == 1 else f'{float(key[2]):g}*'
                names.append(f'{f}({a}p{key[1]})' + (
                    f'^{pw}' if pw != 1 else ''))
        cs = f'{c.real:g}' if abs(c.imag) < TOL else (
            f'{c.imag:g}i' if abs(c.real) < TOL else f'({c:g})')
        parts.append('*'.join([cs] + names))
    return ' + '.join(parts)


# ---- reading straight-line numpy ------------------------------------------

class Lin:
    """c0 + sum coef[k] * params[k] (complex coefficients)."""

    def __init__(self, coef: dict, c0: complex = 0):
        self.coef = {k: v for k, v in coef.items() if abs(v) > 0}
        self.c0 = c0


def _is_poly(x) -> bool:
    return isinstance(x, dict)


def _is_mat(x) -> bool:
    return isinstance(x, list) and x and isinstance(x[0], list) and (
        not x[0] or _is_poly(x[0][0]))


def _is_tensor(x) -> bool:
    return isinstance(x, list) and x and _is_mat(x[0])


def _as_poly(x) -> dict:
    if _is_poly(x):
        return x
    if isinstance(x, Lin):
        raise Unsupported('a parameter is used outside sin/cos/exp')
    raise Unsupported('matrix where a scalar is expected')


def _scalar_const(p) -> complex | None:
    if _is_poly(p) and all(m == () for m in p):
        return p.get((), 0j)
    return None


class _Params:
    """The parameter vector itself (passed on to a helper)."""


PARAMS = _Params()


class Reader:
    def __init__(self, fn: ast.AST, param: str = 'params',
                 helpers: dict[str, ast.AST] | None = None,
                 bound: dict[str, object] | None = None, depth: int = 0):
        self.param = param
        self.helpers = helpers or {}
        self.bound = bound or {}
        self.depth = depth
        # straight-line code: the statements are read in order, so a name
        # assigned twice has, at each use, the value of the latest
        # assignment; a statement outside the fragment only poisons the
        # names it defines
        self.env: dict[str, object] = {}
        for st in fn.body:  # type: ignore[attr-defined]
            if not (isinstance(st, ast.Assign) and len(st.targets) == 1):
                continue
            tg = st.targets[0]
            if isinstance(tg, ast.Name):
                try:
                    self.env[tg.id] = self.ev(st.value)
                except Unsupported as ex:
                    self.env[tg.id] = ex
            elif isinstance(tg, (ast.Tuple, ast.List)) and all(
                    isinstance(x, ast.Name) for x in tg.elts):
                try:
                    v = self.ev(st.value)
                    if not isinstance(v, list) or len(v) != len(tg.elts):
                        raise Unsupported('unpacking of a non-sequence')
                    for x, xv in zip(tg.elts, v):
                        self.env[x.id] = xv
                except Unsupported as ex:
                    for x in tg.elts:
                        self.env[x.id] = ex

    def name(self, k: str):
        if k in self.env:
            v = self.env[k]
            if isinstance(v, Unsupported):
                raise v
            return v
        if k in self.bound:
            return self.bound[k]
        if k == self.param:
            return PARAMS
        raise Unsupported(f'`{k}` is not a local temporary')

    def ev(self, e: ast.expr):
        if isinstance(e, ast.Constant):
            if isinstance(e.value, (int, float, complex)) and not isinstance(
                    e.value, bool):
                return const(e.value)
            raise Unsupported(f'constant {e.value!r}')
        if isinstance(e, ast.Name):
            return self.name(e.id)
        if isinstance(e, ast.Attribute):
            t = norm(e)
            if t in ('np.pi', 'math.pi', 'numpy.pi'):
                return const(math.pi)
            if t in ('np.e', 'math.e'):
                return const(math.e)
            raise Unsupported(f'`{t}`')
        if isinstance(e, ast.Subscript):
            if isinstance(e.slice, ast.Constant) and isinstance(
                    e.slice.value, int):
                base = self.ev(e.value) if not (
                    isinstance(e.value, ast.Name)
                    and e.value.id == self.param
                    and self.param not in self.bound) else PARAMS
                if base is PARAMS:
                    return Lin({e.slice.value: 1})
                if isinstance(base, list) and not _is_mat(base) and (
                        -len(base) <= e.slice.value < len(base)):
                    return base[e.slice.value]
            raise Unsupported(f'subscript `{norm(e)}`')
        if isinstance(e, ast.UnaryOp):
            v = self.ev(e.operand)
            if isinstance(e.op, ast.USub):
                return self.scale(v, -1)
            if isinstance(e.op, ast.UAdd):
                return v
            raise Unsupported('unary operator')
        if isinstance(e, (ast.List, ast.Tuple)):
            return [self.ev(x) for x in e.elts]
        if isinstance(e, ast.BinOp):
            return self.binop(e)
        if isinstance(e, ast.Call):
            return self.call(e)
        raise Unsupported(type(e).__name__)

    def scale(self, v, c: complex):
        if isinstance(v, Lin):
            return Lin({k: a * c for k, a in v.coef.items()}, v.c0 * c)
        if _is_poly(v):
            return mul(v, const(c))
        if isinstance(v, list):
            return [self.scale(x, c) for x in v]
        raise Unsupported('scale')

    def binop(self, e: ast.BinOp):
        a, b = self.ev(e.left), self.ev(e.right)
        op = e.op
        if isinstance(op, ast.MatMult):
            a, b = self.mat(a), self.mat(b)
            if len(a[0]) != len(b):
                raise Unsupported('matrix shapes')
            out = []
            for r in a:
                row = []
                for j in range(len(b[0])):
                    s: dict = {}
                    for x, rb in zip(r, b):
                        s = add(s, mul(x, rb[j]))
                    row.append(s)
                out.append(row)
            return out
        if isinstance(op, (ast.Add, ast.Sub)):
            s = 1 if isinstance(op, ast.Add) else -1
            if isinstance(a, Lin) or isinstance(b, Lin):
                la, lb = self.lin(a), self.lin(b)
                co = dict(la.coef)
                for k, v in lb.coef.items():
                    co[k] = co.get(k, 0) + s * v
                return Lin(co, la.c0 + s * lb.c0)
            if _is_poly(a) and _is_poly(b):
                return add(a, b, s)
            if isinstance(a, list) and isinstance(b, list):
                return self.zipwith(a, b, lambda x, y: add(x, y, s))
            raise Unsupported('sum of a matrix and a scalar')
        if isinstance(op, ast.Mult):
            ca, cb = _scalar_const(a), _scalar_const(b)
            if isinstance(a, Lin):
                if cb is None:
                    raise Unsupported('parameter times a non-constant')
                return self.scale(a, cb)
            if isinstance(b, Lin):
                if ca is None:
                    raise Unsupported('parameter times a non-constant')
                return self.scale(b, ca)
            if _is_poly(a) and _is_poly(b):
                return mul(a, b)
            if _is_poly(a) and isinstance(b, list):
                return self.map(b, lambda x: mul(a, x))
            if _is_poly(b) and isinstance(a, list):
                return self.map(a, lambda x: mul(x, b))
            if isinstance(a, list) and isinstance(b, list):
                return self.zipwith(a, b, mul)
            raise Unsupported('product')
        if isinstance(op, ast.Div):
            cb = _scalar_const(b)
            if cb is None or abs(cb) == 0:
                raise Unsupported('division by a non-constant')
            return self.scale(a, 1 / cb)
        if isinstance(op, ast.Pow):
            cb = _scalar_const(b)
            ca = _scalar_const(a)
            if ca is not None and cb is not None:
                return const(ca ** cb)
            if cb is not None and abs(cb.imag) < TOL and float(
                    cb.real).is_integer() and 0 <= cb.real <= 8 and (
                        _is_poly(a)):
                out = const(1)
                for _ in range(int(cb.real)):
                    out = mul(out, a)
                return out
            raise Unsupported('power')
        raise Unsupported(type(op).__name__)

    def lin(self, v) -> Lin:
        if isinstance(v, Lin):
            return v
        c = _scalar_const(v)
        if c is None:
            raise Unsupported('parameter plus a non-constant')
        return Lin({}, c)

    def mat(self, v):
        if not _is_mat(v):
            if isinstance(v, list) and v and isinstance(v[0], list):
                return [[_as_poly(x) for x in r] for r in v]
            raise Unsupported('not a matrix literal')
        return v

    def map(self, v, f):
        if _is_poly(v):
            return f(v)
        return [self.map(x, f) for x in v]

    def zipwith(self, a, b, f):
        if _is_poly(a) and _is_poly(b):
            return f(a, b)
        if isinstance(a, list) and isinstance(b, list) and len(a) == len(b):
            return [self.zipwith(x, y, f) for x, y in zip(a, b)]
        raise Unsupported('shapes differ')

    def call(self, e: ast.Call):
        fn = norm(e.func)
        short = fn.rsplit('.', 1)[-1]
        if fn in ('np.array', 'numpy.array', 'np.asarray', 'UnitaryMatrix',
                  'np.matrix') and e.args:
            return self.ev(e.args[0])
        if short in ('sin', 'cos') and len(e.args) == 1:
            v = self.ev(e.args[0])
            c = _scalar_const(v) if not isinstance(v, Lin) else None
            if c is not None:
                return const(
                    math.sin(c.real) if short == 'sin' else math.cos(c.real))
            if not isinstance(v, Lin) or len(v.coef) != 1 or abs(v.c0) > 0:
                raise Unsupported(f'{short} of a sum of parameters')
            (k, a), = v.coef.items()
            if abs(complex(a).imag) > TOL:
                raise Unsupported(f'{short} of a complex angle')
            a = Fraction(complex(a).real).limit_denominator(1 << 20)
            # sin(-x) = -sin x, cos(-x) = cos x
            if a < 0:
                p = atom('S' if short == 'sin' else 'C', k, -a)
                return self.scale(p, -1) if short == 'sin' else p
            return atom('S' if short == 'sin' else 'C', k, a)
        if short == 'exp' and len(e.args) == 1:
            v = self.ev(e.args[0])
            if not isinstance(v, Lin):
                c = _scalar_const(v)
                if c is None:
                    raise Unsupported('exp of a non-linear argument')
                import cmath
                return const(cmath.exp(c))
            import cmath
            out = const(cmath.exp(v.c0))
            for k, a in v.coef.items():
                a = complex(a)
                if abs(a.real) > TOL:
                    raise Unsupported('exp of a real multiple of a parameter')
                out = mul(out, atom('E', k, Fraction(a.imag).limit_denominator(
                    1 << 20)))
            return out
        if short == 'sqrt' and len(e.args) == 1:
            c = _scalar_const(self.ev(e.args[0]))
            if c is None:
                raise Unsupported('sqrt of a non-constant')
            import cmath
            return const(cmath.sqrt(c))
        if short in ('conj', 'conjugate') and not e.args:
            raise Unsupported('conjugation')
        if fn in self.helpers and self.depth < 3 and not e.keywords:
            # a straight-line helper of the same module: read its returned
            # value with the formal parameters bound to the arguments
            h = self.helpers[fn]
            formals = [a.arg for a in h.args.args]  # type: ignore
            vals = []
            for a in e.args:
                if isinstance(a, ast.Starred):
                    sv = self.ev(a.value)
                    if not isinstance(sv, list) or _is_mat(sv):
                        raise Unsupported(f'call `{fn}`: starred argument')
                    vals += sv
                else:
                    vals.append(self.ev(a))
            if len(formals) != len(vals):
                raise Unsupported(f'call `{fn}`: arity')
            bound = {}
            param = '\x00'
            for name_, v in zip(formals, vals):
                if v is PARAMS:
                    param = name_
                else:
                    bound[name_] = v
            sub = Reader(h, param, self.helpers, bound, self.depth + 1)
            return sub.ev(_returned(h))
        raise Unsupported(f'call `{fn}`')


def _returned(fn: ast.AST) -> ast.expr:
    rets = [r for r in ast.walk(fn) if isinstance(r, ast.Return)]
    if len(rets) != 1 or rets[0].value is None:
        raise Unsupported('not exactly one return')
    for st in fn.body:  # type: ignore[attr-defined]
        if isinstance(st, (ast.For, ast.While, ast.If, ast.Try, ast.With)):
            raise Unsupported('control flow')
    return rets[0].value


def decide(u: ast.AST, g: ast.AST,
           helpers: dict[str, ast.AST] | None = None,
           ) -> tuple[int, list[str]]:
    """(number of entries compared, differences) or raises Unsupported."""
    ur, gr = Reader(u, helpers=helpers), Reader(g, helpers=helpers)
    U = ur.mat(ur.ev(_returned(u)))
    G = gr.ev(_returned(g))
    if not isinstance(G, list) or not G:
        raise Unsupported('gradient is not a list of matrices')
    G = [gr.mat(m) for m in G]
    diffs: list[str] = []
    n = 0
    for i, M in enumerate(G):
        if len(M) != len(U) or any(len(a) != len(b) for a, b in zip(M, U)):
            diffs.append(f'matrix {i} has a different shape')
            continue
        for r, (gm, um) in enumerate(zip(M, U)):
            for c, (ge, ue) in enumerate(zip(gm, um)):
                n += 1
                want = diff(ue, i)
                if not same(ge, want):
                    diffs.append(
                        f'd/dparams[{i}] of entry [{r}][{c}] is '
                        f'{show(want)}, the gradient has {show(ge)}')
    return n, diffs


def rule_gradsym(ctx: Ctx, rep: Report, gates: list[ClassInfo],
                 floor: int) -> None:
    n = 0
    skipped = []
    for c in gates:
        u = c.methods.get('get_unitary')
        g = c.methods.get('get_grad')
        if u is None or g is None:
            continue
        helpers = {
            st.name: st for st in c.module.tree.body
            if isinstance(st, ast.FunctionDef)
        }
        try:
            cnt, diffs = decide(u.node, g.node, helpers)
        except Unsupported as e:
            skipped.append(f'{c.name}: {e}')
            continue
        n += 1
        rep.seen(u.qualname, g.qualname)
        rep.count()
        rep.check(
            not diffs, RULE, c.name, c.path, g.lineno,
            f'{cnt} gradient entries equal the symbolic derivative of the '
            'unitary',
            f'{c.name}.get_grad is not the derivative of get_unitary: '
            + '; '.join(diffs[:4]) + (
                f' (+{len(diffs) - 4} more)' if len(diffs) > 4 else ''),
            key='derivative',
        )
    if skipped:
        rep.observe(
            f'{RULE}: not decided (outside the polynomial fragment): '
            + '; '.join(skipped))
    rep.floor(RULE, n, floor, 'hand-written unitary/gradient pairs read as '
              'polynomials')
