"""Small protocol rules: DUNDER, DEAD, loop-order helpers."""
from __future__ import annotations

import ast

from ..cfg import CFG
from ..dataflow import ReachingDefs
from ..engine import Ctx
from ..report import Report
from ..source import FunctionInfo
from ..source import norm

INPLACE = {
    '__iadd__', '__isub__', '__imul__', '__imatmul__', '__itruediv__',
    '__ifloordiv__', '__imod__', '__ipow__', '__ilshift__', '__irshift__',
    '__iand__', '__ixor__', '__ior__',
}


def returns_self_everywhere(g: CFG) -> list[str]:
    """Reasons why some normal exit does not `return self`."""
    bad = []
    for p, lab in g.pred[g.exit]:
        n = g.nodes[p]
        if lab == 'return' and isinstance(n.stmt, ast.Return):
            v = n.stmt.value
            if not (isinstance(v, ast.Name) and v.id == 'self'):
                bad.append(f'line {n.lineno}: `{n.text()}`')
        elif lab == 'return':
            # a return routed through a finally body
            continue
        else:
            bad.append(
                f'falls off the end after line {n.lineno} '
                f'(`{n.text()[:50]}`), returning None',
            )
    return bad


def rule_dunder(ctx: Ctx, rep: Report, rule: str = 'DUNDER') -> int:
    """Every in-place operator method returns the receiver on every normal
    path (Python rebinds the left-hand name to the return value)."""
    found = 0
    for c in ctx.index.classes.values():
        for name, f in c.methods.items():
            if name not in INPLACE:
                continue
            found += 1
            rep.seen(f.qualname)
            rep.count()
            bad = returns_self_everywhere(ctx.cfg(f))
            rep.check(
                not bad, rule, f'{c.name}.{name}', f.path, f.lineno,
                'returns self on every normal path',
                'in-place operator does not return self, so `x op= y` '
                'rebinds x to None: ' + '; '.join(bad),
                key='returns-non-self',
            )
    return found


def rule_returns_self(
    ctx: Ctx, rep: Report, f: FunctionInfo, rule: str,
) -> None:
    rep.seen(f.qualname)
    rep.count()
    bad = returns_self_everywhere(ctx.cfg(f))
    rep.check(
        not bad, rule, f'{f.cls.name if f.cls else ""}.{f.name}', f.path,
        f.lineno, 'returns the receiver on every normal path',
        'does not return the receiver: ' + '; '.join(bad),
        key='returns-non-self',
    )


def const_kind(e: ast.AST | None) -> str | None:
    """'none' / 'nonnone' for expressions whose None-ness is static."""
    if e is None:
        return None
    if isinstance(e, ast.Constant):
        return 'none' if e.value is None else 'nonnone'
    if isinstance(e, ast.UnaryOp) and isinstance(e.operand, ast.Constant):
        return 'nonnone'
    if isinstance(e, (ast.List, ast.Tuple, ast.Dict, ast.Set, ast.ListComp,
                      ast.DictComp, ast.SetComp, ast.JoinedStr)):
        return 'nonnone'
    return None


def rule_dead_none_test(
    ctx: Ctx, rep: Report, f: FunctionInfo, rule: str = 'DEAD',
) -> int:
    """Belief contradiction: `v is None` / `v is not None` where every
    reaching definition of local v has statically known None-ness, so the
    test is constant and whatever it guards is dead or unconditional."""
    g = ctx.cfg(f)
    rd = ctx.rd(f)
    n_tests = 0
    for n in g.nodes:
        if n.kind != 'test':
            continue
        for cmp in [x for x in n.walk() if isinstance(x, ast.Compare)]:
            if len(cmp.ops) != 1 or not isinstance(
                cmp.ops[0], (ast.Is, ast.IsNot),
            ):
                continue
            if not (
                isinstance(cmp.comparators[0], ast.Constant)
                and cmp.comparators[0].value is None
                and isinstance(cmp.left, ast.Name)
            ):
                continue
            v = cmp.left.id
            defs = rd.reaching(n, v)
            if not defs or any(d.kind == 'param' for d in defs):
                continue
            n_tests += 1
            is_none_test = isinstance(cmp.ops[0], ast.Is)
            # definitions guarded by this very test say nothing about it
            guarded = {
                d.node.id for d in defs
                if g.edge_dominates(n.id, 'true', d.node.id)
            }
            kinds = set()
            for d in defs:
                if d.node.id in guarded:
                    continue
                if d.kind in ('assign', 'walrus') and not d.partial:
                    # tuple-unpacking defs have no per-name value
                    st = d.node.stmt
                    single = isinstance(st, (ast.Assign, ast.AnnAssign)) and (
                        not isinstance(st, ast.Assign)
                        or all(isinstance(t, ast.Name) for t in st.targets)
                    )
                    kinds.add(const_kind(d.value) if single else None)
                else:
                    kinds.add(None)
            if guarded and len(kinds) == 1 and None not in kinds:
                # the guarded defs only matter if the test can be true
                test_true = (kinds == {'none'}) == is_none_test
                if test_true:
                    kinds.add(None)
            constant = None not in kinds and len(kinds) == 1
            qn = f'{f.cls.name + "." if f.cls else ""}{f.name}'
            rep.count()
            rep.check(
                not constant, rule, qn, f.path, n.lineno,
                f'`{norm(cmp)}` can go both ways ({len(defs)} reaching defs)',
                f'`{norm(cmp)}` is constant: every reaching definition of '
                f'`{v}` is {"None" if kinds == {"none"} else "not None"} '
                f'(lines {sorted({d.node.lineno for d in defs})}); the '
                'guarded statement never has its documented effect',
                key=norm(cmp),
            )
    return n_tests


def loop_iter_info(loop: ast.For) -> tuple[str, ast.AST]:
    """('reversed'|'forward', underlying iterable) of a for loop."""
    it = loop.iter
    direction = 'forward'
    while isinstance(it, ast.Call) and isinstance(it.func, ast.Name):
        if it.func.id == 'reversed' and it.args:
            direction = 'reversed' if direction == 'forward' else 'forward'
            it = it.args[0]
        elif it.func.id in ('list', 'tuple', 'iter') and it.args:
            it = it.args[0]
        elif it.func.id == 'enumerate' and it.args:
            it = it.args[0]
        elif it.func.id == 'sorted' and it.args:
            rev = [k for k in it.keywords if k.arg == 'reverse']
            if rev and isinstance(rev[0].value, ast.Constant) and (
                rev[0].value.value
            ):
                direction = 'reversed' if direction == 'forward' else 'forward'
            return direction + '-sorted', it.args[0]
        else:
            break
    return direction, it
