"""HASH: __eq__/__hash__ consistency (DESIGN 4/C16, C18).

(i)   a Gate class that defines __eq__ defines __hash__ in the same class
      (otherwise Python makes it unhashable);
(ii)  everything __hash__ reads is determined by what __eq__ compares;
(iii) __hash__ does not depend on the iteration order of a set or dict.
"""
from __future__ import annotations

import ast

from ..dataflow import FlowInsensitiveDeps
from ..engine import Ctx
from ..report import Report
from ..source import ClassInfo
from ..source import FunctionInfo
from ..source import norm

# classes whose equality is tolerance based or deliberately identity-free;
# one line of reason each (DESIGN 4/C18)
EXCEPTIONS = {
    'UnitaryMatrix': 'np.allclose equality cannot be hashed consistently '
                     'by construction (documented approximate equality)',
    'StateVector': 'np.allclose equality (approximate by design)',
    'Circuit': 'mutable container: defines __eq__ only and is unhashable '
               'on purpose',
}
UNORDERED_ANN = ('set', 'Set', 'dict', 'Dict', 'Mapping', 'frozenset',
                 'MutableMapping', 'AbstractSet')


def _self_attrs(node: ast.AST, obj: str = 'self') -> set[str]:
    out = set()
    for n in ast.walk(node):
        if isinstance(n, ast.Attribute) and isinstance(n.value, ast.Name) and (
            n.value.id == obj
        ):
            out.add(n.attr)
    return out


def _canon(a: str) -> str:
    return a.lstrip('_')


def _init_chain(ctx: Ctx, c: ClassInfo) -> list[FunctionInfo]:
    out = []
    for k in ctx.index.mro(c):
        if '__init__' in k.methods:
            out.append(k.methods['__init__'])
    return out


def _param_deps(ctx: Ctx, c: ClassInfo) -> dict[str, set[str] | None]:
    """canonical attr -> set of constructor parameters (and 'const') that
    determine it; None when unknown."""
    deps: dict[str, set[str] | None] = {}
    for init in _init_chain(ctx, c)[:1]:
        fd = FlowInsensitiveDeps(init.node)
        params = set(init.params) - {'self'}
        for n in ast.walk(init.node):
            tgts = []
            if isinstance(n, ast.Assign):
                tgts = list(n.targets)
                val = n.value
            elif isinstance(n, ast.AnnAssign) and n.value is not None:
                tgts = [n.target]
                val = n.value
            else:
                continue
            flat = []
            for t in tgts:
                flat += list(t.elts) if isinstance(t, ast.Tuple) else [t]
            for t in flat:
                if isinstance(t, ast.Attribute) and isinstance(
                    t.value, ast.Name,
                ) and t.value.id == 'self':
                    cl = fd.closure(val)
                    ps = {a for a in cl if a in params}
                    # attributes of self used on the rhs: resolved later
                    sa = {a.split('.')[1] for a in cl
                          if a.startswith('self.') and a.count('.') >= 1}
                    cur = deps.get(_canon(t.attr)) or set()
                    deps[_canon(t.attr)] = cur | ps | {
                        '@' + _canon(x) for x in sa if _canon(x) != _canon(
                            t.attr)}
    # resolve @attr references
    changed = True
    while changed:
        changed = False
        for a, s in list(deps.items()):
            if s is None:
                continue
            new = set()
            for x in s:
                if x.startswith('@'):
                    r = deps.get(x[1:])
                    if r is not None:
                        new |= {y for y in r if y != '@' + a}
                    # unknown self attr (class constant / property): ignore
                else:
                    new.add(x)
            if new != s:
                deps[a] = new
                changed = True
    return deps


def _property_reads(ctx: Ctx, c: ClassInfo, name: str) -> set[str] | None:
    m = ctx.index.lookup_method(c, name)
    if m is None or not any('property' in d for d in m.decorators):
        return None
    return {_canon(a) for a in _self_attrs(m.node)}


def _unordered_attr(ctx: Ctx, c: ClassInfo, attr: str) -> str | None:
    """Reason string if self.<attr> is a set/dict according to __init__."""
    for init in _init_chain(ctx, c):
        for n in ast.walk(init.node):
            if isinstance(n, ast.AnnAssign) and isinstance(
                n.target, ast.Attribute,
            ) and n.target.attr == attr:
                a = norm(n.annotation)
                head = a.split('[')[0].split('.')[-1]
                if head in UNORDERED_ANN:
                    return f'annotated `{a}`'
                v = n.value
            elif isinstance(n, ast.Assign) and any(
                isinstance(t, ast.Attribute) and t.attr == attr
                for t in n.targets
            ):
                v = n.value
            else:
                continue
            if isinstance(v, (ast.Set, ast.SetComp, ast.Dict, ast.DictComp)):
                return f'assigned a {type(v).__name__}'
            if isinstance(v, ast.Call) and norm(v.func) in (
                'set', 'dict', 'frozenset',
            ):
                return f'assigned `{norm(v)[:40]}`'
            if isinstance(v, ast.Name):
                # a parameter: use its annotation
                for p in init.node.args.args + init.node.args.kwonlyargs:
                    if p.arg == v.id and p.annotation is not None:
                        a = norm(p.annotation)
                        head = a.split('[')[0].split('.')[-1]
                        if head in UNORDERED_ANN:
                            return f'parameter annotated `{a}`'
    return None


def order_dependence(ctx: Ctx, c: ClassInfo, h: FunctionInfo) -> list[str]:
    """Order-dependent reads of unordered containers inside __hash__."""
    out = []
    safe: set[int] = set()
    for n in ast.walk(h.node):
        if isinstance(n, ast.Call) and norm(n.func) in (
            'sorted', 'frozenset', 'set', 'len', 'sum', 'min', 'max',
        ):
            for a in n.args:
                for x in ast.walk(a):
                    safe.add(id(x))
    for n in ast.walk(h.node):
        if id(n) in safe:
            continue
        seq = None
        if isinstance(n, ast.Call) and norm(n.func) in ('tuple', 'list') and (
            n.args
        ):
            seq = n.args[0]
        elif isinstance(n, (ast.For, ast.comprehension)):
            seq = n.iter
        if seq is None or id(seq) in safe:
            continue
        if isinstance(seq, ast.Call) and isinstance(
            seq.func, ast.Attribute,
        ) and seq.func.attr in ('items', 'keys', 'values'):
            out.append(
                f'`{norm(n)[:60]}` enumerates a mapping in insertion order',
            )
            continue
        if isinstance(seq, ast.Attribute) and isinstance(
            seq.value, ast.Name,
        ) and seq.value.id == 'self':
            why = _unordered_attr(ctx, c, seq.attr)
            if why:
                out.append(
                    f'`{norm(n)[:60]}` enumerates `self.{seq.attr}` '
                    f'({why}) in container order',
                )
    return out


def rule_hash(
    ctx: Ctx, rep: Report, classes: list[ClassInfo], rule: str = 'HASH',
) -> int:
    n = 0
    for c in classes:
        eq = c.methods.get('__eq__')
        hs = c.methods.get('__hash__')
        hash_attr = c.class_attrs.get('__hash__')
        if eq is None and hs is None:
            continue
        if eq is not None:
            zip_prefix_equality(rep, c, eq, rule)
            radix_blind_component(ctx, rep, c, eq, rule)
        if hs is not None:
            hash_memo(rep, c, hs, rule)
        if c.name in EXCEPTIONS:
            rep.observe(f'{rule}: {c.name} exempt: {EXCEPTIONS[c.name]}')
            continue
        n += 1
        rep.seen(c.qualname)
        rep.count()
        is_gate = ctx.index.is_subclass(c, 'Gate')
        # (i)
        if eq is not None and hs is None and hash_attr is None:
            rep.check(
                not is_gate, rule, c.name, c.path, eq.lineno,
                'defines __eq__ only (unhashable by design; not a Gate)',
                'defines __eq__ without __hash__: Python sets __hash__ to '
                'None, so the gate cannot be a key of gate_set / _gate_info',
                key='eq-without-hash',
            )
            continue
        if hs is None:
            continue
        # (iii)
        od = order_dependence(ctx, c, hs)
        rep.check(
            not od, rule, c.name, c.path, hs.lineno,
            '__hash__ does not depend on set/dict iteration order',
            '__hash__ depends on container iteration order while __eq__ '
            'compares contents, so equal objects can hash differently: '
            + '; '.join(od), key='order-dependent',
        )
        # (ii)
        eq_fn = eq or ctx.index.lookup_method(c, '__eq__')
        if eq_fn is None:
            continue  # identity equality: any hash is consistent
        if eq is None and eq_fn.cls is not None and eq_fn.cls is not c:
            # inherited __eq__ (e.g. a mixin); compare against it
            pass
        H = {_canon(a) for a in _self_attrs(hs.node)}
        E = {_canon(a) for a in _self_attrs(eq_fn.node)}
        if 'dict__' in E or '__dict__' in _self_attrs(eq_fn.node):
            rep.ok(rule, c.name + ':inputs', c.path, hs.lineno,
                   '__eq__ compares the whole __dict__')
            continue
        deps = _param_deps(ctx, c)
        # expand properties on both sides
        def expand(s: set[str]) -> set[str]:
            out = set(s)
            for a in list(s):
                pr = _property_reads(ctx, c, a)
                if pr:
                    out |= pr
            return out
        Ex = expand(E)
        PE: set[str] = set()
        for e in Ex:
            d = deps.get(e)
            if d:
                PE |= d
        bad = []
        unresolved = []
        for hattr in sorted(H):
            if hattr in ('class__', '__class__'):
                continue
            if hattr in Ex:
                continue
            pr = _property_reads(ctx, c, hattr)
            cands = {hattr} | (pr or set())
            if cands & Ex:
                continue
            resolved = False
            for cand in cands:
                d = deps.get(cand)
                if d is not None:
                    resolved = True
                    extra = {x for x in d if not x.startswith('@')} - PE
                    if extra:
                        bad.append(
                            f'`self.{hattr}` (from constructor argument(s) '
                            f'{sorted(extra)}) is hashed but not compared',
                        )
            if not resolved:
                unresolved.append(hattr)
        rep.count()
        rep.check(
            not bad, rule, c.name + ':inputs', c.path, hs.lineno,
            f'hash inputs {sorted(H)} are determined by eq inputs '
            f'{sorted(E)}' + (
                f' (class constants/unresolved: {unresolved})'
                if unresolved else ''
            ),
            '__eq__ can hold for two objects whose __hash__ differs: '
            + '; '.join(bad), key='hash-not-in-eq',
        )
    return n


# ---------------------------------------------------------------------------
# Prefix equality.  `all(a == b for a, b in zip(X, Y))` stops at the shorter
# sequence: unless the lengths were compared first, an object equals every
# extension of itself (and, with a hash over all elements, equal objects hash
# differently).  Accepted length guards, anywhere in the method, as the two
# sides of one == / != comparison:
#     len(X) vs len(Y);  X vs Y themselves;  X.<size> vs Y.<size> for a size
#     attribute of the iterated object;  for `<o>.radixes`: <o>.num_qudits;
#     zip(..., strict=True);
#     a listed counting table (Circuit._gate_info: gate -> number of
#     occurrences, which fixes the number of operations).
SIZE_ATTRS = ('num_operations', 'num_cycles', 'num_params', 'size')
COUNTING_TABLES = {'_gate_info'}


def _swap_self(text: str, me: str, other: str) -> str:
    import re
    return re.sub(rf'\b{re.escape(me)}\b', other, text)


def zip_prefix_equality(
    rep: Report, c: ClassInfo, eq: FunctionInfo, rule: str,
) -> None:
    args = eq.params
    if len(args) < 2:
        return
    me, other = args[0], args[1]
    compares = []
    for x in ast.walk(eq.node):
        if isinstance(x, ast.Compare) and len(x.ops) == 1 and isinstance(
                x.ops[0], (ast.Eq, ast.NotEq)):
            compares.append({norm(x.left), norm(x.comparators[0])})
    for z in ast.walk(eq.node):
        if not (isinstance(z, ast.Call) and isinstance(z.func, ast.Name)
                and z.func.id == 'zip' and len(z.args) == 2):
            continue
        if any(k.arg == 'strict' and isinstance(k.value, ast.Constant)
               and k.value.value is True for k in z.keywords):
            continue
        a, b = norm(z.args[0]), norm(z.args[1])
        if _swap_self(a, me, other) != b:
            continue
        forms = [f'len({a})', a] + [f'{a}.{s}' for s in SIZE_ATTRS]
        if a.endswith('.radixes'):
            forms.append(a[:-len('.radixes')] + '.num_qudits')
        guarded = any({f, _swap_self(f, me, other)} in compares
                      for f in forms)
        if not guarded and a == me:
            guarded = any({f'{me}.{t}', f'{other}.{t}'} in compares
                          for t in COUNTING_TABLES)
        rep.count()
        rep.check(
            guarded, rule, f'{c.name}.__eq__:zip({a}, {b})', c.path,
            z.lineno,
            'element-wise comparison is preceded by a length comparison',
            f'`zip({a}, {b})` stops at the shorter of the two and no '
            'comparison of their lengths is made: an object compares equal '
            'to every extension of itself (equal objects then also hash '
            'differently)', key='prefix-equality',
        )


# ---------------------------------------------------------------------------
# Radix-blind components.  UnitaryMatrix / StateVector equality is a
# tolerance comparison of the numbers (shape + allclose) and does not look at
# how the dimension factors into qudits: the 4x4 matrix U as a [2,2] gate and
# as a [4] gate are "equal" matrices.  A *gate* class that decides its own
# equality by comparing such a component must compare the radixes itself,
# otherwise two gates acting on different numbers of qudits are one key in
# every table keyed by gate (Circuit._gate_info, the pickle gate table).
def hash_memo(rep: Report, c: ClassInfo, hs: FunctionInfo, rule: str) -> None:
    """A hash value is only meaningful inside the process that computed it
    (str / bytes hashing is salted per interpreter).  A __hash__ that stores
    its result on the instance ships that number along when the object is
    pickled to another worker, where an equal object built there hashes
    differently: equal objects, unequal hashes, dictionary look-ups miss.
    Memoising is only safe if the cached attribute is dropped from the
    pickled state (__getstate__ / __reduce__ in the same class)."""
    stores = [
        norm(t) for n in ast.walk(hs.node) if isinstance(
            n, (ast.Assign, ast.AugAssign, ast.AnnAssign))
        for t in (n.targets if isinstance(n, ast.Assign) else [n.target])
        if isinstance(t, ast.Attribute) and isinstance(t.value, ast.Name)
        and t.value.id == 'self'] + [
        norm(n) for n in ast.walk(hs.node) if isinstance(n, ast.Call)
        and norm(n.func) in ('setattr', 'object.__setattr__',
                             'self.__dict__.__setitem__',
                             'self.__dict__.setdefault',
                             'self.__dict__.update')] + [
        norm(t) for n in ast.walk(hs.node) if isinstance(n, ast.Assign)
        for t in n.targets if isinstance(t, ast.Subscript)
        and norm(t.value) == 'self.__dict__']
    rep.count()
    guarded = any(m in c.methods for m in ('__getstate__', '__reduce__',
                                           '__reduce_ex__'))
    rep.check(
        not stores or guarded, rule, f'{c.name}.__hash__:memo', c.path,
        hs.lineno, '__hash__ keeps no per-process value on the instance',
        f'{c.name}.__hash__ stores its result on the instance ({stores[:2]}) '
        'and the class does not drop it from its pickled state: the cached '
        'number travels to other processes, where equal objects hash '
        'differently', key='memo',
    )


RADIX_BLIND = ('UnitaryMatrix', 'StateVector')


def radix_blind_component(
    ctx: Ctx, rep: Report, c: ClassInfo, eq: FunctionInfo, rule: str,
) -> None:
    if not ctx.index.is_subclass(c, 'Gate'):
        return
    args = eq.params
    if len(args) < 2:
        return
    me, other = args[0], args[1]
    init = c.methods.get('__init__')
    if init is None:
        return
    typed = set()
    for n in ast.walk(init.node):
        if isinstance(n, (ast.Assign, ast.AnnAssign)):
            t = n.targets[0] if isinstance(n, ast.Assign) else n.target
            v = n.value
            if isinstance(t, ast.Attribute) and norm(t.value) == 'self' and (
                    isinstance(v, ast.Call) and norm(v.func) in RADIX_BLIND):
                typed.add(t.attr)
    compared = []
    for x in ast.walk(eq.node):
        if isinstance(x, ast.Compare) and len(x.ops) == 1 and isinstance(
                x.ops[0], (ast.Eq, ast.NotEq)):
            a, b = norm(x.left), norm(x.comparators[0])
            for attr in typed:
                if {a, b} == {f'{me}.{attr}', f'{other}.{attr}'}:
                    compared.append(attr)
    if not compared:
        return
    txt = norm(eq.node)
    ok = any(f'{me}.{r} == {other}.{r}' in txt or f'{other}.{r} == {me}.{r}'
             in txt or f'{me}.{r} != {other}.{r}' in txt
             for r in ('radixes', '_radixes'))
    rep.count()
    rep.check(
        ok, rule, f'{c.name}.__eq__:radixes', c.path, eq.lineno,
        'the radixes are compared next to the matrix',
        f'{c.name}.__eq__ compares `{compared[0]}` (a {"/".join(RADIX_BLIND)}'
        ', whose equality ignores radixes) and nothing else: the same matrix '
        'as a [2,2] gate and as a [4] gate are equal and hash alike, so a '
        'circuit holding both keeps one entry for them and cannot be pickled '
        'back', key='radix-blind',
    )
