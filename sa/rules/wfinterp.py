"""Workflow-builder abstract interpreter (DESIGN 4/C01 (a), WF).

Partially evaluates the pure constructor functions of
bqskit/compiler/compile.py to *pass trees*.  Domain: Python constants,
lists/tuples/dicts, `Obj` (a constructed object: class + arguments) and
`Unknown`.  Calls to functions defined in compile.py are inlined; a call to
a class becomes an Obj; anything the interpreter does not understand in a
builder is an AnalysisError (never a guess).  Tests on Unknown values fork:
the whole evaluation is repeated for every combination of decisions.
"""
from __future__ import annotations

import ast
from typing import Any

from ..engine import Ctx
from ..source import AnalysisError
from ..source import ClassInfo
from ..source import FunctionInfo
from ..source import Module
from ..source import norm

COMPILE = 'bqskit/compiler/compile.py'


class Unknown:
    def __init__(self, why: str = '') -> None:
        self.why = why

    def __repr__(self) -> str:
        return f'Unknown({self.why})'


class Obj:
    def __init__(self, cls: str, args: list[Any], kwargs: dict[str, Any],
                 lineno: int = 0, path: str = '',
                 info: ClassInfo | None = None) -> None:
        self.cls = cls
        self.args = args
        self.kwargs = kwargs
        self.lineno = lineno
        self.path = path
        self.info = info

    def arg(self, i: int, name: str, default: Any = None) -> Any:
        if i < len(self.args):
            return self.args[i]
        return self.kwargs.get(name, default)

    def __repr__(self) -> str:
        a = ', '.join([repr(x) for x in self.args]
                      + [f'{k}={v!r}' for k, v in self.kwargs.items()])
        return f'{self.cls}({a[:80]})'


class FuncRef:
    def __init__(self, name: str) -> None:
        self.name = name

    def __repr__(self) -> str:
        return f'<fn {self.name}>'


class _Return(Exception):
    def __init__(self, v: Any) -> None:
        self.v = v


class _Raise(Exception):
    pass


class Oracle:
    """Replays a prefix of decisions for Unknown tests, then says True."""

    def __init__(self, prefix: list[bool]) -> None:
        self.prefix = prefix
        self.taken: list[bool] = []
        self.sites: list[str] = []

    def decide(self, site: str) -> bool:
        i = len(self.taken)
        v = self.prefix[i] if i < len(self.prefix) else True
        self.taken.append(v)
        self.sites.append(site)
        return v


PURE_TRUE = {'is_integer', 'is_real_number', 'is_sequence', 'callable',
             'is_bool'}


class Interp:
    def __init__(self, ctx: Ctx, oracle: Oracle) -> None:
        self.ctx = ctx
        self.mod: Module = ctx.index.module(COMPILE)
        self.oracle = oracle
        self.depth = 0

    # ---- entry -------------------------------------------------------------
    def call_function(self, f: FunctionInfo, args: list[Any],
                      kwargs: dict[str, Any]) -> Any:
        self.depth += 1
        if self.depth > 25:
            raise AnalysisError('workflow interpreter: recursion too deep')
        env: dict[str, Any] = {}
        a = f.node.args
        pos = [x.arg for x in a.posonlyargs + a.args]
        for name in pos + [x.arg for x in a.kwonlyargs]:
            d = f.param_default(name)
            if d is not None:
                env[name] = self.eval(d, {})
        for name, v in zip(pos, args):
            env[name] = v
        for k, v in kwargs.items():
            env[k] = v
        for name in pos:
            if name not in env:
                env[name] = Unknown(f'parameter {name}')
        try:
            self.exec_block(f.body, env)
        except _Return as r:
            self.depth -= 1
            return r.v
        self.depth -= 1
        return None

    # ---- statements --------------------------------------------------------
    def exec_block(self, body: list[ast.stmt], env: dict[str, Any]) -> None:
        for st in body:
            self.exec(st, env)

    def exec(self, st: ast.stmt, env: dict[str, Any]) -> None:
        if isinstance(st, ast.Return):
            raise _Return(self.eval(st.value, env) if st.value else None)
        if isinstance(st, ast.Assign):
            v = self.eval(st.value, env)
            for t in st.targets:
                self.assign(t, v, env)
            return
        if isinstance(st, ast.AnnAssign):
            if st.value is not None:
                self.assign(st.target, self.eval(st.value, env), env)
            return
        if isinstance(st, ast.AugAssign):
            cur = self.eval(st.target, env)
            v = self.eval(st.value, env)
            if isinstance(st.op, ast.Add) and isinstance(
                cur, list) and isinstance(v, list):
                self.assign(st.target, cur + v, env)
            elif isinstance(st.op, ast.Add) and isinstance(
                cur, str) and isinstance(v, str):
                self.assign(st.target, cur + v, env)
            else:
                self.assign(st.target, Unknown('augassign'), env)
            return
        if isinstance(st, ast.If):
            t = self.truth(self.eval(st.test, env), st)
            self.exec_block(st.body if t else st.orelse, env)
            return
        if isinstance(st, ast.Raise):
            raise _Raise()
        if isinstance(st, ast.Expr):
            return  # logging / warnings / docstrings
        if isinstance(st, (ast.Pass, ast.Import, ast.ImportFrom)):
            return
        raise AnalysisError(
            f'workflow builder uses an unsupported statement at '
            f'{COMPILE}:{st.lineno}: {type(st).__name__}')

    def assign(self, t: ast.AST, v: Any, env: dict[str, Any]) -> None:
        if isinstance(t, ast.Name):
            env[t.id] = v
        elif isinstance(t, ast.Tuple) and isinstance(v, (list, tuple)) and (
            len(v) == len(t.elts)
        ):
            for e, x in zip(t.elts, v):
                self.assign(e, x, env)
        else:
            raise AnalysisError(
                f'workflow builder: unsupported assignment target at line '
                f'{t.lineno}')

    def truth(self, v: Any, st: ast.AST) -> bool:
        if isinstance(v, Unknown):
            return self.oracle.decide(
                f'{COMPILE}:{st.lineno}:{norm(getattr(st, "test", st))[:50]}')
        if isinstance(v, (Obj, FuncRef)):
            return True
        return bool(v)

    # ---- expressions -------------------------------------------------------
    def eval(self, e: ast.AST | None, env: dict[str, Any]) -> Any:
        if e is None:
            return None
        if isinstance(e, ast.Constant):
            return e.value
        if isinstance(e, ast.Name):
            if e.id in env:
                return env[e.id]
            return self.global_name(e.id)
        if isinstance(e, (ast.List, ast.Tuple)):
            out = []
            for x in e.elts:
                if isinstance(x, ast.Starred):
                    v = self.eval(x.value, env)
                    if not isinstance(v, (list, tuple)):
                        raise AnalysisError('starred non-list in builder')
                    out += list(v)
                else:
                    out.append(self.eval(x, env))
            return out if isinstance(e, ast.List) else tuple(out)
        if isinstance(e, ast.Dict):
            return {'<dict>': True}
        if isinstance(e, ast.IfExp):
            t = self.truth(self.eval(e.test, env), e)
            return self.eval(e.body if t else e.orelse, env)
        if isinstance(e, ast.UnaryOp):
            v = self.eval(e.operand, env)
            if isinstance(v, Unknown):
                return v
            if isinstance(e.op, ast.Not):
                return not v
            if isinstance(e.op, ast.USub) and isinstance(v, (int, float)):
                return -v
            return Unknown('unary')
        if isinstance(e, ast.BoolOp):
            vals = [self.eval(x, env) for x in e.values]
            if any(isinstance(v, Unknown) for v in vals):
                # short-circuit on known operands
                if isinstance(e.op, ast.And) and any(
                    not isinstance(v, Unknown) and not v for v in vals):
                    return False
                if isinstance(e.op, ast.Or) and any(
                    not isinstance(v, Unknown) and v for v in vals):
                    return True
                return Unknown('boolop')
            return all(vals) if isinstance(e.op, ast.And) else any(vals)
        if isinstance(e, ast.Compare):
            return self.compare(e, env)
        if isinstance(e, ast.BinOp):
            a, b = self.eval(e.left, env), self.eval(e.right, env)
            if isinstance(a, Unknown) or isinstance(b, Unknown):
                return Unknown('binop')
            try:
                if isinstance(e.op, ast.Add):
                    return a + b
                if isinstance(e.op, ast.Sub):
                    return a - b
                if isinstance(e.op, ast.Mult):
                    return a * b
            except TypeError:
                return Unknown('binop-type')
            return Unknown('binop')
        if isinstance(e, ast.Subscript):
            base = self.eval(e.value, env)
            idx = self.eval(e.slice, env)
            if isinstance(base, (list, tuple)) and isinstance(idx, int):
                return base[idx]
            return Unknown('subscript')
        if isinstance(e, ast.Attribute):
            base = self.eval(e.value, env)
            if isinstance(base, Obj) and e.attr in base.kwargs:
                return base.kwargs[e.attr]
            return Unknown(norm(e))
        if isinstance(e, ast.Call):
            return self.call(e, env)
        if isinstance(e, ast.Lambda):
            return FuncRef('<lambda>')
        if isinstance(e, ast.JoinedStr):
            return '<fstring>'
        if isinstance(e, (ast.ListComp, ast.GeneratorExp, ast.DictComp,
                          ast.SetComp)):
            return Unknown('comprehension')
        raise AnalysisError(
            f'workflow builder uses an unsupported expression at '
            f'{COMPILE}:{e.lineno}: {type(e).__name__}')

    def compare(self, e: ast.Compare, env: dict[str, Any]) -> Any:
        left = self.eval(e.left, env)
        res = True
        for op, r in zip(e.ops, e.comparators):
            right = self.eval(r, env)
            if isinstance(op, (ast.Is, ast.IsNot)):
                if isinstance(left, Unknown) or isinstance(right, Unknown):
                    return Unknown('is')
                v = (left is right) or (left is None and right is None)
                if isinstance(left, (int, str)) and isinstance(
                    right, (int, str)):
                    v = left == right
                v = v if isinstance(op, ast.Is) else not v
            elif isinstance(left, Unknown) or isinstance(right, Unknown):
                return Unknown('compare')
            elif isinstance(op, (ast.In, ast.NotIn)):
                if not isinstance(right, (list, tuple, dict, str)):
                    return Unknown('in')
                v = left in right
                v = v if isinstance(op, ast.In) else not v
            else:
                try:
                    v = {
                        ast.Eq: lambda a, b: a == b,
                        ast.NotEq: lambda a, b: a != b,
                        ast.Lt: lambda a, b: a < b,
                        ast.LtE: lambda a, b: a <= b,
                        ast.Gt: lambda a, b: a > b,
                        ast.GtE: lambda a, b: a >= b,
                    }[type(op)](left, right)
                except TypeError:
                    return Unknown('compare-type')
            res = res and v
            left = right
        return res

    def global_name(self, name: str) -> Any:
        r = self.ctx.index.resolve_name(self.mod, name)
        if isinstance(r, FunctionInfo):
            return FuncRef(r.qualname)
        if isinstance(r, ClassInfo):
            return FuncRef('class:' + r.qualname)
        if name in ('None', 'True', 'False'):
            return {'None': None, 'True': True, 'False': False}[name]
        return Unknown(f'global {name}')

    def call(self, e: ast.Call, env: dict[str, Any]) -> Any:
        args: list[Any] = []
        for a in e.args:
            if isinstance(a, ast.Starred):
                v = self.eval(a.value, env)
                args += list(v) if isinstance(v, (list, tuple)) else [v]
            else:
                args.append(self.eval(a, env))
        kwargs = {k.arg: self.eval(k.value, env) for k in e.keywords if k.arg}
        fn = e.func
        if isinstance(fn, ast.Name):
            if fn.id in PURE_TRUE:
                return True
            if fn.id == 'isinstance':
                return Unknown('isinstance')
            if fn.id in ('len',) and args and isinstance(
                args[0], (list, tuple)):
                return len(args[0])
            if fn.id in ('list', 'tuple') and args and isinstance(
                args[0], (list, tuple)):
                return list(args[0])
            if fn.id in env and isinstance(env[fn.id], FuncRef):
                return self.call_ref(env[fn.id], args, kwargs, e)
            r = self.ctx.index.resolve_name(self.mod, fn.id)
            if isinstance(r, FunctionInfo):
                if r.path == COMPILE:
                    return self.call_function(r, args, kwargs)
                return Unknown(f'call {fn.id}')
            if isinstance(r, ClassInfo):
                return Obj(r.name, args, kwargs, e.lineno, COMPILE, r)
            if fn.id in ('Workflow',):
                return Obj('Workflow', args, kwargs, e.lineno, COMPILE)
            return Unknown(f'call {fn.id}')
        if isinstance(fn, ast.Subscript):
            f = self.eval(fn, env)
            if isinstance(f, FuncRef):
                return self.call_ref(f, args, kwargs, e)
            return Unknown('call subscript')
        if isinstance(fn, ast.Attribute):
            return Unknown(f'call {norm(fn)}')
        return Unknown('call')

    def call_ref(self, f: FuncRef, args, kwargs, e) -> Any:
        if f.name.startswith('class:'):
            c = self.ctx.index.classes[f.name[6:]]
            return Obj(c.name, args, kwargs, e.lineno, COMPILE, c)
        for fn in self.mod.functions.values():
            if fn.qualname == f.name:
                return self.call_function(fn, args, kwargs)
        return Unknown(f'call {f.name}')


def evaluate_all(ctx: Ctx, fname: str, args: list[Any],
                 kwargs: dict[str, Any]) -> list[tuple[Any, list[str]]]:
    """All results of the builder over every combination of decisions at
    Unknown tests: [(value, [decision descriptions])]."""
    f = ctx.fn(f'{COMPILE}:{fname}')
    results = []
    todo: list[list[bool]] = [[]]
    seen = 0
    while todo:
        prefix = todo.pop()
        seen += 1
        if seen > 256:
            raise AnalysisError(f'{fname}: too many decision combinations')
        orc = Oracle(prefix)
        it = Interp(ctx, orc)
        try:
            v = it.call_function(f, list(args), dict(kwargs))
        except _Raise:
            v = None
        # schedule the alternatives of decisions made beyond the prefix
        for i in range(len(prefix), len(orc.taken)):
            todo.append(orc.taken[:i] + [not orc.taken[i]])
        if v is not None:
            results.append((v, [
                f'{s}={"T" if t else "F"}'
                for s, t in zip(orc.sites, orc.taken)]))
    return results


def alias_passes(ctx: Ctx, o: Obj) -> list[Any] | None:
    """Expand a PassAlias object through its get_passes()."""
    if o.info is None or not ctx.index.is_subclass(o.info, 'PassAlias'):
        return None
    gp = ctx.index.lookup_method(o.info, 'get_passes')
    init = ctx.index.lookup_method(o.info, '__init__')
    if gp is None:
        return None
    attrs: dict[str, Any] = {}
    if init is not None:
        ps = [p for p in init.params if p != 'self']
        bind = {}
        for i, p in enumerate(ps):
            d = init.param_default(p)
            bind[p] = o.args[i] if i < len(o.args) else o.kwargs.get(
                p, ast.literal_eval(d) if isinstance(
                    d, ast.Constant) else Unknown(p))
        for n in ast.walk(init.node):
            if isinstance(n, ast.Assign) and isinstance(
                n.targets[0], ast.Attribute,
            ) and norm(n.targets[0].value) == 'self' and isinstance(
                n.value, ast.Name) and n.value.id in bind:
                attrs[n.targets[0].attr] = bind[n.value.id]
    mod = gp.module
    it = Interp(ctx, Oracle([]))
    it.mod = mod
    env = {'self': Obj(o.cls, [], attrs)}
    try:
        it.exec_block(gp.body, env)
    except _Return as r:
        v = r.v
        return list(v) if isinstance(v, (list, tuple)) else [v]
    return None
