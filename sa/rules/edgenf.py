"""NF: undirected-edge normal form of CouplingGraph (C02(e), C20)."""
from __future__ import annotations

import ast

from ..engine import Ctx
from ..report import Report
from ..source import AnalysisError
from ..source import FunctionInfo
from ..source import norm

GRAPH = 'bqskit/qis/graph.py'
EDGE_SETS = ('self._edges', 'self._remote_edges')


def _swap_text(t: ast.AST) -> str | None:
    if isinstance(t, ast.Tuple) and len(t.elts) == 2:
        return norm(ast.Tuple(elts=[t.elts[1], t.elts[0]], ctx=ast.Load()))
    return None


def _is_normalised_expr(e: ast.AST) -> bool:
    """(min(a,b), max(a,b)) / tuple(sorted(..)) / `g if g[0] <= g[1] else
    (g[1], g[0])`."""
    t = norm(e)
    if isinstance(e, ast.Tuple) and len(e.elts) == 2:
        a, b = norm(e.elts[0]), norm(e.elts[1])
        if a.startswith('min(') and b.startswith('max(') and a[3:] == b[3:]:
            return True
    if t.startswith('tuple(sorted('):
        return True
    if isinstance(e, ast.IfExp) and isinstance(e.test, ast.Compare) and len(
        e.test.ops,
    ) == 1 and isinstance(e.test.ops[0], (ast.LtE, ast.Lt)):
        v = norm(e.body)
        if norm(e.test.left) == f'{v}[0]' and norm(
            e.test.comparators[0]) == f'{v}[1]' and norm(
            e.orelse) == f'({v}[1], {v}[0])':
            return True
    return False


def contains_kind(ctx: Ctx) -> tuple[str, FunctionInfo]:
    """'both-orders' | 'normalising' | 'raw' for CouplingGraph.__contains__"""
    f = ctx.fn(f'{GRAPH}:CouplingGraph.__contains__')
    param = [p for p in f.params if p != 'self'][0]
    probes = []
    for n in ast.walk(f.node):
        if isinstance(n, ast.Compare) and isinstance(n.ops[0], ast.In) and (
            norm(n.comparators[0]) == 'self._edges'
        ):
            probes.append(norm(n.left))
        if isinstance(n, ast.Call) and norm(n.func) == (
            'self._edges.__contains__'
        ) and n.args:
            probes.append(norm(n.args[0]))
    if not probes:
        raise AnalysisError('CouplingGraph.__contains__: no probe of _edges')
    if f'({param}[1], {param}[0])' in probes and (
        param in probes or f'({param}[0], {param}[1])' in probes
    ):
        return 'both-orders', f
    for n in ast.walk(f.node):
        if isinstance(n, (ast.Tuple, ast.IfExp, ast.Call)) and (
            _is_normalised_expr(n)
        ):
            return 'normalising', f
    if 'sorted(' in norm(f.node) or ('min(' in norm(f.node) and 'max(' in norm(
        f.node,
    )):
        return 'normalising', f
    return 'raw', f


def outside_probes(ctx: Ctx) -> list[tuple[FunctionInfo, ast.Compare]]:
    """`X in <coupling graph>` membership tests outside graph.py whose key
    is built from two separately computed endpoints."""
    out = []
    for f in ctx.index.all_functions():
        if f.path == GRAPH:
            continue
        for n in ast.walk(f.node):
            if isinstance(n, ast.Compare) and len(n.ops) == 1 and isinstance(
                n.ops[0], (ast.In, ast.NotIn),
            ):
                c = norm(n.comparators[0])
                if c.endswith('coupling_graph') or c.endswith(
                    '.connectivity') or c in ('cg', 'coupling_graph'):
                    if isinstance(n.left, ast.Tuple) and len(
                        n.left.elts) == 2:
                        out.append((f, n))
    return out


def rule_nf(ctx: Ctx, rep: Report, rule: str = 'NF') -> None:
    cls = ctx.cls(f'{GRAPH}:CouplingGraph')
    init = cls.methods['__init__']
    rep.seen(init.qualname)
    # writers
    n_w = 0
    for n in ast.walk(init.node):
        if isinstance(n, (ast.Assign, ast.AnnAssign)):
            tgt = n.targets[0] if isinstance(n, ast.Assign) else n.target
            if norm(tgt) in EDGE_SETS and n.value is not None:
                v = n.value
                n_w += 1
                rep.count()
                ok = (
                    isinstance(v, ast.SetComp) and _is_normalised_expr(v.elt)
                ) or norm(v) in ('graph._edges', 'graph._remote_edges')
                rep.check(
                    ok, rule, f'CouplingGraph.__init__:{norm(tgt)}',
                    init.path, n.lineno,
                    'stored edges are normalised (low, high) or copied from '
                    'a normalised set',
                    f'`{norm(tgt)}` is built as `{norm(v)[:70]}`: edges '
                    'are no longer stored in (low, high) normal form, which '
                    'every probe relies on', key=norm(tgt),
                )
    rep.floor(rule, n_w, 4, 'edge-set writers')
    # __contains__
    kind, cf = contains_kind(ctx)
    rep.seen(cf.qualname)
    outs = outside_probes(ctx)
    rep.count(1 + len(outs))
    callers = sorted({f'{f.qualname.split(".")[-2]}.{f.name}'
                      for f, _ in outs})
    rep.check(
        kind != 'raw', rule, 'CouplingGraph.__contains__', cf.path,
        cf.lineno, f'membership is order independent ({kind})',
        'forwards the raw probe to the normalised edge set: `(1, 0) in '
        'graph` is False for a stored (0, 1). Callers probing with '
        f'arbitrary endpoint order: {callers}', key='raw-probe',
    )
    rep.floor(rule, len(outs), 2, 'outside membership probes')
    for f, n in outs:
        rep.ok(rule, f'{f.cls.name + "." if f.cls else ""}{f.name}:probe',
               f.path, n.lineno,
               f'`{norm(n)[:60]}` relies on CouplingGraph.__contains__')
    # inside probes
    n_p = 0
    for f in cls.methods.values():
        if f.name == '__contains__':
            continue
        probes = []
        for n in ast.walk(f.node):
            if isinstance(n, ast.Compare) and len(n.ops) == 1 and isinstance(
                n.ops[0], (ast.In, ast.NotIn),
            ) and norm(n.comparators[0]) in EDGE_SETS:
                probes.append(n)
        for n in probes:
            n_p += 1
            rep.count()
            key = n.left
            ok = _is_normalised_expr(key) or _drawn_from_edges(f, key)
            sw = _swap_text(key)
            if not ok and sw:
                ok = any(
                    norm(m.left) == sw and norm(m.comparators[0]) == norm(
                        n.comparators[0]) for m in probes)
            rep.check(
                ok, rule, f'CouplingGraph.{f.name}:probe', f.path, n.lineno,
                f'`{norm(n)[:60]}` probes a normalised key or both orders',
                f'`{norm(n)[:60]}` probes the normalised set '
                f'`{norm(n.comparators[0])}` with a key of arbitrary '
                'endpoint order and never tries the other order',
                key=norm(n)[:60],
            )
    rep.floor(rule, n_p, 4, 'probes of the edge sets inside graph.py')


def _drawn_from_edges(f: FunctionInfo, key: ast.AST) -> bool:
    names = {x.id for x in ast.walk(key) if isinstance(x, ast.Name)}
    for lp in ast.walk(f.node):
        if isinstance(lp, (ast.For, ast.comprehension)) and norm(
            lp.iter) in EDGE_SETS + ('self',):
            bound = {x.id for x in ast.walk(lp.target)
                     if isinstance(x, ast.Name)}
            if names and names <= bound and norm(key) == norm(lp.target):
                return True
    return False
