"""Message-protocol extraction for the runtime (DESIGN 4/C07 PROTO).

Send sites are found structurally (a `send((RuntimeMessage.K, p))` call, an
`outgoing.put((conn, RuntimeMessage.K, p))`, a `broadcast(K, p)`), the
channel from the connection expression through the frozen connection table,
and dispatchers from the if/elif chains over `msg == RuntimeMessage.K` nested
in a test of `direction`.
"""
from __future__ import annotations

import ast

from ..engine import Ctx
from ..source import AnalysisError
from ..source import ClassInfo
from ..source import FunctionInfo
from ..source import norm

RT = 'bqskit/runtime/'
WORKER = RT + 'worker.py:Worker'
BASE = RT + 'base.py:ServerBase'
EMP = RT + 'base.py:RuntimeEmployee'
DET = RT + 'detached.py:DetachedServer'
ATT = RT + 'attached.py:AttachedServer'
MGR = RT + 'manager.py:Manager'
COMP = 'bqskit/compiler/compiler.py:Compiler'

# connection table: (class name, connection expression text) -> channel
# one line of reason each (confirmed by reading the constructors)
CONN_TABLE = {
    ('Worker', 'self._conn'): 'up',          # worker's only duplex link
    ('Manager', 'self.upstream'): 'up',      # accepted in Manager.__init__
    ('RuntimeEmployee', 'self.conn'): 'down',  # boss's handle on employee
    ('Compiler', 'self.conn'): 'c2s',        # client connection
    ('Compiler', 'conn'): 'c2s',             # local alias during connect
    ('*', 'employee.conn'): 'down',
    ('*', 'e.conn'): 'down',
    ('*', 'client'): 's2c',                  # iterating self.clients
    ('*', 'client_conn'): 's2c',             # self.tasks[...][1]
    ('*', 'self.tasks[t_id][1]'): 's2c',
    ('ServerBase', 'conn'): 'handshake',     # connect_to_* setup phase
    ('DetachedServer', 'conn'): 's2c',       # only client handlers send on conn
    ('AttachedServer', 'conn'): 's2c',
}


class Send:
    def __init__(self, fn: FunctionInfo, cls: str, kind: str, chan: str,
                 payload: ast.AST | None, node: ast.AST, via: str) -> None:
        self.fn = fn
        self.cls = cls
        self.kind = kind      # 'SUBMIT' ... or '*' for a forwarded variable
        self.chan = chan
        self.payload = payload
        self.node = node
        self.via = via

    @property
    def lineno(self) -> int:
        return getattr(self.node, 'lineno', 0)

    def __repr__(self) -> str:
        return f'<send {self.kind} {self.chan} {self.cls}.{self.fn.name}:{self.lineno}>'


def _kind(e: ast.AST) -> str | None:
    if isinstance(e, ast.Attribute) and norm(e.value) == 'RuntimeMessage':
        return e.attr
    if isinstance(e, ast.Name):
        return '*'  # forwarded message variable
    return None


def _chan(cls: str, conn_txt: str) -> str:
    for key in ((cls, conn_txt), ('*', conn_txt)):
        if key in CONN_TABLE:
            return CONN_TABLE[key]
    return '?'


def _local_tuple(fn: FunctionInfo, name: str) -> ast.Tuple | None:
    found = None
    for n in ast.walk(fn.node):
        if isinstance(n, ast.Assign) and len(n.targets) == 1 and norm(
            n.targets[0],
        ) == name and isinstance(n.value, ast.Tuple):
            found = n.value
    return found


def sends_in(fn: FunctionInfo, cls_name: str) -> list[Send]:
    out: list[Send] = []
    for c in ast.walk(fn.node):
        if not isinstance(c, ast.Call) or not isinstance(
            c.func, ast.Attribute,
        ):
            continue
        recv = norm(c.func.value)
        m = c.func.attr
        if m == 'send' and c.args:
            t = c.args[0]
            if isinstance(t, ast.Tuple) and len(t.elts) == 2:
                k = _kind(t.elts[0])
                if k:
                    out.append(Send(fn, cls_name, k, _chan(cls_name, recv),
                                    t.elts[1], c, 'send'))
        elif m == 'put' and recv.endswith('outgoing') and c.args:
            t = c.args[0]
            if isinstance(t, ast.Name):
                t = _local_tuple(fn, t.id) or t
            if isinstance(t, ast.Tuple) and len(t.elts) == 3:
                k = _kind(t.elts[1])
                if k:
                    out.append(Send(fn, cls_name, k,
                                    _chan(cls_name, norm(t.elts[0])),
                                    t.elts[2], c, 'outgoing'))
        elif m == 'broadcast' and recv == 'self' and len(c.args) == 2:
            k = _kind(c.args[0])
            if k:
                out.append(Send(fn, cls_name, k, 'down', c.args[1], c,
                                'broadcast'))
    return out


def all_sends(ctx: Ctx) -> list[Send]:
    out: list[Send] = []
    for q in (WORKER, BASE, EMP, DET, ATT, MGR, COMP):
        c = ctx.cls(q)
        for f in c.methods.values():
            out += sends_in(f, c.name)
        # nested functions (Worker's record_factory) are walked with their
        # enclosing method by ast.walk above
    return out


class Branch:
    def __init__(self, kind: str, body: list[ast.stmt], test: ast.AST,
                 lineno: int) -> None:
        self.kind = kind
        self.body = body
        self.test = test
        self.lineno = lineno


def _msg_chain(stmt: ast.If, var: str = 'msg') -> tuple[list[Branch], list[ast.stmt] | None]:
    """Flatten `if msg == K1: ... elif msg == K2: ... else: ...`."""
    branches: list[Branch] = []
    cur: ast.stmt | None = stmt
    else_body: list[ast.stmt] | None = None
    while isinstance(cur, ast.If):
        t = cur.test
        ks = _kinds_of_test(t, var)
        if not ks:
            return branches, None if not branches else cur.orelse
        for k in ks:
            branches.append(Branch(k, cur.body, t, cur.lineno))
        if len(cur.orelse) == 1 and isinstance(cur.orelse[0], ast.If) and (
            _kinds_of_test(cur.orelse[0].test, var)
        ):
            cur = cur.orelse[0]
        else:
            else_body = cur.orelse
            cur = None
    return branches, else_body


def _kinds_of_test(t: ast.AST, var: str) -> list[str]:
    if isinstance(t, ast.Compare) and len(t.ops) == 1 and isinstance(
        t.ops[0], ast.Eq,
    ) and norm(t.left) == var:
        k = _kind(t.comparators[0])
        return [k] if k and k != '*' else []
    if isinstance(t, ast.Compare) and len(t.ops) == 1 and isinstance(
        t.ops[0], ast.In,
    ) and norm(t.left) == var and isinstance(
        t.comparators[0], (ast.Tuple, ast.List, ast.Set),
    ):
        return [k for k in (_kind(e) for e in t.comparators[0].elts) if k]
    return []


class Dispatcher:
    def __init__(self, fn: FunctionInfo, direction: str,
                 branches: list[Branch], else_body: list[ast.stmt] | None):
        self.fn = fn
        self.direction = direction
        self.branches = branches
        self.else_body = else_body

    def kinds(self) -> set[str]:
        return {b.kind for b in self.branches}

    def branch(self, kind: str) -> Branch | None:
        for b in self.branches:
            if b.kind == kind:
                return b
        return None

    def else_action(self) -> str:
        """'raise' | 'forward-up' | 'ignore' | 'return-to-caller'"""
        if self.else_body is None or not self.else_body:
            return 'ignore'
        txt = ' '.join(norm(s) for s in self.else_body)
        if txt.startswith('raise'):
            return 'raise'
        if 'self.upstream' in txt and 'outgoing.put' in txt:
            return 'forward-up'
        if 'to_return' in txt:
            return 'return-to-caller'
        return 'other'


def dispatchers(f: FunctionInfo) -> list[Dispatcher]:
    """Dispatch chains of a handle_message-like function, one per direction
    (or a single '-' direction for functions without a direction test)."""
    out: list[Dispatcher] = []

    def visit(stmts: list[ast.stmt], direction: str) -> None:
        for s in stmts:
            if isinstance(s, ast.If):
                d = _direction(s.test)
                if d:
                    cur: ast.stmt | None = s
                    while isinstance(cur, ast.If) and _direction(cur.test):
                        visit(cur.body, _direction(cur.test))
                        nxt = cur.orelse
                        cur = nxt[0] if len(nxt) == 1 and isinstance(
                            nxt[0], ast.If) else None
                    continue
                br, els = _msg_chain(s)
                if br:
                    out.append(Dispatcher(f, direction, br, els))
                    continue
                visit(s.body, direction)
                visit(s.orelse, direction)
            elif isinstance(s, (ast.While, ast.For, ast.With, ast.Try)):
                visit(s.body, direction)
                if isinstance(s, ast.Try):
                    visit(s.orelse, direction)
    visit(f.body, '-')
    return out


def _direction(t: ast.AST) -> str:
    if isinstance(t, ast.Compare) and norm(t.left) == 'direction' and len(
        t.ops,
    ) == 1 and isinstance(t.ops[0], ast.Eq):
        c = t.comparators[0]
        if isinstance(c, ast.Attribute) and norm(c.value) == (
            'MessageDirection'
        ):
            return c.attr
    return ''


def message_kinds(ctx: Ctx) -> set[str]:
    c = ctx.cls(RT + 'message.py:RuntimeMessage')
    return set(c.class_attrs)


def payload_arity(e: ast.AST | None, fn: FunctionInfo) -> int | None:
    """Tuple arity of a payload expression (None = not a tuple literal)."""
    if e is None:
        return None
    if isinstance(e, ast.Name):
        t = _local_tuple(fn, e.id)
        if t is not None:
            return len(t.elts)
        return None
    if isinstance(e, ast.Tuple):
        return len(e.elts)
    return None


def handler_fn(ctx: Ctx, cls: ClassInfo, br: Branch) -> FunctionInfo | None:
    """The handler method a dispatcher branch delegates to (self.handle_x)."""
    for s in br.body:
        for c in ast.walk(s):
            if isinstance(c, ast.Call) and isinstance(
                c.func, ast.Attribute,
            ) and norm(c.func.value) == 'self':
                f = ctx.index.lookup_method(cls, c.func.attr)
                if f is not None and (c.func.attr.startswith('handle_') or (
                    c.func.attr.startswith('_handle_'))):
                    return f
    return None


def require(cond: bool, msg: str) -> None:
    if not cond:
        raise AnalysisError(msg)
